"""C19 / C05: harmonic bookkeeping of snr / sinad / thd (lib/snr.cpp)."""
from engine.spec import fn
from contracts.snr2 import ENV as E2, S_, A
from contracts.mathfun import LIBM

ENV = dict(E2)
ENV.update(LIBM)

fn(A + '_alias_to_nyquist', S_, serves=['C19', 'C05'], pure=True, extra_env=ENV, throws='False',
   requires=[('rate', 'fs > 0'), ('frequency', 'f >= 0')],
   ensures=[('folded', 'And(result >= 0, result <= fs / 2)'),
            ('image', 'exists(lambda q: And(q >= 0, Or(result == f - ToReal(q) * fs, result == ToReal(q + 1) * fs - f)))')])

# one-sided periodogram of the DC-free, Kaiser-windowed signal: n = 2^nextpow2(len) points, bins 0..n/2-1, scaled by len*n/2
fn(A + '_periodogram', S_, serves=['C19', 'C05'], pure=True, extra_env=ENV, may_throw=True,
   requires=[('size', 'And(sig.len >= 3, sig.len <= 1000000)')],
   ghost={'N': '-1', 'U': 'RealVal(0)', 'XL': '-1'}, ghost_on=[('call:fft', None, {'N': 'arg1', 'XL': 'arg0.len'}), ('call:operator/', None, {'U': 'arg0'})],
   ensures=[('transform_size', 'And(N >= sig.len, N < 2 * sig.len, XL == sig.len)'),
            ('length', 'result.len == tdiv(N, 2)'),
            ('scale', 'U == ToReal(sig.len) * ToReal(N) / 2')])

fn(A + '_harm_analyze', S_, serves=['C19', 'C05'], pure=True, extra_env=ENV, may_throw=True,
   requires=[('spectrum', 'And(spectrum.len >= 1, spectrum.len <= 262144)'), ('harmonics', 'And(nharm >= 1, nharm <= 1000)')],
   ensures=[('lengths', 'And(result.harmpow.len == nharm, result.harmfreq.len == nharm)')])

# the fundamental: the tone around the global maximum (frequency argmax / n handed to the two-argument form)
fn(A + '_get_psd_tone', S_, sig='(const dsplib::arr_real &)', key='_get_psd_tone(spec)', serves=['C19', 'C05'], pure=True, extra_env=ENV,
   requires=[('nonempty', 'And(spec.len >= 1, spec.len <= 262144)')], throws='False',
   ghost={'FQ': 'RealVal(-1)'}, ghost_on=[('call:_get_psd_tone', None, {'FQ': 'arg1'})],
   ensures=[('skirt', 'And(0 <= result.lpos, result.lpos <= result.rpos, result.rpos < spec.len, result.size == spec.len)'),
            ('starts_at_the_maximum', 'exists(lambda j: And(0 <= j, j < spec.len, FQ * ToReal(spec.len) == ToReal(j), forall(lambda k: Implies(And(0 <= k, k < spec.len), spec[k] <= spec[j]))))')])

fn('dsplib::sum', 'lib/math.cpp', sig='int (const std::vector<bool> &)', key='sum(vector<bool>)', serves=['C17', 'C05'], pure=True, extra_env=ENV, throws='False',
   trusted=True, notes='DEV ONLY until std::count is modelled',
   ensures=[('range', 'And(result >= 0, result <= arr.len)'), ('none', 'Implies(forall(lambda k: Implies(And(0 <= k, k < arr.len), Not(arr[k]))), result == 0)')])
