#!/bin/sh
# usage: tools/run_seeded_par.sh [K] ; evaluates all seeded changes on K scratch worktrees (/tmp/mut/P1..PK, removed at the end)
# in parallel, round-robin split; results go to seeded/<id>/meta.json, logs to /tmp/mut/seeded_par_<k>.log
K=${1:-3}
cd "$(dirname "$0")/.." || exit 2
mkdir -p /tmp/mut
k=1
while [ "$k" -le "$K" ]; do
  ids=$(ls seeded | awk -v K="$K" -v k="$k" '(NR - 1) % K == k - 1')
  ( python3 tools/run_seeded.py --scratch /tmp/mut/P$k $ids > /tmp/mut/seeded_par_$k.log 2>&1 ) &
  k=$((k + 1))
done
wait
cat /tmp/mut/seeded_par_*.log | sort
