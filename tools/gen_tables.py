#!/usr/bin/env python3
"""Rewrites the generated part of DESIGN.md (between the BEGIN/END GENERATED markers) from evidence/*.json and
seeded/*/meta.json."""
import json, os, glob, re
V = os.path.dirname(os.path.dirname(os.path.abspath(__file__)))
out = ['<!-- BEGIN GENERATED -->', '', '## Generated tables', '',
       '### Functions under contract and obligations per property (from evidence/*.json of the last run)', '']
for f in sorted(glob.glob(os.path.join(V, 'evidence', 'C*.json'))):
    e = json.load(open(f))
    c = e['coverage']
    out.append('**%s** — %d obligations, %d discharged, %d functions, solver %.0f s, wall %.0f s; by kind: %s' % (
        e['property_id'], c['obligations'], c['discharged'], len(c['functions_under_contract']), c.get('solver_s', 0), e.get('wall_s', 0),
        ', '.join('%s %d' % kv for kv in sorted(c.get('obligations_by_kind', {}).items()))))
    fs = [x for x in c['functions_under_contract'] if not x['contract'].startswith('statics(')]
    st = [x for x in c['functions_under_contract'] if x['contract'].startswith('statics(')]
    names = ['%s (%d)' % (re.sub(r'^dsplib::', '', x['contract']), x['obligations']) for x in fs]
    if st:
        names.append('static-storage scan of %d translation units (%d)' % (len(st), sum(x['obligations'] for x in st)))
    out.append('')
    out.append('; '.join(names))
    tr = [a for a in e.get('assumptions', []) if a.startswith('assumed (unverified) contract')]
    if tr:
        out.append('')
        out.append('Trusted contracts used: ' + '; '.join(re.sub(r'^assumed \(unverified\) contract: ', '', a).split(' -- ')[0] for a in tr))
    out.append('')
out += ['### Seeded changes and the checks that catch them', '',
        '| change | breaks | what it does (first line of the author\'s note) | checks run → exit | caught | native replay |', '|---|---|---|---|---|---|']
nd = nt = 0
for d in sorted(glob.glob(os.path.join(V, 'seeded', '*', 'meta.json'))):
    m = json.load(open(d))
    note = (m.get('needs_to_manifest_and_what_was_run') or '').strip().split('\n')[0]
    note = re.sub(r'^\**Change\**:?\s*', '', note)[:230].replace('|', '/')
    det = m.get('detection') or {}
    runs = ', '.join('%s→%d' % (k, v['exit']) for k, v in det.items()) or (m.get('result') or 'not run')
    still = (m.get('reconfirmed') or {}).get('still_breaks_property', True)
    caught = 'yes' if m.get('detected') else ('no' if det else '-')
    if not still:
        caught += ' (no longer breaks the property on the repaired tree)'
    else:
        nt += 1
        nd += 1 if m.get('detected') else 0
    nat = 'yes' if any(v.get('reproduced_natively') for v in det.values()) else ''
    out.append('| %s | %s | %s | %s | %s | %s |' % (m['id'], m['breaks_property'], note, runs, caught, nat))
out += ['', '%d of %d property-breaking changes are reported as VIOLATION by the check of the property they break.' % (nd, nt), '',
        '<!-- END GENERATED -->']
p = os.path.join(V, 'DESIGN.md')
s = open(p).read()
a = s.index('<!-- BEGIN GENERATED -->')
b = s.index('<!-- END GENERATED -->') + len('<!-- END GENERATED -->')
open(p, 'w').write(s[:a] + '\n'.join(out) + s[b:])
print('tables written:', nd, 'of', nt)
