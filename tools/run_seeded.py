#!/usr/bin/env python3
"""Runs every seeded change under /verif/seeded against the checks of the property it breaks (and any extra properties
given in meta 'checks'), one at a time.

  tools/run_seeded.py [--scratch DIR] [id-prefix ...]

Without --scratch the change is applied to /repo itself (git -C /repo apply <patch>; ./check; git -C /repo checkout -- .).
With --scratch DIR a detached worktree of /repo's HEAD is created at DIR (outside /repo and /verif), the checks run
against it through VERIF_REPO, their evidence/replays go to DIR.out, and both are removed at the end.
Writes the outcome into seeded/<id>/meta.json."""
import json, os, subprocess, sys, shutil
V = os.path.dirname(os.path.dirname(os.path.abspath(__file__)))
args = sys.argv[1:]
repo = '/repo'
env = dict(os.environ)
scratch = None
if args and args[0] == '--scratch':
    scratch = args[1]
    args = args[2:]
    subprocess.check_call(['git', '-C', '/repo', 'worktree', 'add', '-q', '--detach', scratch, 'HEAD'])
    repo = scratch
    env['VERIF_REPO'] = scratch
    env['VERIF_OUT'] = scratch + '.out'
    env['VERIF_WORK'] = scratch + '.work'
only = args
try:
    for d in sorted(os.listdir(os.path.join(V, 'seeded'))):
        if only and not any(d.startswith(o) for o in only):
            continue
        sd = os.path.join(V, 'seeded', d)
        patch = os.path.join(sd, 'patch.diff')
        if not os.path.exists(patch):
            continue
        mp = os.path.join(sd, 'meta.json')
        meta = json.load(open(mp)) if os.path.exists(mp) else {}
        pid = d.split('-')[0]
        meta.setdefault('id', d)
        meta.setdefault('breaks_property', pid)
        props = meta.get('checks', [pid])
        if subprocess.call(['git', '-C', repo, 'apply', '--check', patch]) != 0:
            meta['result'] = 'patch does not apply to the current tree'
            json.dump(meta, open(mp, 'w'), indent=1)
            print(d, 'NOAPPLY', flush=True)
            continue
        subprocess.check_call(['git', '-C', repo, 'apply', patch])
        try:
            res = {}
            for p in props:
                r = subprocess.run([os.path.join(V, 'check'), p], capture_output=True, text=True, cwd=V, env=env)
                viol = [l for l in r.stdout.splitlines() if l.startswith('VIOLATION')]
                und = [l for l in r.stdout.splitlines() if l.startswith('UNDECIDED')]
                res[p] = {'exit': r.returncode, 'violations': len(viol),
                          'first': (viol[0][:300] if viol else (und[0][:300] if und else '')),
                          'reproduced_natively': any('no-failing-input-found' not in l for l in viol)}
            meta['detection'] = res
            meta['detected'] = any(v['exit'] == 1 and v['violations'] > 0 for v in res.values())
            meta.pop('result', None)
        finally:
            subprocess.check_call(['git', '-C', repo, 'checkout', '--', '.'])
        json.dump(meta, open(mp, 'w'), indent=1)
        print(d, 'DETECTED' if meta['detected'] else 'missed', {k: v['exit'] for k, v in res.items()}, flush=True)
finally:
    if scratch:
        subprocess.call(['git', '-C', '/repo', 'worktree', 'remove', '--force', scratch])
        shutil.rmtree(scratch + '.out', ignore_errors=True)
        shutil.rmtree(scratch + '.work', ignore_errors=True)
