#!/bin/sh
# Rewrites contracts/baseline_obligations.json from the current tree: a first pass under solver seed 0, then passes under seeds
# 1..3 merged in (names: intersection, VC fingerprints: union). Run after every change of contracts/ or engine/ (about 25 min).
cd "$(dirname "$0")/.." || exit 2
for i in 01 02 03 04 05 06 07 08 09 10 11 12 13 14 15 16 17 18 19 20; do VERIF_SEED=0 VERIF_WRITE_BASELINE=1 ./check C$i --tier quick 2>&1 | tail -1; done
for sd in 1 2 3; do
  for i in 01 02 03 04 05 06 07 08 09 10 11 12 13 14 15 16 17 18 19 20; do
    VERIF_SEED=$sd VERIF_WRITE_BASELINE=1 VERIF_BASELINE_MERGE=1 ./check C$i --tier quick 2>&1 | tail -1
  done
done
