#!/bin/sh
# usage: tools/reconfirm.sh <slot> <id>... ; re-confirms seeded changes against /repo's current HEAD in the scratch worktree
# /tmp/mut/R<slot> (created here, removed by the caller): tests pass with the change, demo fails with it, passes without
SLOT=$1; shift
WT=/tmp/mut/R$SLOT
mkdir -p /tmp/mut
[ -d $WT ] || git -C /repo worktree add -q --detach $WT HEAD || exit 2
cd $WT || exit 2
CFG="-G Ninja -B _build -DCMAKE_BUILD_TYPE=RelWithDebInfo -DDSPLIB_BUILD_TESTS=ON -DFETCHCONTENT_SOURCE_DIR_GOOGLETEST=/usr/src/googletest -DFETCHCONTENT_FULLY_DISCONNECTED=ON -DCPM_USE_LOCAL_PACKAGES=ON -DCPM_SOURCE_CACHE=/w/cpm"
cmake $CFG >/dev/null 2>&1; cmake --build _build >/dev/null 2>&1
for id in "$@"; do
  d=/verif/seeded/$id
  git checkout -q -- .
  g++ -std=c++17 -O1 -I include -I _build $d/demo.cpp _build/libdsplib.a -pthread -o /tmp/mut/demo_R$SLOT 2>/dev/null; timeout 300 /tmp/mut/demo_R$SLOT >/dev/null 2>&1; B=$?
  git apply $d/patch.diff 2>/dev/null || { echo "$id: patch does not apply"; continue; }
  cmake --build _build >/dev/null 2>&1 || { echo "$id: build fails"; git checkout -q -- .; cmake --build _build >/dev/null 2>&1; continue; }
  T=$(./_build/tests/dsplib-test 2>&1 | grep -c "PASSED  \] 175 tests")
  g++ -std=c++17 -O1 -I include -I _build $d/demo.cpp _build/libdsplib.a -pthread -o /tmp/mut/demo_R$SLOT 2>/dev/null; timeout 300 /tmp/mut/demo_R$SLOT >/dev/null 2>&1; A=$?
  git checkout -q -- . ; cmake --build _build >/dev/null 2>&1
  echo "$id: tests_pass_with_change=$T demo_exit_with_change=$A demo_exit_without=$B"
done
rm -f /tmp/mut/demo_R$SLOT
