import sys; sys.path.insert(0,'/verif')
from engine import astdb
tu = astdb.load_tu(sys.argv[1])
pat = sys.argv[2]
def show(n, d=0, maxd=40):
    if not isinstance(n, dict): return
    t = n.get('type', {})
    extra = ''
    if n.get('kind') in ('MemberExpr',): extra = ' .' + str(n.get('name')) + (' arrow' if n.get('isArrow') else '')
    if n.get('kind') in ('DeclRefExpr',): extra = ' ref=' + str(n.get('referencedDecl', {}).get('name'))
    if 'name' in n and not extra: extra = ' name=' + str(n['name'])
    if 'opcode' in n: extra += ' op=' + n['opcode']
    if 'value' in n: extra += ' value=' + str(n['value'])
    print('  ' * d + n.get('kind', '?') + extra + '  :: ' + (t.get('desugaredQualType') or t.get('qualType') or '') + (' [%s]' % n.get('valueCategory') if n.get('valueCategory') else ''))
    if d < maxd:
        for c in n.get('inner', ()): show(c, d + 1, maxd)
for q, fs in tu.funcs.items():
    if pat in q:
        for f in fs:
            print('=====', q, f['type']['qualType'], f.get('_targs'), f.get('_file'), f.get('_line'))
            show(f)
