#!/bin/sh
# usage: tools/confirm_mutants.sh <PID> ; confirms every /tmp/mut/<PID>/out/m* in the scratch worktree /tmp/mut/<PID>
# (tests pass with the change, demo fails with it and passes without it) and copies confirmed ones to /verif/seeded/
PID=$1; WT=/tmp/mut/$PID
cd $WT || exit 2
git checkout -q -- . 
CFG="-G Ninja -B _build -DCMAKE_BUILD_TYPE=RelWithDebInfo -DDSPLIB_BUILD_TESTS=ON -DFETCHCONTENT_SOURCE_DIR_GOOGLETEST=/usr/src/googletest -DFETCHCONTENT_FULLY_DISCONNECTED=ON -DCPM_USE_LOCAL_PACKAGES=ON -DCPM_SOURCE_CACHE=/w/cpm"
cmake $CFG >/dev/null 2>&1
for m in out/m*; do
  k=$(basename $m)
  git checkout -q -- . ; git apply $m/patch.diff || { echo "$PID/$k: patch does not apply"; continue; }
  cmake --build _build >/dev/null 2>&1 || { echo "$PID/$k: build fails"; git checkout -q -- .; continue; }
  T=$(./_build/tests/dsplib-test 2>&1 | grep -c "PASSED  \] 175 tests")
  g++ -std=c++17 -O1 -I include -I _build $m/demo.cpp _build/libdsplib.a -o /tmp/mut/demo_$PID 2>/dev/null; timeout 120 /tmp/mut/demo_$PID >/dev/null 2>&1; A=$?
  git checkout -q -- . ; cmake --build _build >/dev/null 2>&1
  g++ -std=c++17 -O1 -I include -I _build $m/demo.cpp _build/libdsplib.a -o /tmp/mut/demo_$PID 2>/dev/null; timeout 120 /tmp/mut/demo_$PID >/dev/null 2>&1; B=$?
  echo "$PID/$k: tests_pass_with_change=$T demo_exit_with_change=$A demo_exit_without=$B"
  if [ "$T" = "1" ] && [ "$A" != "0" ] && [ "$B" = "0" ]; then
    d=/verif/seeded/$PID-$k; mkdir -p $d; cp $m/patch.diff $m/demo.cpp $m/NOTES.md $d/
    echo "{\"confirmed\": true, \"tests_pass_with_change\": true, \"demo_exit_with_change\": $A, \"demo_exit_without_change\": $B}" > $d/confirm.json
  fi
done
rm -f /tmp/mut/demo_$PID
