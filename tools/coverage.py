#!/usr/bin/env python3
"""Lists the function definitions of /repo/lib (and the instantiation drivers) that no contract covers."""
import sys, os, glob
sys.path.insert(0, os.path.dirname(os.path.dirname(os.path.abspath(__file__))))
from engine import astdb, run
from engine import spec as S
run.load_contracts()
tus = sorted(os.path.relpath(p, astdb.REPO) for p in glob.glob(astdb.REPO + '/lib/*.cpp') + glob.glob(astdb.REPO + '/lib/*/*.cpp')) + ['drivers/instantiate.cpp']
seen = {}
for t in tus:
    tu = astdb.load_tu(t)
    for q, fs in tu.funcs.items():
        for f in fs:
            if f.get('_dependent') or not f.get('_file', '').startswith(astdb.REPO):
                continue
            if f.get('isImplicit') or f.get('explicitlyDefaulted'):
                continue
            key = (q, f['type']['qualType'])
            if key in seen:
                continue
            c = S.lookup(q, f['type']['qualType'], f.get('_targs'))
            seen[key] = (c, os.path.relpath(f['_file'], astdb.REPO), f.get('_line'))
unc = [(v[1], v[2], k[0], k[1]) for k, v in seen.items() if v[0] is None]
cov = [k for k, v in seen.items() if v[0] is not None]
print('%d function definitions, %d under contract (or inlined), %d not' % (len(seen), len(cov), len(unc)))
for f, l, q, t in sorted(unc):
    print('%-32s %5s  %s : %s' % (f, l, q, t[:90]))
