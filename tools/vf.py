import sys, os; sys.path.insert(0, os.path.dirname(os.path.dirname(os.path.abspath(__file__))))
from engine import spec, verify, run
run.load_contracts()
import os, importlib.util
if os.environ.get('VERIF_DEV'):
    # contracts under development, kept outside contracts/ until they verify (a check may be running)
    for f in os.environ['VERIF_DEV'].split(':'):
        sp = importlib.util.spec_from_file_location('dev_' + os.path.basename(f)[:-3], f)
        m = importlib.util.module_from_spec(sp); sp.loader.exec_module(m)
pat=sys.argv[1] if len(sys.argv)>1 else ''
allo = len(sys.argv)>2
for k in spec.ORDER:
    c=spec.REGISTRY[k]
    if pat not in k or not c.verify: continue
    r=verify.verify_function(c)
    bad=[o for o in r.obligations if o.status!='discharged']
    print(k, r.status, r.message[:300], 'paths',r.paths, r.exits, 'obl',len(r.obligations),'bad',len(bad), '%.2fs'%r.secs)
    for o in (r.obligations if allo else bad):
        print('    ',o.status,o.name,o.model if o.status!='discharged' else '', o.detail, '%.2f'%o.secs)
