#!/bin/sh
# usage: tools/eval_mutants.sh <dir with m*/patch.diff> <property id>...
# applies each seeded change to /repo, runs the given checks, and reverts it straight afterwards
D=$1; shift
for m in "$D"/m*; do
  [ -f "$m/patch.diff" ] || continue
  if ! git -C /repo apply --check "$m/patch.diff" 2>/dev/null; then echo "== $m: patch does not apply"; continue; fi
  git -C /repo apply "$m/patch.diff"
  for p in "$@"; do
    out=$(cd /verif && ./check $p 2>&1); code=$?
    echo "== $m  check $p exit=$code"
    echo "$out" | grep -E "^VIOLATION|^UNDECIDED|obligations," | cut -c1-260 | head -6
  done
  git -C /repo checkout -- .
done
git -C /repo status --short | grep -v "^??" | head -3
