"""C02 / C05: the short forms of stft / istft (periodic hann window of nfft points, half overlap)."""
from engine.spec import fn
from contracts.stft import ENV, ST

fn('dsplib::stft', ST, sig='(const dsplib::arr_real &, int, dsplib::StftRange)', key='stft(x,nfft,range)', serves=['C02', 'C05'], pure=True, extra_env=ENV, may_throw=True,
   requires=[('nfft', 'And(nfft >= 4, tmod(nfft, 2) == 0, nfft <= 1048576)'), ('signal', 'x.len <= 1073741824'), ('range', 'And(0 <= range, range <= 2)')],
   ghost={'WL': '-1', 'OV': '-1', 'NF': '-1', 'RG': '-1'}, ghost_on=[('call:stft', None, {'WL': 'arg1.len', 'OV': 'arg2', 'NF': 'arg3', 'RG': 'arg4'})],
   ensures=[('defaults', 'And(WL == nfft, OV == tdiv(nfft, 2), NF == nfft, RG == range)'),
            ('frames', 'result.len == If(tdiv(x.len - tdiv(nfft, 2), nfft - tdiv(nfft, 2)) > 0, tdiv(x.len - tdiv(nfft, 2), nfft - tdiv(nfft, 2)), 0)')])
fn('dsplib::istft', ST, sig='(const std::vector<arr_cmplx> &, int, dsplib::StftRange, dsplib::OverlapMethod)', key='istft(xx,nfft,range,method)', serves=['C02', 'C05'], pure=True, extra_env=ENV, may_throw=True,
   requires=[('nfft', 'And(nfft >= 4, tmod(nfft, 2) == 0, nfft <= 1024)'), ('frames', 'And(xx.len >= 1, xx.len <= 1024)'), ('range', 'And(0 <= range, range <= 2, 0 <= method, method <= 1)')],
   ghost={'WL': '-1', 'OV': '-1', 'NF': '-1', 'RG': '-1', 'ME': '-1'}, ghost_on=[('call:istft', None, {'WL': 'arg1.len', 'OV': 'arg2', 'NF': 'arg3', 'RG': 'arg4', 'ME': 'arg5'})],
   ensures=[('defaults', 'And(WL == nfft, OV == tdiv(nfft, 2), NF == nfft, RG == range, ME == method)'),
            ('length', 'result.len == nfft + (xx.len - 1) * (nfft - tdiv(nfft, 2))')])
