"""C19 / C09: random streams (lib/random.cpp) and additive noise (lib/awgn.cpp)."""
from engine.spec import fn, inline_fn
from contracts.mathfun import LIBM
import z3 as _z3
from engine.prelude import RNG_SEED, DRAW_ENGINE, DRAW_DIST

RN = 'lib/random.cpp'
AW = 'lib/awgn.cpp'
ENV = dict(LIBM)
ENV.update({'RNG_SEED': RNG_SEED})

# A block generator constructs its distribution afresh (state 0) and draws n times. ES(kind)(s, k) / DS(kind)(s, k) are the
# engine / distribution state after k draws starting from engine state s; the k-th value is draw(DS, ES, params).
# Nothing is assumed about how many engine steps a draw takes (libstdc++'s normal_distribution draws pairs and keeps one),
# so nothing is claimed about splitting a block into two calls -- only that the block is a function of the engine state at
# entry, which is what "rng(seed) replays the same values" needs.
I_ = _z3.IntSort()


def ES(kind):
    return _z3.Function('engine_after_k_' + kind, I_, I_, I_)


def DS(kind):
    return _z3.Function('dist_after_k_' + kind, I_, I_, I_)


def block_step(kind):
    def f(s, k):
        s, k = getattr(s, 'z', s), getattr(k, 'z', k)
        e, d = ES(kind), DS(kind)
        return _z3.And(e(s, 0) == s, d(s, 0) == 0,
                       _z3.Implies(k >= 0, _z3.And(e(s, k + 1) == DRAW_ENGINE(kind)(d(s, k), e(s, k)),
                                                   d(s, k + 1) == DRAW_DIST(kind)(d(s, k), e(s, k)))))
    return f


NORMAL = _z3.Function('draw_normal', I_, I_, _z3.RealSort(), _z3.RealSort(), _z3.RealSort())
UNI = _z3.Function('draw_uniform_real', I_, I_, _z3.RealSort(), _z3.RealSort(), _z3.RealSort())
UNII = _z3.Function('draw_uniform_int', I_, I_, I_, I_, I_)
for kind in ('normal', 'uniform_real', 'uniform_int'):
    ENV['ES_' + kind] = ES(kind)
    ENV['DS_' + kind] = DS(kind)
    ENV['STEP_' + kind] = block_step(kind)
    ENV['E1_' + kind] = DRAW_ENGINE(kind)
ENV.update({'NORMAL': NORMAL, 'UNI': UNI, 'UNII': UNII})


def block(name, sig, key, kind, draw, requires, rng_params=''):
    """n draws of one freshly constructed distribution: values and final engine state are functions of the entry state"""
    val = '%s(DS_%s(old.g_engine, k), ES_%s(old.g_engine, k)%s)' % (draw, kind, kind, rng_params)
    fn(name, RN, sig=sig, key=key, serves=['C19', 'C09', 'C05'], extra_env=ENV, assigns=['g_engine'], globals=['g_engine'],
       requires=requires, throws='False',
       ensures=[('length', 'result.len == n'),
                ('stream', 'forall(lambda k: Implies(And(0 <= k, k < n), result[k] == %s))' % val),
                ('state', 'g_engine == ES_%s(old.g_engine, n)' % kind)],
       loops={1: {'facts': ['STEP_%s(old.g_engine, i)' % kind],
                  'inv': [('len', 'r.len == n'), ('state', 'And(g_engine == ES_%s(old.g_engine, i), dist.st == DS_%s(old.g_engine, i))' % (kind, kind)),
                          ('done', 'forall(lambda k: Implies(And(0 <= k, k < i), r[k] == %s))' % val)]}})


fn('dsplib::rng', RN, serves=['C19', 'C09'], extra_env=ENV, assigns=['g_engine'], globals=['g_engine'],
   ensures=[('reseeds_whole_state', 'g_engine == RNG_SEED(If(seed >= 0, seed, seed + 18446744073709551616))')])

# every generator draws only from the per-thread engine: its output is a function of the engine state at entry, and the
# state afterwards is a function of that state and the number of draws  =>  rng(seed) replays the stream
block('dsplib::randn', 'dsplib::arr_real (int)', 'randn(n)', 'normal', 'NORMAL', [('size', 'n >= 0')], ', 0, 1')
block('dsplib::rand', 'dsplib::arr_real (int)', 'rand(n)', 'uniform_real', 'UNI', [('size', 'n >= 0')], ', 0, 1')
block('dsplib::randi', 'dsplib::arr_int (std::array<int, 2>, int)', 'randi(range,n)', 'uniform_int', 'UNII',
      [('pair', 'range.len == 2'), ('ordered', 'range[0] <= range[1]'), ('size', 'n >= 0')], ', range[0], range[1]')

fn('dsplib::randi', RN, sig='int (std::array<int, 2>)', key='randi(range)', serves=['C19', 'C09', 'C05'], extra_env=ENV, assigns=['g_engine'], globals=['g_engine'],
   requires=[('pair', 'range.len == 2'), ('ordered', 'range[0] <= range[1]')],
   ensures=[('inclusive_bounds', 'And(range[0] <= result, result <= range[1])'),
            ('value', 'result == UNII(0, old.g_engine, range[0], range[1])'),
            ('state', 'g_engine == E1_uniform_int(0, old.g_engine)')])
fn('dsplib::randi', RN, sig='int (int)', key='randi(imax)', serves=['C19', 'C05'], extra_env=ENV, assigns=['g_engine'], globals=['g_engine'],
   requires=[('ordered', 'imax >= 1')],
   ensures=[('inclusive_bounds', 'And(1 <= result, result <= imax)')])

# additive white Gaussian noise: x + sigma*N with N standard normal; total noise power = rms(x)^2 / 10^(snr/10).
# G = 10^(-snr/20) is the amplitude ratio, so the total noise power must be (rms*G)^2:
#   real    : sigma^2           == (rms*G)^2
#   complex : 2 * sigma_c^2     == (rms*G)^2      (sum over both components)
for T, key, total in (('dsplib::arr_real', 'real', 'stddev * stddev'), ('dsplib::arr_cmplx', 'cmplx', '2 * stddev * stddev')):
    fn('dsplib::awgn', AW, sig='(const %s &, dsplib::real_t)' % T, key='awgn<%s>' % key, serves=['C19', 'C05'], extra_env=ENV,
       assigns=['g_engine'], globals=['g_engine'], requires=[('nonempty', 'arr.len >= 1')], throws='False',
       ghost={'RMSV': 'RealVal(0)'}, ghost_on=[('ret:rms', None, {'RMSV': 'arg'})],
       ensures=[('length', 'result.len == arr.len'),
                ('noise_power', 'when(BoolVal(True), lambda: %s == (RMSV * POW(10, (-1 * snr) / 20)) * (RMSV * POW(10, (-1 * snr) / 20)))' % total)])
fn('dsplib::complex', 'lib/math.cpp', sig='(const dsplib::arr_real &, const dsplib::arr_real &)', key='complex(re,im)', serves=['C17', 'C05'],
   pure=True, throws='re.len != im.len',
   ensures=[('length', 'result.len == re.len'),
            ('parts', 'forall(lambda k: Implies(And(0 <= k, k < re.len), And(result[k].re == re[k], result[k].im == im[k])))')],
   loops={1: {'inv': [('len', 'r.len == re.len'),
                      ('done', 'forall(lambda k: Implies(And(0 <= k, k < i), And(r[k].re == re[k], r[k].im == im[k])))')]}})
