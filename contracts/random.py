"""C19 / C09: random streams (lib/random.cpp) and additive noise (lib/awgn.cpp)."""
from engine.spec import fn, inline_fn
from contracts.mathfun import LIBM
import z3 as _z3
from engine.prelude import RNG_NEXT, RNG_SEED

RN = 'lib/random.cpp'
AW = 'lib/awgn.cpp'
ENV = dict(LIBM)
ENV.update({'RNG_NEXT': RNG_NEXT, 'RNG_SEED': RNG_SEED})

# state after k draws
RNGK = _z3.Function('rng_after', _z3.IntSort(), _z3.IntSort(), _z3.IntSort())
NORMAL = _z3.Function('draw_normal', _z3.IntSort(), _z3.RealSort(), _z3.RealSort(), _z3.RealSort())
ENV['RNGK'] = RNGK
ENV['NORMAL'] = NORMAL
ENV['RNGK_STEP'] = lambda s, k: _z3.And(RNGK(s, 0) == s, _z3.Implies(k >= 0, RNGK(s, k + 1) == RNG_NEXT(RNGK(s, k))))

fn('dsplib::rng', RN, serves=['C19', 'C09'], extra_env=ENV, assigns=['g_engine'], globals=['g_engine'],
   ensures=[('reseeds_whole_state', 'g_engine == RNG_SEED(If(seed >= 0, seed, seed + 18446744073709551616))')])

# every generator draws only from the per-thread engine: its output is a function of the engine state at entry, and the
# state afterwards is a function of that state and the number of draws  =>  rng(seed) replays the stream
fn('dsplib::randn', RN, sig='dsplib::arr_real (int)', key='randn(n)', serves=['C19', 'C09', 'C05'], extra_env=ENV, assigns=['g_engine'], globals=['g_engine'],
   requires=[('size', 'n >= 0')], throws='False',
   ensures=[('length', 'result.len == n'),
            ('stream', 'forall(lambda k: Implies(And(0 <= k, k < n), result[k] == NORMAL(RNGK(old.g_engine, k), 0, 1)))'),
            ('state', 'g_engine == RNGK(old.g_engine, n)')],
   loops={1: {'facts': ['RNGK_STEP(old.g_engine, i)'],
              'inv': [('len', 'r.len == n'), ('state', 'g_engine == RNGK(old.g_engine, i)'),
                      ('done', 'forall(lambda k: Implies(And(0 <= k, k < i), r[k] == NORMAL(RNGK(old.g_engine, k), 0, 1)))')]}})

fn('dsplib::randi', RN, sig='int (std::array<int, 2>)', key='randi(range)', serves=['C19', 'C09', 'C05'], extra_env=ENV, assigns=['g_engine'], globals=['g_engine'],
   requires=[('pair', 'range.len == 2'), ('ordered', 'range[0] <= range[1]')],
   ensures=[('inclusive_bounds', 'And(range[0] <= result, result <= range[1])'), ('state', 'g_engine == RNG_NEXT(old.g_engine)')])
fn('dsplib::randi', RN, sig='int (int)', key='randi(imax)', serves=['C19', 'C05'], extra_env=ENV, assigns=['g_engine'], globals=['g_engine'],
   requires=[('ordered', 'imax >= 1')],
   ensures=[('inclusive_bounds', 'And(1 <= result, result <= imax)')])

# additive white Gaussian noise: x + sigma*N with N standard normal; total noise power = rms(x)^2 / 10^(snr/10).
# G = 10^(-snr/20) is the amplitude ratio, so the total noise power must be (rms*G)^2:
#   real    : sigma^2           == (rms*G)^2
#   complex : 2 * sigma_c^2     == (rms*G)^2      (sum over both components)
for T, key, total in (('dsplib::arr_real', 'real', 'stddev * stddev'), ('dsplib::arr_cmplx', 'cmplx', '2 * stddev * stddev')):
    fn('dsplib::awgn', AW, sig='(const %s &, dsplib::real_t)' % T, key='awgn<%s>' % key, serves=['C19', 'C05'], extra_env=ENV,
       assigns=['g_engine'], globals=['g_engine'], requires=[('nonempty', 'arr.len >= 1')], throws='False',
       ghost={'RMSV': 'RealVal(0)'}, ghost_on=[('ret:rms', None, {'RMSV': 'arg'})],
       ensures=[('length', 'result.len == arr.len'),
                ('noise_power', 'when(BoolVal(True), lambda: %s == (RMSV * POW(10, (-1 * snr) / 20)) * (RMSV * POW(10, (-1 * snr) / 20)))' % total)])
fn('dsplib::rms', 'lib/math.cpp', sig='dsplib::real_t (const dsplib::arr_cmplx &)', key='rms(cmplx)', serves=['C17'], trusted=True, pure=True,
   requires=['arr.len >= 1'], notes='assumed: sqrt(mean |x|^2)', ensures=[('nonneg', 'result >= 0')])
fn('dsplib::complex', 'lib/math.cpp', sig='(const dsplib::arr_real &, const dsplib::arr_real &)', key='complex(re,im)', serves=['C17', 'C05'],
   pure=True, throws='re.len != im.len',
   ensures=[('length', 'result.len == re.len'),
            ('parts', 'forall(lambda k: Implies(And(0 <= k, k < re.len), And(result[k].re == re[k], result[k].im == im[k])))')],
   loops={1: {'inv': [('len', 'r.len == re.len'),
                      ('done', 'forall(lambda k: Implies(And(0 <= k, k < i), And(r[k].re == re[k], r[k].im == im[k])))')]}})
