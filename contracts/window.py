"""C11 (window part): every window equals its textbook closed form at every index, for every length and both variants.

The library builds half a window and mirrors it; the contracts state the closed form at *every* index i < n, so the
mirror indices, the odd/even split and the periodic variant (first n points of the symmetric window of length n+1) are
all decided by one clause per window. cos/sin are uninterpreted with the reflection / periodicity / multiple-angle
identities instantiated where needed (A2)."""
from engine.spec import fn, inline_fn
from contracts.mathfun import LIBM
import z3 as _z3

W = 'lib/window.cpp'
NS = 'dsplib::window::'
AN = 'dsplib::window::(anon)::'
ENV = dict(LIBM)


def cos_facts(t):
    """cos is even, 2*pi-periodic, bounded, with the double/triple angle formulas; sin(pi - t) = sin t (A2), at one angle"""
    from engine.prelude import COS, SIN
    from engine.core import PI
    t = getattr(t, 'z', t)
    c = COS(t)
    return _z3.And(COS(2 * PI - t) == c, COS(4 * PI - 2 * t) == COS(2 * t), COS(6 * PI - 3 * t) == COS(3 * t),
                   COS(2 * t) == 2 * c * c - 1, COS(3 * t) == 4 * c * c * c - 3 * c, c >= -1, c <= 1,
                   SIN(PI - t) == SIN(t), SIN(t) <= 1, _z3.Implies(_z3.And(0 <= t, t <= PI), SIN(t) >= 0))


def lit(x):
    """the real number a floating literal of the source denotes (exact value of the double nearest to the decimal)"""
    from fractions import Fraction
    f = Fraction(float(x))
    return 'Q(%d, %d)' % (f.numerator, f.denominator)


ENV['COS_FACTS'] = cos_facts

# half-window generators: element i depends on (n, i) only; m is the number of elements produced
GEN = {
    '_cosinewin': 'SIN(PI / ToReal(n) * (ToReal({i}) + ' + lit(0.5) + '))',
    '_hannwin': lit(0.5) + ' - ' + lit(0.5) + ' * COS(2 * PI * ToReal({i}) / ToReal(n - 1))',
    '_hammingwin': lit(0.54) + ' - ' + lit(0.46) + ' * COS(2 * PI * ToReal({i}) / ToReal(n - 1))',
    '_blackmanwin': lit(0.42) + ' - ' + lit(0.5) + ' * COS(2 * PI * ToReal({i}) / ToReal(n - 1)) + ' + lit(0.08) + ' * COS(4 * PI * ToReal({i}) / ToReal(n - 1))',
    '_blackmanharriswin': lit(0.35875) + ' - ' + lit(0.48829) + ' * COS(2 * PI * ToReal({i}) / ToReal(n - 1)) + ' + lit(0.14128) + ' * COS(4 * PI * ToReal({i}) / ToReal(n - 1)) '
                          '- ' + lit(0.01168) + ' * COS(6 * PI * ToReal({i}) / ToReal(n - 1))',
}
for g, e in GEN.items():
    fn(AN + g, W, serves=['C11', 'C05'], pure=True, extra_env=ENV,
       requires=[('size', 'And(m >= 0, n >= 2)')], throws='False',
       ensures=[('length', 'result.len == m'),
                ('closed_form', 'forall(lambda k: Implies(And(0 <= k, k < m), result[k] == %s))' % e.format(i='k'))],
       loops={1: {'inv': [('len', 'w.len == m'), ('done', 'forall(lambda k: Implies(And(0 <= k, k < i), w[k] == %s))' % e.format(i='k'))]}})

def angle_mirror(c, x, y):
    """c*(x - y)/x == c - c*y/x for x != 0 (field identity; engine/selftest.py)"""
    c, x, y = [getattr(t, 'z', t) for t in (c, x, y)]
    return _z3.Implies(x != 0, c * (x - y) / x == c - c * y / x)


def scale_pi(y, nn):
    """for nn > 0: 0 <= pi/nn*y <= pi  iff  0 <= y <= nn (scaling by the positive factor pi/nn; engine/selftest.py)"""
    from engine.core import PI
    y, nn = getattr(y, 'z', y), getattr(nn, 'z', nn)
    return _z3.Implies(nn > 0, _z3.And(PI / nn * y >= 0, PI / nn * y <= PI) == _z3.And(y >= 0, y <= nn))


ENV['ANGLE_MIRROR'] = angle_mirror
ENV['SCALE_PI'] = scale_pi

# mirror construction, proved once for an arbitrary generator G(N, i) (winfn(N, m) returns G(N, 0..m-1)):
# result[k] = G(N, k) on the first half, G(N, N-1-k) on the second, N = n (symmetric) or n+1 (periodic: first n points)
fn(AN + '_sym_window', W, serves=['C11', 'C05'], pure=True, extra_env=ENV,
   ghost_fns={'G': ('Int', 'Int', 'Real')},
   fn_params={'winfn': {'args': ['a', 'b'], 'requires': 'And(a == N, b >= 0, 2 * b >= a, 2 * b <= a + 1)',
                        'ensures': [('length', 'result.len == b'),
                                    ('elements', 'forall(lambda i: Implies(And(0 <= i, i < b), result[i] == G(a, i)))')]}},
   lets={'N': 'If(sym, n, n + 1)'},
   requires=[('size', 'And(n >= 3, n <= 1073741824)')], throws='False', body_assumes=['INSLICE_AX()'], timeout_ms=60000,
   ensures=[('length', 'result.len == n'),
            ('mirror', 'forall(lambda k: Implies(And(0 <= k, k < n), result[k] == G(N, If(2 * k < N, k, N - 1 - k))))')])

PUB = {'cosine': '_cosinewin', 'hann': '_hannwin', 'hamming': '_hammingwin', 'blackman': '_blackmanwin', 'blackmanharris': '_blackmanharriswin'}
T0 = '2 * PI * ToReal(k0) / ToReal(N - 1)'
for p, g in PUB.items():
    # N = n for the symmetric variant, n + 1 for the periodic one: the window is the first n points of the length-N form.
    # k0 is an arbitrary (ghost) index: a clause proved for it holds for every index
    form = GEN[g].replace('ToReal(n - 1)', 'ToReal(N - 1)').replace('ToReal(n)', 'ToReal(N)')
    gen = 'lambda a, i: ' + GEN[g].replace('ToReal(n - 1)', 'ToReal(a - 1)').replace('ToReal(n)', 'ToReal(a)').format(i='i')
    if p == 'cosine':
        facts = ['COS_FACTS(PI / ToReal(N) * (ToReal(k0) + %s))' % lit(0.5),
                 'SCALE_PI(ToReal(k0) + %s, ToReal(N))' % lit(0.5),
                 'PI / ToReal(N) * (ToReal(N - 1 - k0) + {h}) == PI - PI / ToReal(N) * (ToReal(k0) + {h})'.format(h=lit(0.5))]
    else:
        facts = ['COS_FACTS(%s)' % T0,
                 'And(ANGLE_MIRROR(2 * PI, ToReal(N - 1), ToReal(k0)), ANGLE_MIRROR(4 * PI, ToReal(N - 1), ToReal(k0)), ANGLE_MIRROR(6 * PI, ToReal(N - 1), ToReal(k0)))',
                 'And(ToReal(N - 1 - k0) == ToReal(N - 1) - ToReal(k0), 4 * PI * ToReal(k0) / ToReal(N - 1) == 2 * (%s), 6 * PI * ToReal(k0) / ToReal(N - 1) == 3 * (%s))' % (T0, T0)]
    fn(NS + p, W, serves=['C11', 'C05'], pure=True, extra_env=ENV,
       lets={'N': 'If(sym, n, n + 1)', 'k0': 'ghost_int("index")'},
       ghost_fn_args={'_sym_window': {'G': gen}},
       requires=[('size', 'And(n >= 3, n <= 1073741824)'), ('ghost', 'And(0 <= k0, k0 < n)')], throws='False',
       post_facts=facts,
       ensures=[('length', 'result.len == n'),
                ('closed_form', 'result[k0] == %s' % form.format(i='k0')),
                ('symmetric', 'Implies(sym, result[k0] == result[n - 1 - k0])'),
                # the constants are the doubles nearest to the textbook decimals (0.54 + 0.46 exceeds 1 by 5.6e-17 as reals):
                # the range is stated with that much slack; in floating point the extreme values round to 0 and 1
                ('unit_range', 'And(result[k0] >= -Q(1, 10**15), result[k0] <= 1 + Q(1, 10**15))')]
       # the Hamming window never touches zero (0.54 - 0.46 = 0.08 at the ends): what makes it usable as a default spectral window
       + ([('pedestal', 'result[k0] >= Q(7, 100)')] if p == 'hamming' else []))

# ---------------------------------------------------------------------------------------------------
HALF = '(ToReal(n - 1) / 2)'
GAUSS = 'EXP(-%s * ((alpha * (ToReal({i}) - {h}) / {h}) * (alpha * (ToReal({i}) - {h}) / {h})))' % lit(0.5)


def exp_facts(y):
    """exp(y) <= 1 for y <= 0 and exp(y) > 0 (A2)"""
    from engine.prelude import EXP
    y = getattr(y, 'z', y)
    return _z3.And(EXP(y) > 0, _z3.Implies(y <= 0, EXP(y) <= 1))


ENV['EXP_FACTS'] = exp_facts
fn(AN + '_gausswin', W, serves=['C11', 'C05'], pure=True, extra_env=ENV,
   requires=[('size', 'And(m >= 0, m <= 1000000, n >= 2)')], throws='False',
   ensures=[('length', 'result.len == m'),
            ('closed_form', 'forall(lambda k: Implies(And(0 <= k, k < m), result[k] == %s))' % GAUSS.format(i='k', h=HALF))])

GN = GAUSS.format(i='k0', h='(ToReal(N - 1) / 2)')
fn(NS + 'gauss', W, serves=['C11', 'C05'], pure=True, extra_env=ENV,
   lets={'N': 'If(sym, n, n + 1)', 'k0': 'ghost_int("index")'},
   ghost_fn_args={'_sym_window': {'G': 'lambda a, i: ' + GAUSS.format(i='i', h='(ToReal(a - 1) / 2)')}},
   requires=[('size', 'And(n >= 3, n <= 1000000)'), ('ghost', 'And(0 <= k0, k0 < n)')], throws='False',
   post_facts=['EXP_FACTS(-%s * ((alpha * (ToReal(k0) - {h}) / {h}) * (alpha * (ToReal(k0) - {h}) / {h})))'.format(h='(ToReal(N - 1) / 2)') % lit(0.5),
               'ToReal(N - 1 - k0) - (ToReal(N - 1) / 2) == -(ToReal(k0) - (ToReal(N - 1) / 2))'],
   ensures=[('length', 'result.len == n'),
            ('closed_form', 'result[k0] == %s' % GN),
            ('symmetric', 'Implies(sym, result[k0] == result[n - 1 - k0])'),
            ('unit_range', 'And(result[k0] > 0, result[k0] <= 1)')])

# ---------------------------------------------------------------------------------------------------
# Tukey (tapered cosine): taper where x = i/(n-1) <= r/2 (at x = r/2 taper and flat part agree), 1 in between, mirrored;
# r <= 0 is the rectangular window, r >= 1 the Hann window
PER = '(ratio / 2)'
TAPER = '(1 + COS(PI / {per} * (ToReal({i}) / ToReal({n} - 1) - {per}))) / 2'
TUK = ('If({r} <= 0, 1, If({r} >= 1, ' + GEN['_hannwin'].replace('ToReal(n - 1)', 'ToReal({n} - 1)') +
       ', If(ToReal({i}) <= ({r} / 2) * ToReal({n} - 1), ' + TAPER.replace('{per}', '({r} / 2)') + ', 1)))')
fn(AN + '_tukeywin', W, serves=['C11', 'C05'], pure=True, extra_env=ENV,
   requires=[('size', 'And(m >= 0, n >= 2, 2 * m >= n, 2 * m <= n + 1)')], throws='False',
   ensures=[('length', 'result.len == m'),
            ('closed_form', 'forall(lambda k: Implies(And(0 <= k, k < m), result[k] == %s))' % TUK.format(r='ratio', n='n', i='k'))],
   loops={1: {'inv': [('range', 'And(0 <= i, ToReal(i) <= tl, w.len == m, IsInt(tl), tl - 1 <= per * ToReal(n - 1), per * ToReal(n - 1) < tl, per == ratio / 2, ratio > 0, ratio < 1)'),
                      ('done', 'forall(lambda k: Implies(And(0 <= k, k < i), w[k] == %s))' % TAPER.format(per='per', i='k', n='n')),
                      ('rest', 'forall(lambda k: Implies(And(i <= k, k < m), w[k] == 1))')],
              'dec': 'tl - ToReal(i)'}})

D0 = 'If(k0 <= n - 1 - k0, k0, n - 1 - k0)'       # distance from the nearer edge
fn(NS + 'tukey', W, serves=['C11', 'C05'], pure=True, extra_env=ENV,
   lets={'k0': 'ghost_int("index")'},
   ghost_fn_args={'_sym_window': {'G': 'lambda a, i: ' + TUK.format(r='r', n='a', i='i')}},
   requires=[('size', 'And(n >= 3, n <= 1073741824)'), ('ghost', 'And(0 <= k0, k0 < n)')], throws='False',
   post_facts=['COS_FACTS(PI / (r / 2) * (ToReal(%s) / ToReal(n - 1) - (r / 2)))' % D0, 'COS_FACTS(2 * PI * ToReal(%s) / ToReal(n - 1))' % D0],
   ensures=[('length', 'result.len == n'),
            ('closed_form', 'result[k0] == %s' % TUK.format(r='r', n='n', i='(%s)' % D0)),
            ('symmetric', 'result[k0] == result[n - 1 - k0]'),
            ('unit_range', 'And(result[k0] >= -Q(1, 10**15), result[k0] <= 1 + Q(1, 10**15))')])
