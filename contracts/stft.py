"""C02 / C05: short-time transform framing (lib/stft.cpp). The FFT core is an assumed operator (contracts/fftabs.py)."""
from engine.spec import fn, inline_fn
from contracts.ifft import ENV as IENV

ST = 'lib/stft.cpp'
ENV = dict(IENV)
from contracts.adaptive import EPSC   # noqa: E402
ENV['EPSV'] = lambda n: EPSC
CENTERED, TWOSIDED, ONESIDED = 0, 1, 2

# spectrum range conversions as index maps (nfft even): onesided keeps bins 0..nfft/2, centered rotates so that
# the negative frequencies come first; the inverse maps restore the two-sided order (conjugate symmetry for onesided)
fn('dsplib::(anon)::_convert_range_stft', ST, serves=['C02', 'C05'], pure=True, extra_env=ENV,
   requires=[('nfft', 'And(nfft >= 4, tmod(nfft, 2) == 0)'), ('range', 'And(0 <= range, range <= 2)')],
   lets={'h': 'tdiv(nfft, 2)'},
   throws='x.len != nfft',
   ensures=[('onesided', 'Implies(range == 2, And(result.len == h + 1, forall(lambda k: Implies(And(0 <= k, k <= h), result[k] == x[k]))))'),
            ('twosided', 'Implies(range == 1, result == x)'),
            ('centered', 'Implies(range == 0, And(result.len == nfft, forall(lambda j: Implies(And(0 <= j, j < nfft), result[j] == x[If(j < h - 1, j + h + 1, j - (h - 1))]))))')])

fn('dsplib::(anon)::_convert_range_istft', ST, serves=['C02', 'C05'], pure=True, extra_env=ENV,
   requires=[('nfft', 'And(nfft >= 2, tmod(nfft, 2) == 0)'), ('range', 'And(0 <= range, range <= 2)')],
   lets={'h': 'tdiv(nfft, 2)'},
   throws='If(range == 2, x.len != h + 1, x.len != nfft)',
   ensures=[('length', 'result.len == nfft'),
            ('onesided', 'Implies(range == 2, And(forall(lambda k: Implies(And(0 <= k, k <= h), result[k] == x[k])), '
                         'forall(lambda k: Implies(And(1 <= k, k < h), result[nfft - k] == x[k].conj()))))'),
            ('twosided', 'Implies(range == 1, result == x)'),
            # inverse of the centred rotation: two-sided bin b comes from centred position (b + h - 1) mod nfft
            ('centered', 'Implies(range == 0, forall(lambda b: Implies(And(0 <= b, b < nfft), result[b] == x[If(b <= h, b + h - 1, b - h - 1)])))')])

fn('dsplib::istft', ST, sig='const dsplib::arr_real &, int, int', key='istft(xx,win,overlap,nfft,range,method)',
   serves=['C02', 'C05'], pure=True, extra_env=ENV, may_throw=True,
   requires=[('window', 'And(win.len >= 1, 0 <= overlap, overlap < win.len)'), ('nfft', 'And(nfft >= 2, nfft <= 1048576)'),
             ('frames', 'And(xx.len >= 1, xx.len <= 1048576, win.len <= 1048576, xx.len * win.len <= 1073741824)'), ('ghost', 'And(0 <= k0, k0 < win.len + (xx.len - 1) * (win.len - overlap))'), ('range', 'And(0 <= range, range <= 2, 0 <= method, method <= 1)')],
   lets={'hop': 'win.len - overlap', 'XL': 'win.len + (xx.len - 1) * (win.len - overlap)', 'k0': 'ghost_int("sample")'},
   ensures=[('length', 'result.len == XL'),
            # every output sample is divided by a weight that is either above the threshold or replaced by 1:
            # no 0/0 or x/0 where the accumulated window weight vanishes
            # (k0: arbitrary ghost sample index)
            ('local:guarded_normalisation', 'exists_w(lambda A, t: Or(A[k0] >= t, A[k0] == 1), data(norm_val), ToReal(nseg) * EPSV(nseg))')],
   loops={1: {'inv': [('shape', 'And(x.len == xlen, norm_val.len == xlen, xlen == XL, nseg == xx.len, nwin == win.len, hop == nwin - overlap, win_nom.len == nwin, win_den.len == nwin)')]},
          2: {'inv': [('shape', 'And(x.len == xlen, norm_val.len == xlen)'),
                      ('guarded', 'Implies(k0 < i, Or(norm_val[k0] >= ToReal(nseg) * EPSV(nseg), norm_val[k0] == 1))')]}})

fn('dsplib::stft', ST, sig='const dsplib::arr_real &, int, int', key='stft(x,win,overlap,nfft,range)', serves=['C02', 'C05'],
   pure=True, extra_env=ENV, may_throw=True,
   requires=[('window', 'And(win.len >= 1, 0 <= overlap, overlap < win.len, win.len <= 1048576)'),
             ('nfft', 'And(nfft >= 4, tmod(nfft, 2) == 0, nfft <= 1048576)'), ('signal', 'x.len <= 1073741824'),
             ('range', 'And(0 <= range, range <= 2)')],
   lets={'NS': 'tdiv(x.len - overlap, win.len - overlap)'},
   ensures=[('frames', 'result.len == If(NS > 0, NS, 0)'),
            ('frame_length', 'forall(lambda t: Implies(And(0 <= t, t < result.len), result[t].len == If(range == 2, tdiv(nfft, 2) + 1, nfft)))')],
   loops={1: {'inv': [('count', 'y.len == i'), ('px', 'px.len == nfft'),
                      ('frame_length', 'forall(lambda t: Implies(And(0 <= t, t < y.len), y[t].len == If(range == 2, tdiv(nfft, 2) + 1, nfft)))')]}})
