"""C09 / C10 / C19: objects outside every argument -- static storage duration and mutable members -- per translation unit.

The per-function frames (assigns clauses) cover what is reachable from the arguments and the receiver; engine/statics.py
enumerates, from the same AST and from the compiled object file, everything else a function of the library could write.
Reviewed per-thread state (each has an abstract contract elsewhere):
  g_engine                      lib/random.cpp    the calling thread's generator (contracts/random.py: RNG_SEED / RNG_NEXT)
  create_fft_plan()::cache      lib/fft/fft.cpp   per-thread LRU of complex plans (contracts/fftplans.py)
  create_rfft_plan()::cache     lib/fft/fft.cpp   per-thread LRU of real plans"""
import glob
import os
from engine.spec import fn
from engine import astdb

import re
SYNC = re.compile(r'\b(mutex|atomic|once_flag|shared_mutex|recursive_mutex|atomic_flag)\b')
REVIEWED_TLS = {'(anon)::g_engine', 'create_fft_plan()::cache', 'create_rfft_plan()::cache'}


def frame_scan(c):
    from engine import statics
    rows, nvars = statics.scan(c.tu)
    out = []
    for label, ok, detail, info in rows:
        kind = 'frame'
        if label.startswith('per-thread:'):
            nm = label.split(':', 1)[1]
            out.append((label, kind, ('C09',), True, detail, None))
            out.append(('reviewed-call-history-state:' + nm, kind, ('C10', 'C19'), nm in REVIEWED_TLS,
                        detail + ('' if nm in REVIEWED_TLS else ': state that survives from one call to the next in the same '
                                  'thread and has no contract (results may depend on call history)'),
                        None if nm in REVIEWED_TLS else {'object': nm, 'where': info.get('where')}))
        elif label.startswith('immutable:'):
            out.append((label, kind, ('C09', 'C10', 'C19'), True, detail, None))
        else:
            model = None if ok else {k: str(v) for k, v in info.items() if k in ('name', 'where', 'type', 'symbol', 'section')}
            # call-history independence (C10) and per-thread generator state (C19): any writable process-wide object is
            # state that one call / thread leaves behind for another
            out.append((label, kind, ('C10', 'C19'), ok, detail, model))
            # thread safety (C09): an unsynchronised writable static is a data race as soon as two threads run the code;
            # one that is a synchronisation primitive or sits next to one (a mutex-guarded cache) is only a violation if
            # what it shares is observable, which no frame can decide -> undecided, except in the random generator, whose
            # state the property requires to be per thread
            guarded = bool(SYNC.search(info.get('type', ''))) or any(
                SYNC.search(i2.get('type', '')) and i2.get('name', '').rsplit('::', 1)[0] == info.get('name', '').rsplit('::', 1)[0]
                for _, _, _, i2 in rows if i2 is not info)
            l9 = 'no-shared-writable-state:' + label.split(':', 1)[1]
            if ok or not guarded or c.tu == 'lib/random.cpp':
                out.append((l9, kind, ('C09',), ok, detail, model))
            else:
                out.append((l9, kind, ('C09',), None, detail + ' -- synchronised; whether the sharing is observable is not decided', model))
    # const operations reaching another object through a pointer member (constness is shallow there): the callee must be
    # const as well, or at least must not write a data member of its object
    reach = statics.scan_const_reach(c.tu)
    for r in reach:
        if r['callee_const']:
            continue
        lab = 'const-method-reaches-only-readers:%s->%s' % (r['caller'].replace('dsplib::', ''), r['callee'].replace('dsplib::', ''))
        what = 'const %s calls the non-const %s through its pointer member %s (%s)' % (r['caller'], r['callee'], r['via'], r['where'])
        sync = bool(SYNC.search(open(os.path.join(astdb.REPO, c.tu)).read()))
        if r['writes'] and not sync:
            out.append((lab, 'frame', ('C09',), False, what + '; it writes its data member(s) %s: two threads using the same object '
                        'through its const interface write the same memory' % ', '.join(sorted({'%s (line %s)' % w for w in r['writes']})),
                        {'caller': r['caller'], 'callee': r['callee'], 'written': ', '.join(sorted({w[0] for w in r['writes']})), 'where': r['where']}))
        else:
            out.append((lab, 'frame', ('C09',), None, what + '; whether it writes state shared between threads is not decided', None))
    out.append(('const-reach-scan-ran', 'frame', ('C09',), True,
                '%d calls through pointer members inside const methods examined' % len(reach), None))
    # non-vacuity: the scan saw the translation unit (every TU includes types.h, which declares constants)
    out.append(('scan-saw-declarations', 'frame', ('C09', 'C10', 'C19'), nvars > 0, '%d objects with static storage duration examined' % nvars, None))
    return out


for p in sorted(glob.glob(os.path.join(astdb.REPO, 'lib', '*.cpp')) + glob.glob(os.path.join(astdb.REPO, 'lib', '*', '*.cpp'))):
    rel = os.path.relpath(p, astdb.REPO)
    fn('static-state-of-' + rel, rel, key='statics(%s)' % rel, serves=['C09', 'C10', 'C19'], custom=frame_scan)
