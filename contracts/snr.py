"""C19 (tone bookkeeping of snr/sinad/thd, lib/snr.cpp): the peak / skirt walks are pure comparisons between neighbouring
bins -- nothing in them depends on the absolute level, which is what makes the ratios homogeneous in the signal scale.

_locate_peak climbs to a local maximum; _left_descent / _right_descent walk down the skirt as long as the spectrum keeps
falling, and stop exactly where it stops falling (or at the array edge)."""
from engine.spec import fn

S_ = 'lib/snr.cpp'
A = 'dsplib::(anon)::'

fn(A + '_left_descent', S_, serves=['C19', 'C05'], pure=True, only_tu=True,
   requires=[('nonempty', 'And(spec.len >= 1, idx < spec.len)')], throws='False',
   lets={'i0': 'If(idx > 0, idx, 0)'},
   ensures=[('range', 'And(0 <= result, result <= i0)'),
            ('falling_run', 'forall(lambda j: Implies(And(result < j, j <= i0), spec[j - 1] < spec[j]))'),
            ('stops_where_it_stops_falling', 'Or(result == 0, spec[result - 1] >= spec[result])')],
   loops={1: {'inv': [('range', 'And(0 <= lpos, lpos <= i0)'),
                      ('run', 'forall(lambda j: Implies(And(lpos < j, j <= i0), spec[j - 1] < spec[j]))')],
              'dec': 'lpos'}})

fn(A + '_right_descent', S_, serves=['C19', 'C05'], pure=True, only_tu=True,
   requires=[('nonempty', 'And(spec.len >= 1, idx >= 0)')], throws='False',
   lets={'i0': 'If(idx < spec.len - 1, idx, spec.len - 1)'},
   ensures=[('range', 'And(i0 <= result, result <= spec.len - 1)'),
            ('falling_run', 'forall(lambda j: Implies(And(i0 <= j, j < result), spec[j] > spec[j + 1]))'),
            ('stops_where_it_stops_falling', 'Or(result == spec.len - 1, spec[result] <= spec[result + 1])')],
   loops={1: {'inv': [('range', 'And(i0 <= rpos, rpos <= n - 1, n == spec.len)'),
                      ('run', 'forall(lambda j: Implies(And(i0 <= j, j < rpos), spec[j] > spec[j + 1]))')],
              'dec': 'n - rpos'}})

fn(A + '_locate_peak', S_, serves=['C19', 'C05'], pure=True,
   requires=[('index', 'And(spec.len >= 1, 0 <= idx, idx < spec.len)')], throws='False',
   ensures=[('range', 'And(0 <= result, result < spec.len)'),
            ('local_maximum', 'And(Or(result == 0, spec[result - 1] <= spec[result]), Or(result == spec.len - 1, spec[result] >= spec[result + 1]))'),
            ('stays_on_a_local_maximum', 'Implies(And(Or(idx == 0, spec[idx - 1] <= spec[idx]), Or(idx == spec.len - 1, spec[idx] >= spec[idx + 1])), result == idx)')],
   loops={1: {'inv': [('range', 'And(0 <= peak, peak <= idx, n == spec.len)'), ('stays', 'Implies(And(Or(idx == 0, spec[idx - 1] <= spec[idx]), Or(idx == spec.len - 1, spec[idx] >= spec[idx + 1])), peak == idx)')], 'dec': 'peak'},
          2: {'inv': [('range', 'And(0 <= peak, peak <= n - 1, n == spec.len)'),
                      ('left_ok', 'Or(peak == 0, spec[peak - 1] <= spec[peak])'), ('stays', 'Implies(And(Or(idx == 0, spec[idx - 1] <= spec[idx]), Or(idx == spec.len - 1, spec[idx] >= spec[idx + 1])), peak == idx)')],
              'dec': 'n - peak'}})

# scalar max / min templates of math.h on integers
for nm, op in (('max', '>'), ('min', '<')):
    fn('dsplib::' + nm, S_, sig='(const int &, const int &)', key=nm + '(int,int)', serves=['C17'], pure=True,
       value='If(v1 %s v2, v1, v2)' % op)
