"""C07 / C06 / C05: direct-form FIR filtering (include/dsplib/fir.h, lib/fir.cpp), delay line, moving average."""
from engine.spec import fn, inline_fn
import z3 as _z3

F = 'lib/fir.cpp'
D = 'drivers/instantiate.cpp'


def rev(h, n):
    """coefficient vector read backwards: j -> h[n-1-j]"""
    j = _z3.Int('j!rv')
    d = h.target.tree.data if hasattr(h, 'off') else h.tree.f['_vec'].data
    return _z3.Lambda([j], _z3.Select(d, n - 1 - j))


def cat(d, x):
    j = _z3.Int('j!ct')
    dv, xv = d.tree.f['_vec'], x.tree.f['_vec']
    from engine.values import tmap
    return tmap(lambda a, b: _z3.Lambda([j], _z3.If(j < dv.len, _z3.Select(a, j), _z3.Select(b, j - dv.len))), dv.data, xv.data)


def ptr_data(p):
    return p.target.tree.data


ENV = {'rev': rev, 'cat': cat, 'ptr_data': ptr_data}

# real kernel: r[i] = sum_k x[i+k] * h[nh-1-k]   (correlation form over the history-prefixed input)
fn('dsplib::_conv', F, sig='(const double *', key='_conv<real>', serves=['C07', 'C05'], extra_env=ENV,
   requires=[('sizes', 'And(nh >= 1, nx >= 0, nx <= x.target.len, nh <= h.target.len, nx - nh + 1 <= r.target.len, x.off == 0, h.off == 0, r.off == 0)')],
   assigns=['r'],
   ensures=[('defining_sum', 'forall(lambda i: Implies(And(0 <= i, i < nx - nh + 1), r[i] == DOT(ptr_data(x), i, 1, rev(h, nh), nh)))'),
            ('rest', 'forall(lambda i: Implies(And(i >= nx - nh + 1, i < r.target.len, i >= 0), r[i] == old.r[i]))')],
   loops={1: {'inv': [('done', 'forall(lambda q: Implies(And(0 <= q, q < i), r[q] == DOT(ptr_data(x), q, 1, rev(h, nh), nh)))'),
                      ('rest', 'forall(lambda q: Implies(And(q >= i, q < r.target.len, q >= 0), r[q] == old.r[q]))')]},
          2: {'facts': ['DOT_BASE(ptr_data(x), i, 1, rev(h, nh))', 'DOT_STEP(ptr_data(x), i, 1, rev(h, nh), k)'],
              'inv': [('acc', 'r[i] == DOT(ptr_data(x), i, 1, rev(h, nh), k)'),
                      ('others', 'forall(lambda q: Implies(And(0 <= q, q < r.target.len, q != i), r[q] == pre.r[q]))')]}})

fn('dsplib::_conv', F, sig='(const dsplib::cmplx_t *', key='_conv<cmplx>', serves=['C05'], extra_env=ENV,
   requires=[('sizes', 'And(nh >= 1, nx >= 0, nx <= x.target.len, nh <= h.target.len, nx - nh + 1 <= r.target.len, x.off == 0, h.off == 0, r.off == 0)')],
   assigns=['r'], loops={1: {'inv': []}, 2: {'inv': []}})

fn('dsplib::FirFilter<double>::conv', F, serves=['C07', 'C05'], extra_env=ENV, pure=True,
   requires=[('sizes', 'And(h.len >= 1, x.len >= h.len - 1)')], throws='False',
   ensures=[('length', 'result.len == x.len - h.len + 1'),
            ('defining_sum', 'forall(lambda i: Implies(And(0 <= i, i < result.len), result[i] == DOT(data(x), i, 1, rev(h, h.len), h.len)))')])
fn('dsplib::FirFilter<dsplib::cmplx_t>::conv', F, serves=['C05'], extra_env=ENV, pure=True,
   requires=[('sizes', 'And(h.len >= 1, x.len >= h.len - 1)')], throws='False',
   ensures=[('length', 'result.len == x.len - h.len + 1')])

fn('dsplib::FirFilter<double>::process', D, serves=['C07', 'C06', 'C05'], extra_env=ENV, assigns=['this._d'],
   requires=[('invariant', 'And(_h.len >= 2, _d.len == _h.len - 1)'), ('size', '_d.len + s.len <= INT_MAX')],
   lets={'X': 'cat(_d, s)', 'nd': '_d.len'}, throws='False',
   ensures=[('invariant', 'And(_h.len >= 2, _d.len == _h.len - 1)'),
            ('length', 'result.len == s.len'),
            ('history', 'forall(lambda t: Implies(And(0 <= t, t < nd), _d[t] == X[s.len + t]))'),
            # the outputs are the defining sums over an array that agrees with history ++ input on the whole window
            # (with lemma DOT_EXT this is the sum over X itself)
            ('defining_sum', 'exists_w(lambda A: And(forall(lambda j: Implies(And(0 <= j, j < nd + s.len), A[j] == X[j])), '
                             'forall(lambda i: Implies(And(0 <= i, i < s.len), result[i] == DOT(A, i, 1, rev(_h, _h.len), _h.len)))), data(x))')],
   prop_of={'history': ['C06', 'C07'], 'defining_sum': ['C07', 'C06'], 'length': ['C07']})

fn('dsplib::FirFilter<dsplib::cmplx_t>::process', D, serves=['C06', 'C05'], extra_env=ENV, assigns=['this._d'],
   requires=[('invariant', 'And(_h.len >= 2, _d.len == _h.len - 1)'), ('size', '_d.len + s.len <= INT_MAX')],
   lets={'nd': '_d.len'}, throws='False',
   ensures=[('invariant', 'And(_h.len >= 2, _d.len == _h.len - 1)'),
            ('length', 'result.len == s.len'),
            ('history', 'forall(lambda t: Implies(And(0 <= t, t < nd), And(Implies(t < nd - s.len, _d[t] == old._d[t + s.len]), Implies(t >= nd - s.len, _d[t] == s[t - (nd - s.len)]))))')])

# ---------------------------------------------------------------------------------------------------
for T in ('double', 'dsplib::cmplx_t'):
    fn('dsplib::Delay<%s>::process' % T, D, serves=['C06', 'C14', 'C05'], extra_env=ENV, assigns=['this._buffer'],
       requires=[('invariant', '_buffer.len >= 1'), ('size', '_buffer.len + x.len <= INT_MAX')],
       lets={'nd': '_buffer.len'}, throws='False',
       ensures=[('invariant', '_buffer.len == nd'),
                ('length', 'result.len == x.len'),
                ('delayed', 'forall(lambda k: Implies(And(0 <= k, k < x.len), And(Implies(k < nd, result[k] == old._buffer[k]), Implies(k >= nd, result[k] == x[k - nd]))))'),
                ('history', 'forall(lambda t: Implies(And(0 <= t, t < nd), And(Implies(x.len + t < nd, _buffer[t] == old._buffer[x.len + t]), Implies(x.len + t >= nd, _buffer[t] == x[x.len + t - nd]))))')],
       body_assumes=['INSLICE_AX()'])


def sumr_upd(A, p, v, n):
    """lemma (induction on n from the definition of SUMR): replacing one entry inside the range shifts the sum"""
    from engine.specfun import SUMR
    return _z3.Implies(_z3.And(0 <= p, p < n), SUMR(_z3.Store(A, p, v), n) == SUMR(A, n) - A[p] + v)


def mod_step(a, n):
    """(a+1) mod n from a mod n, for a >= 0, n >= 1 (lemma about truncating division; engine/selftest.py)"""
    from engine.spec import tmod
    return _z3.Implies(_z3.And(a >= 0, n >= 1), tmod(a + 1, n) == _z3.If(tmod(a, n) + 1 == n, 0, tmod(a, n) + 1))


def div_step(a, n):
    """(a+1) div n from a div n, for a >= 0, n >= 1 (lemma about truncating division; engine/selftest.py)"""
    from engine.spec import tdiv, tmod
    a, n = getattr(a, 'z', a), getattr(n, 'z', n)
    return _z3.Implies(_z3.And(a >= 0, n >= 1), tdiv(a + 1, n) == _z3.If(tmod(a, n) + 1 == n, tdiv(a, n) + 1, tdiv(a, n)))


def div_mono(a, b, n):
    """0 <= a <= b implies a div n <= b div n (n >= 1) (engine/selftest.py)"""
    from engine.spec import tdiv
    a, b, n = [getattr(t, 'z', t) for t in (a, b, n)]
    return _z3.Implies(_z3.And(0 <= a, a <= b, n >= 1), tdiv(a, n) <= tdiv(b, n))


def divmod_unique(a, n, q, r):
    """a == q*n + r with 0 <= r < n, q >= 0 determines quotient and remainder (engine/selftest.py)"""
    from engine.spec import tdiv, tmod
    a, n, q, r = [getattr(t, 'z', t) for t in (a, n, q, r)]
    return _z3.Implies(_z3.And(n >= 1, q >= 0, a == q * n + r, 0 <= r, r < n), _z3.And(tdiv(a, n) == q, tmod(a, n) == r))


ENV['DIVMOD_UNIQUE'] = divmod_unique
ENV['MOD_STEP'] = mod_step
ENV['DIV_STEP'] = div_step
ENV['DIV_MONO'] = div_mono
def sumr_zero(A, n):
    """all entries below n zero => the sum is zero (induction on n; engine/selftest.py)"""
    from engine.specfun import SUMR
    A = getattr(A, 'z', A)
    n = getattr(n, 'z', n)
    t = _z3.Int('t!sz')
    return _z3.Implies(_z3.ForAll([t], _z3.Implies(_z3.And(0 <= t, t < n), A[t] == 0)), SUMR(A, n) == 0)


ENV['SUMR_UPD'] = sumr_upd
ENV['SUMR_ZERO'] = sumr_zero
MA_OK = 'And(_n >= 1, _buf.len == _n, 0 <= _pos, _pos < _n, _accum == SUMR(data(_buf), _n))'

fn('dsplib::MAFilter<double>::process', D, sig='(const double &)', key='MAFilter<real>::process(scalar)',
   serves=['C07', 'C06', 'C20', 'C05'], extra_env=ENV, assigns=['this._buf', 'this._pos', 'this._accum'],
   requires=[('invariant', MA_OK)], throws='False',
   body_assumes=['SUMR_UPD(data(_buf), _pos, x, _n)'],
   ensures=[('invariant', MA_OK),
            ('ring', 'And(_buf[old._pos] == x, forall(lambda t: Implies(And(0 <= t, t < _n, t != old._pos), _buf[t] == old._buf[t])))'),
            ('position', '_pos == If(old._pos + 1 == _n, 0, old._pos + 1)'),
            ('equal_taps', 'result * _n == SUMR(data(_buf), _n)')],
   prop_of={'equal_taps': ['C07', 'C20'], 'ring': ['C06', 'C07']})

fn('dsplib::MAFilter<double>::process', D, sig='(const base_array<double> &)', key='MAFilter<real>::process(array)',
   serves=['C06', 'C05'], extra_env=ENV, assigns=['this._buf', 'this._pos', 'this._accum'],
   requires=[('invariant', MA_OK)], throws='False',
   ensures=[('invariant', MA_OK), ('length', 'result.len == x.len'),
            ('position', '_pos == tmod(old._pos + x.len, _n)'),
            # at least n zeros in: nothing of the earlier stream is left
            ('flushed', 'Implies(And(x.len >= _n, forall(lambda k: Implies(And(0 <= k, k < x.len), x[k] == 0))), '
                        'And(forall(lambda t: Implies(And(0 <= t, t < _n), _buf[t] == 0)), _accum == 0))')],
   post_facts=['SUMR_ZERO(data(_buf), _n)'],
   loops={1: {'facts': ['MOD_STEP(old._pos + i, _n)', 'DIVMOD_UNIQUE(old._pos + i, _n, tdiv(old._pos + i, _n), _pos)'],
              'inv': [('inv', MA_OK), ('len', 'y.len == x.len'), ('pos', '_pos == tmod(old._pos + i, _n)'),
                      ('n', 'And(_n == old._n)'),
                      # ring positions written by the first i pushes (counted from the entry position) hold zeros
                      ('flush', 'Implies(forall(lambda k: Implies(And(0 <= k, k < x.len), x[k] == 0)), forall(lambda t: Implies(And(0 <= t, t < _n, '
                                'If(t >= old._pos, t - old._pos, t - old._pos + _n) < i), _buf[t] == 0)))')]}})
