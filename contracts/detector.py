"""C18 / C05: ring buffer of the preamble detector (lib/detector.cpp)."""
from engine.spec import fn, inline_fn
from contracts.fir import ENV as FIRENV

DT = 'lib/detector.cpp'
CD = 'dsplib::(anon)::CDelay<dsplib::cmplx_t>::'
ENV = {k: FIRENV[k] for k in ('DIVMOD_UNIQUE', 'MOD_STEP')}
ENV['SUMR_ZERO'] = FIRENV['SUMR_ZERO']
CD_OK = 'And(_size >= 1, _buf.len == _size, 0 <= _idx, _idx < _size)'

fn(CD + 'CDelay', DT, serves=['C18', 'C05'], assigns=['this'],
   requires=[('size', 'And(size >= 1, size <= 1000000000)')], throws='False',
   ensures=[('invariant', CD_OK), ('empty', 'And(_idx == 0, _size == size, forall(lambda t: Implies(And(0 <= t, t < size), And(_buf[t].re == 0, _buf[t].im == 0))))')])

fn(CD + 'push', DT, serves=['C18', 'C05'], assigns=['this._buf', 'this._idx'],
   requires=[('invariant', CD_OK)], throws='False',
   ensures=[('invariant', CD_OK),
            ('written', 'And(same(_buf[old._idx], v), forall(lambda t: Implies(And(0 <= t, t < _size, t != old._idx), same(_buf[t], old._buf[t]))))'),
            ('advance', '_idx == If(old._idx + 1 == _size, 0, old._idx + 1)')])

# extract(): the last _size pushed values, oldest first (the oldest one sits at the write position)
fn(CD + 'extract', DT, serves=['C18', 'C05'], pure=True, extra_env=ENV,
   requires=[('invariant', CD_OK)], throws='False',
   ensures=[('length', 'result.len == _size'),
            ('oldest_first', 'forall(lambda k: Implies(And(0 <= k, k < _size), same(result[k], _buf[If(_idx + k < _size, _idx + k, _idx + k - _size)])))')],
   loops={1: {'facts': ['DIVMOD_UNIQUE(p + 1, _size, If(p + 1 == _size, 1, 0), If(p + 1 == _size, 0, p + 1))'],
              'inv': [('pos', 'And(0 <= p, p < _size, p == If(_idx + i < _size, _idx + i, _idx + i - _size), result.len == _size)'),
                      ('done', 'forall(lambda k: Implies(And(0 <= k, k < i), same(result[k], _buf[If(_idx + k < _size, _idx + k, _idx + k - _size)])))')]}})

fn(CD + 'reset', DT, serves=['C18', 'C05'], assigns=['this._buf', 'this._idx'],
   requires=[('invariant', CD_OK)], throws='False',
   ensures=[('invariant', CD_OK), ('empty', 'And(_idx == 0, forall(lambda t: Implies(And(0 <= t, t < _size), And(_buf[t].re == 0, _buf[t].im == 0))))')])

# ---------------------------------------------------------------------------------------------------
from contracts.fftfilter import FF_OK
from contracts.fir import MA_OK
import re as _re


def member(inv, m):
    """invariant of a member object: its field names prefixed"""
    return _re.sub(r'\b(_[a-z]\w*)\b', lambda k: m + '.' + k.group(1), inv)


PD = 'dsplib::PreambleDetectorImpl::'
PD_OK = 'And(%s, _corr_flt._nx == 0, %s, %s, _pow_flt._n == _corr_flt._m, _delay._size == _corr_flt._m)' % (member(FF_OK, '_corr_flt'), member(MA_OK, '_pow_flt'), member(CD_OK, '_delay'))
inline_fn(PD + 'frame_len', 'dsplib::FftFilter::block_size', 'dsplib::(anon)::_is_valid')

# process(): frames must be whole blocks; the first sample whose normalised correlation exceeds the threshold is reported,
# with the ring buffer contents (the last _delay._size samples up to and including it); nothing is reported otherwise
fn(PD + 'process', DT, serves=['C18', 'C05'], extra_env=ENV,
   assigns=['this._corr_flt', 'this._pow_flt', 'this._delay'],
   requires=[('invariant', PD_OK), ('size', 'sig.len <= 1000000000')],
   throws='tmod(sig.len, _corr_flt._n) != 0',
   ensures=[('invariant', PD_OK),
            ('local:first_crossing', 'exists_w(lambda CR: And('
                               'Implies(result.has, And(0 <= result.val.offset, result.val.offset < sig.len, CR[result.val.offset] > _threshold, '
                               'forall(lambda j: Implies(And(0 <= j, j < result.val.offset), Not(CR[j] > _threshold))))), '
                               'Implies(Not(result.has), forall(lambda j: Implies(And(0 <= j, j < sig.len), Not(CR[j] > _threshold))))), data(corr))'),
            ('offset_in_frame', 'Implies(result.has, And(0 <= result.val.offset, result.val.offset < sig.len))'),
            ('aligned_preamble', 'Implies(result.has, And(result.val.preamble.len == _delay._size, '
                                 'same(result.val.preamble[_delay._size - 1], sig[result.val.offset])))')],
   loops={1: {'inv': [('state', 'And(%s, corr.len == sig.len, _threshold == old._threshold)' % member(CD_OK, '_delay')),
                      ('filters', 'And(%s, _corr_flt._nx == 0, %s)' % (member(FF_OK, '_corr_flt'), member(MA_OK, '_pow_flt'))),
                      ('below', 'forall(lambda j: Implies(And(0 <= j, j < i), Not(corr[j] > _threshold)))')]}})

# reset(): one block of zeros through both filters clears their memory; the ring buffer is emptied. Afterwards the detector
# holds no trace of the previous stream (same outputs as a freshly constructed one: all state that outputs depend on is zero)
fn(PD + 'reset', DT, serves=['C18', 'C05'], extra_env=ENV,
   assigns=['this._corr_flt', 'this._pow_flt', 'this._delay'],
   requires=[('invariant', PD_OK), ('size', '_corr_flt._n <= 1000000000')], throws='False',
   ensures=[('invariant', PD_OK),
            ('correlator_cleared', 'forall(lambda t: Implies(And(0 <= t, t < _corr_flt._olap.len), And(_corr_flt._olap[t].re == 0, _corr_flt._olap[t].im == 0)))'),
            ('power_cleared', 'And(forall(lambda t: Implies(And(0 <= t, t < _pow_flt._n), _pow_flt._buf[t] == 0)), _pow_flt._accum == 0)'),
            ('ring_cleared', 'And(_delay._idx == 0, forall(lambda t: Implies(And(0 <= t, t < _delay._size), And(_delay._buf[t].re == 0, _delay._buf[t].im == 0))))')])

inline_fn(PD + '_convert_impulse')
fn(PD + 'PreambleDetectorImpl', DT, serves=['C18', 'C05'], extra_env=ENV, assigns=['this'],
   requires=[('taps', 'And(h.len >= 1, h.len <= 1000000)')], throws='False',
   post_facts=['SUMR_ZERO(data(_pow_flt._buf), _pow_flt._n)'],
   ensures=[('invariant', PD_OK), ('threshold', '_threshold == threshold * threshold')])
