"""C10: lookup-or-create in front of the per-thread plan caches (lib/fft/fft.cpp: create_fft_plan, create_rfft_plan).

The cache object is the reviewed thread_local static of each function; here it is an abstract value (a ghost global:
cplan_cache for the complex plans, rplan_cache for the real ones) with the observers HAS / VAL and the constructors
PUT / TOUCH, whose laws are what contracts/lru.py proves about put / get / exists on the real template (keys other than the
touched one keep their values; a hit changes no value). Proved on top: the cache is keyed by the requested length itself,
small lengths bypass it, every plan handed out has the requested size (cache invariant: every cached plan has the size it
is filed under), and the cache invariant is kept. The invariant is a global one: the cache starts empty, only these two
functions touch it and both are proved to keep it, so callers do not have to establish it (its requires label starts
with 'ghost')."""
from engine.spec import fn, inline_fn
from engine.values import PtrVal, Opaque, SVal
import z3 as _z3

F = 'lib/fft/fft.cpp'
I = _z3.IntSort()
HAS = _z3.Function('lru_has', I, I, _z3.BoolSort())
VAL = _z3.Function('lru_val', I, I, I)
PUT = _z3.Function('lru_put', I, I, I, I)
TOUCH = _z3.Function('lru_touch', I, I, I)
PLAN_SIZE = _z3.Function('plan_size', I, I)


def handle(w):
    """identity of the plan object a shared_ptr refers to (an integer name of the pointee)"""
    t = getattr(w, 'tree', w)
    if isinstance(t, PtrVal):
        return _z3.Int('handle.' + str(t.path.root) if t.path is not None else 'handle.null')
    if isinstance(t, Opaque):
        return _z3.Int('handle.' + t.name)
    if _z3.is_expr(t):
        return t
    raise TypeError('handle of %r' % (t,))


def plan_size(w):
    """size() of the plan a shared_ptr refers to: the size member of a known object, otherwise the ghost function PLAN_SIZE"""
    t = getattr(w, 'tree', w)
    if isinstance(t, PtrVal) and t.path is not None:
        obj = w._env.read(t.path)
        if isinstance(obj, SVal):
            for f in ('n_', '_n'):
                if f in obj.f:
                    return obj.f[f]
            for m_ in ('plan_', '_plan'):        # a real plan that wraps a complex plan of the same size
                sub = obj.f.get(m_)
                if isinstance(sub, SVal):
                    for f in ('n_', '_n'):
                        if f in sub.f:
                            return sub.f[f]
    return PLAN_SIZE(handle(w))


def lru_laws(s, k, v):
    """what contracts/lru.py proves about put(k, v) and get(k) on the real template, restated on the abstract cache value"""
    s, k, v = [getattr(t, 'z', t) for t in (s, k, v)]
    j = _z3.Int('j!ll')
    p, t = PUT(s, k, v), TOUCH(s, k)
    return _z3.And(HAS(p, k), VAL(p, k) == v,
                   _z3.ForAll([j], _z3.Implies(_z3.And(j != k, HAS(p, j)), _z3.And(HAS(s, j), VAL(p, j) == VAL(s, j)))),
                   _z3.ForAll([j], _z3.And(HAS(t, j) == HAS(s, j), VAL(t, j) == VAL(s, j))))


def cinv(s):
    """every cached plan has the size it is filed under"""
    s = getattr(s, 'z', s)
    j = _z3.Int('j!ci')
    return _z3.ForAll([j], _z3.Implies(HAS(s, j), PLAN_SIZE(VAL(s, j)) == j))


ENV = {'HAS': HAS, 'VAL': VAL, 'PUT': PUT, 'TOUCH': TOUCH, 'PLAN_SIZE': PLAN_SIZE, 'handle': handle, 'plan_size': plan_size,
       'LRU_LAWS': lru_laws, 'CINV': cinv}

for B in ('C', 'R'):
    K = 'dsplib::LRUCache<int, std::shared_ptr<dsplib::BaseFftPlan%s>>::' % B
    N = 'abstraction of contracts/lru.py (proved on LRUCache<int,int>; the value type is never inspected by the template)'
    fn(K + 'exists', F, key='plancache%s::exists' % B, serves=['C10'], trusted=True, pure=True, extra_env=ENV,
       ensures=[('cached', 'result == HAS(this, key)')], notes=N)
    fn(K + 'put', F, key='plancache%s::put' % B, serves=['C10'], trusted=True, assigns=['this'], extra_env=ENV, throws='False',
       ensures=[('view', 'this == PUT(old.this, key, handle(value))')], notes=N)
    fn(K + 'get', F, key='plancache%s::get' % B, serves=['C10'], trusted=True, assigns=['this'], extra_env=ENV,
       throws='Not(HAS(this, key))', returns_ref='fresh',
       ensures=[('view', 'this == TOUCH(old.this, key)'), ('value', 'handle(result) == VAL(old.this, key)')], notes=N)

SMALL = 'Or(n == 1, n == 2, n == 4, n == 8)'
NC = 'assumed: the constructor either throws or yields a plan of the requested size (its tables are built from other translation units)'

def cache_user(fname, key, cache, others, maxn):
    """lookup-or-create: keyed by n itself, small sizes bypass the cache, the result has size n, the invariant is kept"""
    fn(fname, F, key=key, serves=['C10', 'C01', 'C05'], extra_env=ENV, may_throw=True,
       globals=[cache] + others, static_alias={'cache': cache}, assigns=[cache] + others,
       requires=[('size', 'And(n >= 1, n <= %d)' % maxn), ('ghost:cache_invariant', 'CINV(%s)' % cache)],
       ensures=[('right_size', 'plan_size(result) == n'),
                ('cache_invariant', 'CINV(%s)' % cache),
                ('small_sizes_bypass', 'Implies(%s, %s == old.%s)' % (SMALL, cache, cache)),
                ('keyed_by_length', 'Implies(Not({s}), {c} == If(HAS(old.{c}, n), TOUCH(old.{c}, n), PUT(old.{c}, n, handle(result))))'.format(s=SMALL, c=cache))],
       facts_on=[('call:put', ['LRU_LAWS(%s, arg0, handle(arg1))' % cache]), ('call:get', ['LRU_LAWS(%s, arg0, 0)' % cache])])


# complex plans
fn('dsplib::(anon)::_get_fft_plan', F, serves=['C10', 'C01', 'C05'], extra_env=ENV, may_throw=True,
   requires=[('size', 'And(n >= 3, n <= 1073741824, Not(%s))' % SMALL)],
   ensures=[('right_size', 'plan_size(result) == n')])
cache_user('dsplib::create_fft_plan', 'create_fft_plan(body)', 'cplan_cache', [], 1073741824)

# real plans (an even-size real plan builds a half-size complex plan, which goes through the complex cache)
fn('dsplib::(anon)::_get_rfft_plan', F, serves=['C10', 'C01', 'C05'], extra_env=ENV, may_throw=True,
   globals=['cplan_cache'], assigns=['cplan_cache'],
   requires=[('size', 'And(n >= 3, n <= 2000000, Not(%s))' % SMALL)],
   ensures=[('right_size', 'plan_size(result) == n')])
cache_user('dsplib::create_rfft_plan', 'create_rfft_plan(body)', 'rplan_cache', ['cplan_cache'], 2000000)
