"""Last forwarding functions: irfft, finddelay, autocorrelation, complex moving average over an array, deprecated range()."""
from engine.spec import fn
from contracts.ifft import I, ENV as IENV

# inverse real transform: n samples from either input form (all n bins or the n/2+1 non-redundant ones), odd n rejected
fn('dsplib::irfft', I, sig='dsplib::arr_real (const dsplib::arr_cmplx &, int)', key='irfft(x,n)', serves=['C02', 'C05'], pure=True, extra_env=IENV,
   requires=[('size', 'And(n >= 2, n <= 1073741824)')],
   throws='Or(tmod(n, 2) != 0, And(x.len != n, x.len != tdiv(n, 2) + 1))',
   ensures=[('length', 'result.len == n')])
fn('dsplib::irfft', I, sig='dsplib::arr_real (const dsplib::arr_cmplx &)', key='irfft(x)', serves=['C02', 'C05'], pure=True, extra_env=IENV,
   requires=[('size', 'And(x.len >= 2, x.len <= 1073741824)')],
   throws='tmod(x.len, 2) != 0', ensures=[('length', 'result.len == x.len')])

U = 'lib/utils.cpp'
for T, key in (('dsplib::arr_real', 'real'), ('dsplib::arr_cmplx', 'cmplx')):
    fn('dsplib::finddelay', U, sig='int (const %s &, const %s &)' % (T, T), key='finddelay<%s>' % key, serves=['C18', 'C05'], pure=True,
       requires=[('nonempty', 'And(x1.len >= 1, x2.len >= 1, x1.len <= 536870912, x2.len <= 536870912)')], throws='False',
       ensures=[('signed_lag', 'exists(lambda nf: And(nf >= x1.len, nf >= x2.len, 2 * result >= -nf, 2 * result < nf + 2))')])

X = 'lib/xcorr.cpp'
for T, key in (('dsplib::arr_real', 'real'), ('dsplib::arr_cmplx', 'cmplx')):
    fn('dsplib::xcorr', X, sig='%s (const %s &)' % (T, T), key='xcorr<%s>(x)' % key, serves=['C07', 'C05'], pure=True,
       requires=[('nonempty', 'And(x.len >= 1, 2 * x.len <= 536870912)')], throws='False',
       ensures=[('lags', 'result.len == 2 * x.len - 1')])

from contracts.batch4 import MAC_OK
from contracts.fir import ENV as FENV, D as FD
fn('dsplib::MAFilter<dsplib::cmplx_t>::process', FD, sig='(const base_array<dsplib::cmplx_t> &)', key='MAFilter<cmplx>::process(array)',
   serves=['C06', 'C05'], extra_env=FENV, assigns=['this._buf', 'this._pos', 'this._accum'],
   requires=[('invariant', MAC_OK)], throws='False',
   ensures=[('invariant', MAC_OK), ('length', 'result.len == x.len'), ('position', '_pos == tmod(old._pos + x.len, _n)')],
   loops={1: {'facts': ['MOD_STEP(old._pos + i, _n)', 'DIVMOD_UNIQUE(old._pos + i, _n, tdiv(old._pos + i, _n), _pos)'],
              'inv': [('inv', MAC_OK), ('len', 'y.len == x.len'), ('pos', '_pos == tmod(old._pos + i, _n)'), ('n', '_n == old._n')]}})

from contracts.mathfun3 import ENV as MENV, M
fn('dsplib::pow', M, sig='dsplib::real_t (dsplib::real_t, dsplib::real_t)', key='pow(real,real)', serves=['C17'], pure=True, extra_env=MENV, throws='False',
   ensures=[('definition', 'result == POW(x, n)')])
DRV = 'drivers/instantiate.cpp'
fn('dsplib::range', DRV, sig='dsplib::arr_real (int)', key='range(int)', serves=['C17', 'C05'], pure=True,
   requires=[('span', 'And(stop >= -1073741824, stop <= 1073741824)')], throws='False',
   ensures=[('count', 'result.len == If(stop > 0, stop, 0)'), ('values', 'forall(lambda k: Implies(And(0 <= k, k < result.len), result[k] == ToReal(k)))')])
fn('dsplib::WelchResult::WelchResult', 'lib/spectrum.cpp', key='WelchResult::WelchResult', serves=['C13'], assigns=['this'], throws='False',
   ensures=[('members', 'And(same(pxx, pxx_), same(f, f_))')])
