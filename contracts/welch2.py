"""C13 / C05: welch with a window length -- a Hamming window of that length (never zero, hence positive window power)."""
from engine.spec import fn
from contracts.spectrum import ENV as SENV, SP
from contracts.snr2 import sumr_ge, dotsq_ge

ENV = dict(SENV)
ENV.update({'SUMR_GE': sumr_ge, 'DOTSQ_GE': dotsq_ge})
WP = ['SUMR_GE(data(arg1), arg1.len, 0)', 'DOTSQ_GE(data(arg1), arg1.len, 0)']
for T, key in (('dsplib::arr_real', 'real'), ('dsplib::arr_cmplx', 'cmplx')):
    lo = 2 if key == 'real' else 4
    fn('dsplib::welch', SP, sig='(const %s &, int, int, int, dsplib::SpectrumType)' % T, key='welch<%s>(x,winlen,noverlap,nfft,type)' % key,
       serves=['C13', 'C05'], pure=True, extra_env=ENV, may_throw=True,
       requires=[('sizes', 'And(winlen >= 3, winlen <= 1048576, x.len >= winlen, x.len <= 1073741824, noverlap >= 0)'),
                 ('nfft', 'And(nfft >= %d, nfft <= 1048576, tmod(nfft, 2) == 0)' % lo)],
       facts_on=[('call:welch', WP)],
       ghost={'NOV': '-1', 'NF': '-1', 'WL': '-1', 'TY': '-1'}, ghost_on=[('call:welch', None, {'NOV': 'arg2', 'NF': 'arg3', 'WL': 'arg1.len', 'TY': 'arg4'})],
       ensures=[('forwards', 'And(NOV == noverlap, NF == nfft, WL == winlen, TY == type)')])
    fn('dsplib::welch', SP, sig='(const %s &, int, dsplib::SpectrumType)' % T, key='welch<%s>(x,winlen,type)' % key,
       serves=['C13', 'C05'], pure=True, extra_env=ENV, may_throw=True,
       requires=[('sizes', 'And(winlen >= 3, winlen <= 1048576, x.len >= winlen, x.len <= 1073741824)')],
       facts_on=[('call:welch', WP)],
       ghost={'WL': '-1', 'TY': '-1'}, ghost_on=[('call:welch', None, {'WL': 'arg1.len', 'TY': 'arg2'})],
       ensures=[('forwards', 'And(WL == winlen, TY == type)')])
