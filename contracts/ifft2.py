"""C02: complex inverse transform (lib/fft/ifft.cpp): ifft(x) = conj(F(conj(x) / n)) with F the (assumed) forward transform --
the textbook reduction of the inverse DFT to the forward one. That F really is the DFT is the assumption of contracts/fftabs.py;
the inversion theorem itself (F^-1 F = id) is mathematics, not code."""
from engine.spec import fn
from contracts.fftabs import ENV as FENV

I = 'lib/fft/ifft.cpp'
ENV = dict(FENV)

fn('dsplib::(anon)::_inplace_conj', I, serves=['C02', 'C05'], assigns=['x'], throws='False',
   ensures=[('length', 'x.len == old.x.len'),
            ('conjugated', 'forall(lambda k: Implies(And(0 <= k, k < x.len), And(x[k].re == old.x[k].re, x[k].im == -old.x[k].im)))')],
   loops={1: {'inv': [('len', 'x.len == old.x.len'),
                      ('done', 'forall(lambda k: Implies(And(0 <= k, k < v_idx), And(x[k].re == old.x[k].re, x[k].im == -old.x[k].im)))'),
                      ('todo', 'forall(lambda k: Implies(And(v_idx <= k, k < x.len), same(x[k], old.x[k])))')]}})

fn('dsplib::IfftPlan::solve', I, serves=['C02', 'C05', 'C09'], pure=True, extra_env=ENV,
   requires=[('nonempty', 'x.len >= 1')],
   ghost={'C': 'x'}, ghost_on=[('call:solve', None, {'C': 'arg0'})],
   ensures=[('length', 'result.len == x.len'),
            ('scaled_conjugate_in', 'forall(lambda k: Implies(And(0 <= k, k < x.len), And(C[k].re == x[k].re * (1 / ToReal(x.len)), C[k].im == -(x[k].im * (1 / ToReal(x.len))))))'),
            ('conjugate_of_forward', 'forall(lambda k: Implies(And(0 <= k, k < x.len), And(result[k].re == DFT_RE(re_data(C), im_data(C), x.len)[k], '
                                     'result[k].im == -DFT_IM(re_data(C), im_data(C), x.len)[k])))')])
fn('dsplib::IfftPlan::operator()', I, key='IfftPlan::operator()', serves=['C02', 'C05'], pure=True, extra_env=ENV,
   requires=[('nonempty', 'x.len >= 1')], ensures=[('length', 'result.len == x.len')])
