"""C12 / C05: constructors of the complex adaptive filters (same clauses as the real ones, complex zero = 0 + 0i)."""
from engine.spec import fn
from contracts.adaptive import ENV, D, RLS_OK, LMS_OK

fn('dsplib::RlsFilter<dsplib::cmplx_t>::RlsFilter', D, serves=['C12', 'C05'], extra_env=ENV, assigns=['this'],
   requires=[('size', 'And(filter_len >= 1, filter_len <= 46340)'), ('ghost', 'And(0 <= r0, r0 < filter_len, 0 <= c0, c0 < filter_len)')],
   lets={'r0': 'ghost_int("row")', 'c0': 'ghost_int("col")'}, throws='False',
   ensures=[('invariant', RLS_OK), ('parameters', 'And(_n == filter_len, _mu == forget_factor, Not(_locked))'),
            ('at_rest', 'And(forall(lambda k: Implies(And(0 <= k, k < _n), And(eqv(_u[k], 0), eqv(_w[k], 0)))))'),
            ('initial_matrix', 'And(_p[r0*_n + c0].re == If(r0 == c0, diag_load, 0), _p[r0*_n + c0].im == 0)')],
   loops={1: {'inv': [('shape', RLS_OK),
                      ('done', 'And(_p[r0*_n + c0].re == If(And(r0 == c0, r0 < i), diag_load, 0), _p[r0*_n + c0].im == 0)')]}})
fn('dsplib::LmsFilter<dsplib::cmplx_t>::LmsFilter', D, serves=['C12', 'C05'], extra_env=ENV, assigns=['this'],
   requires=[('size', 'And(len >= 2, len <= 1048576)')], throws='False',
   ensures=[('invariant', LMS_OK), ('parameters', 'And(_len == len, _mu == step_size, _lk == leak, _method == method, Not(_locked))'),
            ('at_rest', 'And(forall(lambda k: Implies(And(0 <= k, k < _len - 1), eqv(_u[k], 0))), forall(lambda k: Implies(And(0 <= k, k < _len), eqv(_w[k], 0))))')])
