"""Assorted small functions: fractional arange, complex integer powers, complex reductions, forwarding transforms."""
from engine.spec import fn
from contracts.mathfun3 import ENV as MENV, M, RA, CA, CPW

ENV = dict(MENV)
DRV = 'drivers/instantiate.cpp'

# arange(start, stop, step) with a floating-point argument: round((stop - start) / step) values start + i*step
fn('dsplib::arange', DRV, sig='dsplib::arr_real (double, double, double)', key='arange(double,double,double)', serves=['C17', 'C05'], pure=True, extra_env=ENV,
   requires=[('step', 'step != 0'), ('count', 'And((stop - start) / step >= 0, (stop - start) / step <= 1000000)')], throws='False',
   ensures=[('count', 'result.len == ToInt(rnd((stop - start) / step))'),
            ('values', 'forall(lambda k: Implies(And(0 <= k, k < result.len), result[k] == start + ToReal(k) * step))')],
   loops={1: {'inv': [('len', 'r.len == n'), ('done', 'forall(lambda k: Implies(And(0 <= k, k < i), r[k] == start + ToReal(k) * step))')]}})
fn('dsplib::arange', DRV, sig='dsplib::arr_real (dsplib::real_t)', key='arange(real)', serves=['C17', 'C05'], pure=True, extra_env=ENV,
   requires=[('count', 'And(stop >= 0, stop <= 1000000)')], throws='False',
   ensures=[('count', 'result.len == ToInt(rnd(stop))'), ('values', 'forall(lambda k: Implies(And(0 <= k, k < result.len), result[k] == ToReal(k)))')])

# integer powers of complex numbers: exact special cases, otherwise the polar form
PCI = 'If(n == 2, {x} * {x}, If(n == -1, 1 / {x}, If(n == 0, 1, If(n == 1, {x}, 0))))'
fn('dsplib::_power', M, sig='dsplib::cmplx_t (const dsplib::cmplx_t &, int)', key='_power(cmplx,int)', serves=['C17', 'C05'], pure=True, extra_env=ENV, throws='False',
   ensures=[('square', 'Implies(n == 2, And(result.re == x.re * x.re - x.im * x.im, result.im == 2 * x.re * x.im))'),
            ('one_and_identity', 'And(Implies(n == 0, And(result.re == 1, result.im == 0)), Implies(n == 1, And(result.re == x.re, result.im == x.im)))'),
            ('general', 'Implies(And(n != 2, n != -1, n != 0, n != 1), %s)' % CPW('result', 'x', 'ToReal(n)'))])

fn('dsplib::mse', DRV, sig='dsplib::real_t (const dsplib::arr_cmplx &, const dsplib::arr_cmplx &)', key='mse(cmplx)', serves=['C17', 'C05'], pure=True, extra_env=ENV,
   requires=['x.len >= 1'], throws='x.len != y.len',
   ghost={'D': 'real_placeholder(x)'}, ghost_on=[('call:mean', None, {'D': 'arg0'})],
   ensures=[('terms', 'And(D.len == x.len, forall(lambda k: Implies(And(0 <= k, k < x.len), D[k] == (x[k].re - y[k].re) * (x[k].re - y[k].re) + (x[k].im - y[k].im) * (x[k].im - y[k].im))))'),
            ('mean', 'result * ToReal(x.len) == SUMR(data(D), x.len)')])
fn('dsplib::conj', DRV, sig='dsplib::arr_real (const dsplib::arr_real &)', key='conj(arr_real)', serves=['C17'], pure=True, throws='False',
   ensures=[('identity', 'result == x')])
fn('dsplib::sign', DRV, sig='dsplib::cmplx_t (const dsplib::cmplx_t &)', key='sign(cmplx)', serves=['C17'], pure=True, extra_env=ENV, throws='False',
   ensures=[('zero', 'Implies(And(x.re == 0, x.im == 0), And(result.re == 0, result.im == 0))'),
            ('unit_direction', 'Implies(Not(And(x.re == 0, x.im == 0)), And(result.re == x.re / SQRT(x.re*x.re + x.im*x.im), result.im == x.im / SQRT(x.re*x.re + x.im*x.im)))')])

# forwarding transforms
F = 'lib/fft/fft.cpp'
fn('dsplib::rfft', F, sig='dsplib::arr_cmplx (const dsplib::arr_real &)', key='rfft(x)', serves=['C01', 'C05'], pure=True, requires=[('nonempty', 'x.len >= 1')],
   ensures=[('length', 'result.len == x.len')])

fn('dsplib::rfft', F, sig='dsplib::arr_cmplx (const dsplib::arr_real &, int)', key='rfft(x,n)', serves=['C01', 'C05'], pure=True, may_throw=True,
   requires=[('sizes', 'And(x.len >= 1, n >= 1, n <= 1073741824)')], ensures=[('length', 'result.len == n')])
I = 'lib/fft/ifft.cpp'
fn('dsplib::IfftPlan::size', I, key='IfftPlan::size', serves=['C02'], pure=True, throws='False', extra_env={'PLAN_SIZE': __import__('contracts.plancache', fromlist=['x']).PLAN_SIZE, 'handle': __import__('contracts.plancache', fromlist=['x']).handle},
   ensures=[('forwards', 'result == PLAN_SIZE(handle(_d.target._d))')])
for nm, sig, e in (('power', 'dsplib::cmplx_t (dsplib::cmplx_t, int)', 'power(cmplx,int)'),):
    fn('dsplib::' + nm, M, sig=sig, key=e, serves=['C17', 'C05'], pure=True, extra_env=ENV, throws='False',
       ensures=[('square', 'Implies(n == 2, And(result.re == x.re * x.re - x.im * x.im, result.im == 2 * x.re * x.im))'),
                ('one_and_identity', 'And(Implies(n == 0, And(result.re == 1, result.im == 0)), Implies(n == 1, And(result.re == x.re, result.im == x.im)))'),
                ('general', 'Implies(And(n != 2, n != -1, n != 0, n != 1), %s)' % CPW('result', 'x', 'ToReal(n)'))])
# norm of a complex array: the same three cases over |x[k]|
fn('dsplib::norm', M, sig='(const dsplib::arr_cmplx &, int)', key='norm(arr_cmplx,p)', serves=['C17', 'C05'], pure=True, extra_env=ENV,
   requires=[('order', 'p >= 1')],
   ghost={'S': 'real_placeholder(x)'}, ghost_on=[('call:sum', None, {'S': 'arg0'})],
   ensures=[('length', 'S.len == x.len'),
            ('terms', 'forall(lambda k: Implies(And(0 <= k, k < x.len), S[k] == If(p == 1, SQRT(x[k].re*x[k].re + x[k].im*x[k].im), If(p == 2, x[k].re*x[k].re + x[k].im*x[k].im, POW(SQRT(x[k].re*x[k].re + x[k].im*x[k].im), ToReal(p))))))'),
            ('root', 'result == If(p == 1, SUMR(data(S), x.len), If(p == 2, SQRT(SUMR(data(S), x.len)), POW(SUMR(data(S), x.len), 1 / ToReal(p))))')])

# default multirate designs and the resamplers built on them
from contracts.resample import ENV as RENV, DEC_OK, INT_OK, RC_OK, TU_DEC, TU_INT, TU_RC, TU_RS
R_ = 'lib/resample/resample.cpp'
fn('dsplib::design_multirate_fir', R_, serves=['C08', 'C05'], pure=True, extra_env=RENV, may_throw=True,
   requires=[('rates', 'And(interp >= 1, decim >= 1, interp <= 1000, decim <= 1000)'), ('half_length', 'And(hlen >= 1, hlen <= 100)')],
   ensures=[('unit_ratio', 'Implies(interp == decim, And(result.len == 1, result[0] == 1))'),
            ('nonempty', 'And(result.len >= 1, result.len <= 1048576)')])
fn('dsplib::FIRDecimator::FIRDecimator', TU_DEC, sig='(int)', key='FIRDecimator(decim)', serves=['C08', 'C06', 'C05'], extra_env=RENV, assigns=['this'], may_throw=True,
   requires=[('rate', 'And(decim >= 1, decim <= 1000)')],
   ensures=[('invariant', DEC_OK), ('rate', 'decim_ == decim'), ('rest', 'forall(lambda t: Implies(And(0 <= t, t < d_.len), d_[t] == 0))')])
fn('dsplib::FIRInterpolator::FIRInterpolator', TU_INT, sig='(int)', key='FIRInterpolator(interp)', serves=['C08', 'C06', 'C05'], extra_env=RENV, assigns=['this'], may_throw=True,
   requires=[('rate', 'And(interp >= 1, interp <= 1000)')],
   ensures=[('invariant', INT_OK), ('rate', 'interp_ == interp'), ('rest', 'forall(lambda t: Implies(And(0 <= t, t < d_.len), d_[t] == 0))')])
fn('dsplib::FIRRateConverter::FIRRateConverter', TU_RC, sig='(int, int)', key='FIRRateConverter(interp,decim)', serves=['C08', 'C06', 'C05'], extra_env=RENV, assigns=['this'], may_throw=True,
   requires=[('rates', 'And(interp >= 1, interp <= 1000, decim >= 1, decim <= 1000)')],
   ensures=[('invariant', RC_OK), ('rates', 'And(interp_ == interp, decim_ == decim)'), ('rest', 'forall(lambda t: Implies(And(0 <= t, t < d_.len), d_[t] == 0))')])
fn('dsplib::resample', TU_RS, sig='(const dsplib::arr_real &, int, int, int, dsplib::real_t)', key='resample(x,p,q,n,beta)', serves=['C08', 'C05'], extra_env=RENV, pure=True, may_throw=True,
   requires=[('ratio', 'And(p_ >= 1, p_ <= 1000, q_ >= 1, q_ <= 1000)'), ('half_length', 'And(n >= 1, n <= 100)'), ('signal', 'And(x.len >= 1, x.len <= 1048576)')],
   body_assumes=['forall(lambda a: Implies(And(a >= 1, coprime(a, a)), a == 1))'],
   ensures=[('identity', 'Implies(p_ == q_, result == x)')])

# moving average over complex samples: the real filter applied to both components
from contracts.fir import ENV as FENV, D as FD, MA_OK
MAC_OK = 'And(_n >= 1, _buf.len == _n, 0 <= _pos, _pos < _n, _accum.re == SUMR(re_data(_buf), _n), _accum.im == SUMR(im_data(_buf), _n))'
fn('dsplib::MAFilter<dsplib::cmplx_t>::process', FD, sig='(const dsplib::cmplx_t &)', key='MAFilter<cmplx>::process(scalar)',
   serves=['C07', 'C06', 'C05'], extra_env=FENV, assigns=['this._buf', 'this._pos', 'this._accum'],
   requires=[('invariant', MAC_OK)], throws='False',
   body_assumes=['SUMR_UPD(re_data(_buf), _pos, x.re, _n)', 'SUMR_UPD(im_data(_buf), _pos, x.im, _n)'],
   ensures=[('invariant', MAC_OK),
            ('ring', 'And(same(_buf[old._pos], x), forall(lambda t: Implies(And(0 <= t, t < _n, t != old._pos), same(_buf[t], old._buf[t]))))'),
            ('position', '_pos == If(old._pos + 1 == _n, 0, old._pos + 1)'),
            ('equal_taps', 'And(result.re * _n == SUMR(re_data(_buf), _n), result.im * _n == SUMR(im_data(_buf), _n))')])
for T, key, inv in (('double', 'real', MA_OK), ('dsplib::cmplx_t', 'cmplx', MAC_OK)):
    fn('dsplib::MAFilter<%s>::MAFilter' % T, FD, key='MAFilter<%s>::MAFilter' % key, serves=['C07', 'C06', 'C05'], extra_env=FENV, assigns=['this'],
       requires=[('length', 'And(n >= 1, n <= 1048576)')], throws='False', post_facts=['SUMR_ZERO(%s, _n)' % ('data(_buf)' if key == 'real' else 're_data(_buf)')] + (['SUMR_ZERO(im_data(_buf), _n)'] if key == 'cmplx' else []),
       ensures=[('invariant', inv), ('length', '_n == n'), ('at_rest', 'forall(lambda t: Implies(And(0 <= t, t < n), eqv(_buf[t], 0)))')])

# automatic gain control: parameters in the log domain, moving average of the requested length at rest
from contracts.audio import AENV, AG
MA_D = MA_OK.replace('_n', '_d.target.maflt._n').replace('_buf', '_d.target.maflt._buf').replace('_pos', '_d.target.maflt._pos').replace('_accum', '_d.target.maflt._accum')
fn('dsplib::Agc::Agc', AG, serves=['C20', 'C05'], extra_env=AENV, assigns=['this'],
   requires=[('length', 'average_len <= 1048576')], throws='average_len <= 0',
   ensures=[('moving_average', MA_D), ('window', '_d.target.maflt._n == average_len'),
            ('parameters', 'And(_d.target.trise == t_rise, _d.target.tfall == t_fall, _d.target.target == LOG(target_level), _d.target.max_gain == LOG(POW(10, max_gain / 20)), _d.target.gain == 1)')])
for T, key in (('dsplib::arr_real', 'real'), ('dsplib::arr_cmplx', 'cmplx')):
    fn('dsplib::Agc::process', AG, sig='(const %s &)' % T, key='Agc::process<%s>' % key, serves=['C20', 'C06', 'C05'], extra_env=AENV, assigns=['this._d.gain', 'this._d.maflt'],
       requires=[('moving_average', MA_D)], throws='False',
       ensures=[('lengths', 'And(result.out.len == x.len, result.gain.len == x.len)'), ('moving_average', MA_D),
                ('output_is_scaled_input', 'forall(lambda k: Implies(And(0 <= k, k < x.len), eqv(result.out[k], mul(x[k], result.gain[k]))))')])

# the public detector is a pointer to its implementation: every operation hands its argument on and keeps the invariant there
from contracts.detector import PD_OK, member, DT, ENV as DENV
import re as _re2
PDP_OK = _re2.sub(r'(?<![\w.])(_[a-z]\w*)\b', lambda k: '_d.target.' + k.group(1), PD_OK)
fn('dsplib::PreambleDetector::process', DT, key='PreambleDetector::process', serves=['C18', 'C05'], extra_env=DENV,
   assigns=['this._d._corr_flt', 'this._d._pow_flt', 'this._d._delay'],
   requires=[('invariant', PDP_OK), ('size', 'sig.len <= 1000000000')], throws='tmod(sig.len, _d.target._corr_flt._n) != 0',
   ensures=[('invariant', PDP_OK),
            ('aligned_preamble', 'Implies(result.has, And(0 <= result.val.offset, result.val.offset < sig.len, result.val.preamble.len == _d.target._delay._size, '
                                 'same(result.val.preamble[_d.target._delay._size - 1], sig[result.val.offset])))')])
fn('dsplib::PreambleDetector::PreambleDetector', DT, key='PreambleDetector::PreambleDetector', serves=['C18', 'C05'], extra_env=DENV, assigns=['this'],
   requires=[('taps', 'And(h.len >= 1, h.len <= 1000000)')], throws='False',
   ensures=[('invariant', PDP_OK)])
fn('dsplib::PreambleDetector::reset', DT, key='PreambleDetector::reset', serves=['C18', 'C05'], extra_env=DENV,
   assigns=['this._d._corr_flt', 'this._d._pow_flt', 'this._d._delay'],
   requires=[('invariant', PDP_OK), ('size', '_d.target._corr_flt._n <= 1000000000')], throws='False', ensures=[('invariant', PDP_OK)])
fn('dsplib::PreambleDetector::frame_len', DT, key='PreambleDetector::frame_len', serves=['C18'], pure=True, extra_env=DENV, throws='False',
   requires=[('invariant', PDP_OK)], ensures=[('block', 'result == _d.target._corr_flt._n')])

from contracts.tuner import TUN_OK
fn('dsplib::Tuner::Tuner', 'drivers/instantiate.cpp', key='Tuner::Tuner', serves=['C14', 'C05'], extra_env=ENV, assigns=['this'],
   requires=[('rate', 'sample_rate >= 1')], throws='fabs(freq) > ToReal(tdiv(sample_rate, 2))',
   ensures=[('invariant', TUN_OK), ('parameters', 'And(_fs == sample_rate, _freq == freq, _phase == 0)')])
