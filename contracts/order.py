"""C16 / C06 / C05: order statistics and rank correlation (lib/math.cpp, lib/medfilt.cpp, lib/corr.cpp)."""
from engine.spec import fn, inline_fn
import z3 as _z3

M = 'lib/math.cpp'
MF = 'lib/medfilt.cpp'
CO = 'lib/corr.cpp'


def sorted_upto(A, n):
    i, j = _z3.Ints('i!su j!su')
    return _z3.ForAll([i, j], _z3.Implies(_z3.And(0 <= i, i <= j, j < n), A[i] <= A[j]))


def perm(A, B, n):
    from engine.prelude import PERM
    return PERM(A, B, n)


ENV = {'sorted_upto': sorted_upto, 'perm': perm}

fn('dsplib::median', M, serves=['C16', 'C05'], pure=True, extra_env=ENV,
   requires=[('nonempty', 'arr.len >= 1')],
   ensures=[('median_of_sorted', 'exists_w(lambda A: And(sorted_upto(A, arr.len), perm(A, data(arr), arr.len), '
             'result == If(tmod(arr.len, 2) == 1, A[tdiv(arr.len, 2)], (A[tdiv(arr.len, 2)] + A[tdiv(arr.len, 2) - 1]) / 2)), data(r))')])

# sort with index vector (std::iota + std::sort with a key comparator lambda + gather), early exit when already sorted
fn('dsplib::sort', M, serves=['C16', 'C05'], pure=True, extra_env=ENV,
   requires=[('direction', 'Or(dir == 0, dir == 1)')], throws='False',
   ensures=[('lengths', 'And(result.first.len == x.len, result.second.len == x.len)'),
            ('gather', 'forall(lambda i: Implies(And(0 <= i, i < x.len), And(0 <= result.second[i], result.second[i] < x.len, result.first[i] == x[result.second[i]])))'),
            ('injective', 'forall(lambda i, j: Implies(And(0 <= i, i < j, j < x.len), result.second[i] != result.second[j]))'),
            # adjacent form (all-pairs ordering follows by transitivity)
            ('ordered', 'forall(lambda k: Implies(And(0 <= k, k + 1 < x.len), If(dir == 1, result.first[k] <= result.first[k + 1], result.first[k] >= result.first[k + 1])))')])

fn('dsplib::issorted', M, serves=['C16', 'C05'], pure=True, extra_env=ENV, requires=[('direction', 'Or(dir == 0, dir == 1)')],
   ensures=[('definition', 'result == forall(lambda k: Implies(And(0 <= k, k + 1 < x.len), If(dir == 1, x[k] <= x[k + 1], x[k] >= x[k + 1])))')])

fn('dsplib::base_array<*>::operator[]', 'drivers/instantiate.cpp', sig='(const base_array<int> &) const',
   key='base_array::operator[](arr_int)', serves=['C03', 'C05'], pure=True,
   throws='exists(lambda k: And(0 <= k, k < idxs.len, Or(idxs[k] < 0, idxs[k] >= this.len)))',
   ensures=[('length', 'result.len == idxs.len'),
            ('gather', 'forall(lambda k: Implies(And(0 <= k, k < idxs.len), result[k] == this[idxs[k]]))')])

# Kendall's tau: (concordant - discordant) / pairs, pairs taken in x-sorted order comparing the permuted y.
# Decided here on the two-sample instance (tau = sign((x0-x1)*(y0-y1)), tie-free) plus counting invariants.
fn('dsplib::(anon)::_kendall_corr', CO, serves=['C16', 'C05'], pure=True, extra_env=ENV,
   requires=[('sizes', 'And(x.len == y.len, x.len >= 2, x.len <= 46340)')],
   ensures=[('two_samples', 'Implies(And(x.len == 2, x[0] != x[1], y[0] != y[1]), result == If((x[0] - x[1]) * (y[0] - y[1]) > 0, 1, -1))'),
            ('range', 'And(result >= -1, result <= 1)')],
   loops={1: {'inv': [('counts', 'And(n_c >= 0, n_d >= 0, n_c + n_d <= i * n, Implies(i >= 1, n_c + n_d >= 1))'),
                      ('two', 'Implies(And(n == 2, i == 1), And(n_c + n_d == 1, n_c == If(ybyx[0] < ybyx[1], 1, 0)))'),
                      ('two0', 'Implies(i == 0, And(n_c == 0, n_d == 0))')]},
          2: {'inv': [('counts', 'And(n_c >= 0, n_d >= 0, n_c + n_d <= i * n + (k - i - 1), n_c + n_d >= k - i - 1)'),
                      ('two', 'Implies(And(n == 2, i == 0), And(n_c + n_d == k - 1, Implies(k == 2, n_c == If(ybyx[0] < ybyx[1], 1, 0))))')]}})


def pearson(X, Y, n):
    """Pearson's r written with the raw moment sums (the textbook 'computational' formula)"""
    from engine.specfun import SUMR, DOT
    from engine.prelude import SQRT
    nn = _z3.ToReal(n)
    sx, sy = SUMR(X, n), SUMR(Y, n)
    sxy, sxx, syy = DOT(X, 0, 1, Y, n), DOT(X, 0, 1, X, n), DOT(Y, 0, 1, Y, n)
    return (nn * sxy - sx * sy) / SQRT((nn * sxx - sx * sx) * (nn * syy - sy * sy))


ENV['pearson'] = pearson

fn('dsplib::(anon)::_pearson_corr', CO, serves=['C16', 'C05'], pure=True, extra_env=ENV,
   requires=[('sizes', 'And(x.len == y.len, x.len >= 1)')],
   ensures=[('definition', 'result == pearson(data(x), data(y), x.len)')],
   loops={1: {'facts': ['SUMR_BASE(data(x))', 'SUMR_BASE(data(y))', 'SUMR_STEP(data(x), i)', 'SUMR_STEP(data(y), i)',
                        'DOT_BASE(data(x), 0, 1, data(y))', 'DOT_BASE(data(x), 0, 1, data(x))', 'DOT_BASE(data(y), 0, 1, data(y))',
                        'DOT_STEP(data(x), 0, 1, data(y), i)', 'DOT_STEP(data(x), 0, 1, data(x), i)', 'DOT_STEP(data(y), 0, 1, data(y), i)'],
              'inv': [('sums', 'And(sum_x == SUMR(data(x), i), sum_y == SUMR(data(y), i), sum_xy == DOT(data(x), 0, 1, data(y), i), '
                               'sqsum_x == DOT(data(x), 0, 1, data(x), i), sqsum_y == DOT(data(y), 0, 1, data(y), i))')]}})

fn('dsplib::(anon)::_get_ranks', CO, serves=['C16', 'C05'], pure=True, extra_env=ENV,
   ensures=[('length', 'result.len == x.len'),
            ('inverse_permutation', 'exists_w(lambda L: forall(lambda i: Implies(And(0 <= i, i < x.len), And(0 <= L[i], L[i] < x.len, result[L[i]] == i))), x_idx)')],
   loops={1: {'inv': [('len', 'rank.len == n'),
                      ('done', 'forall(lambda t: Implies(And(0 <= t, t < i), rank[x_idx[t]] == t))')]}})

fn('dsplib::corr', CO, serves=['C16', 'C05'], pure=True, extra_env=ENV,
   requires=[('sizes', 'Implies(x.len == y.len, And(x.len >= 2, x.len <= 46340))')],
   throws='x.len != y.len',
   ensures=[('pearson', 'Implies(type == 0, result == pearson(data(x), data(y), x.len))')])

fn('dsplib::(anon)::_spearman_corr', CO, serves=['C16', 'C05'], pure=True, extra_env=ENV,
   requires=[('sizes', 'And(x.len == y.len, x.len >= 1)')],
   ghost={'RX': 'x', 'RY': 'y'}, ghost_on=[('call:_pearson_corr', None, {'RX': 'arg0', 'RY': 'arg1'})],
   ensures=[('pearson_of_ranks', 'And(RX.len == x.len, RY.len == x.len, result == pearson(data(RX), data(RY), x.len))'),
            ('local:rank_vectors', 'exists_w(lambda A, B: forall(lambda k: Implies(And(0 <= k, k < x.len), And(RX[k] == ToReal(A[k]), RY[k] == ToReal(B[k])))), x_rank, y_rank)')])

# ---------------------------------------------------------------------------------------------------
# running median: the window is kept as a ring (_d) and as a sorted copy (_s)
fn('dsplib::_update_sort', MF, serves=['C16', 'C06', 'C05'], extra_env=ENV, assigns=['x'],
   requires=[('buffer', 'And(x.off == 0, nx >= 1, nx == x.target.len)'), ('sorted', 'sorted_upto(ptr_data(x), nx)')],
   ensures=[('sorted', 'sorted_upto(ptr_data(x), nx)'),
            ('inserted', 'exists(lambda j: And(0 <= j, j < nx, x[j] == v_new))')],
   loops={1: {'inv': [('range', 'And(0 <= pos, pos <= nx - 1)')], 'dec': 'nx - pos'},
          2: {'inv': [('range', 'And(0 <= pos, pos <= nx - 1)'),
                      ('smaller', 'forall(lambda t: Implies(And(0 <= t, t < pos), x[t] < v_new))')], 'dec': 'nx - pos'}})


def ptr_data(p):
    return p.target.tree.data


ENV['ptr_data'] = ptr_data

MF_OK = 'And(_n >= 3, _d.len == _n, _s.len == _n, 0 <= _i, _i < _n, sorted_upto(data(_s), _n))'
fn('dsplib::MedianFilter::process', MF, serves=['C16', 'C06', 'C05'], extra_env=ENV, assigns=['this._i', 'this._d', 'this._s'],
   requires=[('invariant', MF_OK)], throws='False',
   ensures=[('invariant', MF_OK), ('length', 'result.len == x.len'),
            ('ring_position', '_i == tmod(old._i + x.len, _n)'),
            ('newest_sample_stored', 'Implies(x.len >= 1, _d[_i] == x[x.len - 1])'),
            ('median_of_sorted_window', 'Implies(x.len == 1, result[0] == If(tmod(_n, 2) == 1, _s[tdiv(_n, 2)], (_s[tdiv(_n, 2)] + _s[tdiv(_n, 2) - 1]) / 2))')],
   loops={1: {'facts': ['MOD_STEP(old._i + i, _n)'],
              'inv': [('inv', MF_OK), ('len', 'y.len == x.len'), ('pos', '_i == tmod(old._i + i, _n)'),
                      ('newest', 'Implies(i >= 1, _d[_i] == x[i - 1])'),
                      ('single', 'Implies(And(x.len == 1, i == 1), y[0] == If(tmod(_n, 2) == 1, _s[tdiv(_n, 2)], (_s[tdiv(_n, 2)] + _s[tdiv(_n, 2) - 1]) / 2))')]}})

from contracts.fir import mod_step   # noqa: E402
ENV['MOD_STEP'] = mod_step

fn('dsplib::MedianFilter::MedianFilter', MF, serves=['C16', 'C05'], extra_env=ENV, assigns=['this'],
   requires=[('size', 'n <= 1000000')], throws='n < 3',
   ensures=[('invariant', MF_OK), ('start', '_i == 0'),
            ('initial_history', 'forall(lambda t: Implies(And(0 <= t, t < _n), And(_d[t] == init_value, _s[t] == init_value)))')])

fn('dsplib::medfilt', MF, serves=['C16', 'C05'], extra_env=ENV, pure=True,
   requires=[('sizes', 'And(x.len >= 1, x.len <= 1000000, n <= 1000000)')], throws='n < 3',
   ensures=[('length', 'result.len == x.len')])
