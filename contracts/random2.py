"""C19 / C09: the remaining generators of lib/random.cpp (scalar draws, ranged blocks)."""
from engine.spec import fn
from contracts.random import ENV, RN, block

fn('dsplib::rand', RN, sig='dsplib::real_t ()', key='rand()', serves=['C19', 'C09', 'C05'], extra_env=ENV, assigns=['g_engine'], globals=['g_engine'], throws='False',
   ensures=[('value', 'result == UNI(0, old.g_engine, 0, 1)'), ('state', 'g_engine == E1_uniform_real(0, old.g_engine)')])
fn('dsplib::randn', RN, sig='dsplib::real_t ()', key='randn()', serves=['C19', 'C09', 'C05'], extra_env=ENV, assigns=['g_engine'], globals=['g_engine'], throws='False',
   ensures=[('value', 'result == NORMAL(0, old.g_engine, 0, 1)'), ('state', 'g_engine == E1_normal(0, old.g_engine)')])
block('dsplib::rand', 'dsplib::arr_real (std::array<real_t, 2>, int)', 'rand(range,n)', 'uniform_real', 'UNI',
      [('pair', 'range.len == 2'), ('size', 'n >= 0')], ', range[0], range[1]')
fn('dsplib::randi', RN, sig='dsplib::arr_int (int, int)', key='randi(imax,n)', serves=['C19', 'C09', 'C05'], extra_env=ENV, assigns=['g_engine'], globals=['g_engine'],
   requires=[('ordered', 'imax >= 1'), ('size', 'n >= 0')], throws='False',
   ensures=[('length', 'result.len == n'),
            ('stream', 'forall(lambda k: Implies(And(0 <= k, k < n), result[k] == UNII(DS_uniform_int(old.g_engine, k), ES_uniform_int(old.g_engine, k), 1, imax)))'),
            ('state', 'g_engine == ES_uniform_int(old.g_engine, n)')])
