"""C01 / C05 / C09 / C10: transform wrappers and plan objects (lib/fft/*.cpp)."""
from engine.spec import fn, inline_fn
from contracts.fftabs import ENV as FENV, DFT_RE, DFT_IM
import z3 as _z3

F = 'lib/fft/fft.cpp'
ENV = dict(FENV)

# fft(x, n): the transform of x zero-padded or truncated to n samples
for T, key in (('dsplib::arr_cmplx', 'cmplx'), ('dsplib::arr_real', 'real')):
    fn('dsplib::fft', F, sig='(const %s &, int)' % T, key='fft(%s,n)' % key, serves=['C01', 'C05'], pure=True, extra_env=ENV,
       requires=[('size', 'And(n >= 1, x.len >= 1)')], throws='False',
       ghost={'A': 'x'}, ghost_on=[('call:fft', None, {'A': 'arg0'})],
       ensures=[('length', 'result.len == n'),
                ('pad_or_truncate', 'And(A.len == n, forall(lambda k: Implies(And(0 <= k, k < n), eqv(A[k], If(k < x.len, x[k], 0)))))')],
       body_assumes=['INSLICE_AX()'])

# ---------------------------------------------------------------------------------------------------
FA = 'lib/fft/fact-fft.cpp'
fn('dsplib::(anon)::_facfft', FA, serves=['C01'], trusted=True, assigns=['x', 'mem'],
   requires=[('buffers', 'And(x.off == 0, mem.off == 0, head_n >= 1, x.target.len >= head_n, mem.target.len >= head_n)')],
   notes='assumed: in-place mixed-radix transform of x[0..n) using mem[0..n) as scratch (Cooley-Tukey recursion, not lowered)')

# a const solve() writes nothing reachable from the plan (plans may be shared between threads): frame = result only
fn('dsplib::FactorFFTPlan::solve', FA, serves=['C09', 'C05', 'C01'], pure=True, extra_env=ENV,
   requires=[('invariant', 'And(_n >= 1, _twiddle.len == _n)')],
   throws='x.len != _n',
   ensures=[('length', 'result.len == _n')])

# ---------------------------------------------------------------------------------------------------
# radix-2 plan: memory safety of the bit-reversal + butterfly cascade for every n = 2^l, and rejection of inputs of
# another length (C05: plan objects applied to inputs of another length)
P2 = 'lib/fft/pow2-fft.cpp'
P2_OK = ('And(l_ >= 2, l_ <= 30, n_ == pow2(l_), bitrev_.len == tdiv(n_, 2), coeffs_.len == n_, '
         'forall(lambda t: Implies(And(0 <= t, t < tdiv(n_, 2)), And(0 <= bitrev_[t], bitrev_[t] <= n_ - 2))))')


def pow2_facts(i, l):
    """facts about powers of two (checked by enumeration in engine/selftest.py): split of 2^l at position i"""
    from engine.core import pow2_ite
    return _z3.And(_z3.Implies(_z3.And(0 <= i, i < l, l <= 30), pow2_ite(l - 1 - i) * pow2_ite(i) * 2 == pow2_ite(l)),
                   _z3.Implies(_z3.And(0 <= i, i < l - 1, l <= 30), pow2_ite(l - 1 - i) == 2 * pow2_ite(l - 2 - i)),
                   _z3.Implies(_z3.And(0 <= i, i <= 30), pow2_ite(i + 1) == 2 * pow2_ite(i)))


ENV['POW2_FACTS'] = pow2_facts

fn('dsplib::(anon)::_bitreverse', P2, serves=['C01', 'C05'], extra_env=ENV, assigns=['y'],
   requires=[('buffers', 'And(x.off == 0, y.off == 0, bitrev.off == 0, n >= 2, tmod(n, 2) == 0, x.target.len >= n, y.target.len >= n, bitrev.target.len >= tdiv(n, 2))'),
             ('table', 'forall(lambda t: Implies(And(0 <= t, t < tdiv(n, 2)), And(0 <= bitrev[t], bitrev[t] <= n - 2)))')],
   ensures=[('permuted', 'forall(lambda t: Implies(And(0 <= t, t < tdiv(n, 2)), And(y[t] == x[bitrev[t]], y[tdiv(n, 2) + t] == x[bitrev[t] + 1])))')],
   loops={1: {'inv': [('done', 'forall(lambda t: Implies(And(0 <= t, t < i), And(y[t] == x[bitrev[t]], y[n2 + t] == x[bitrev[t] + 1])))')]}})

fn('dsplib::Pow2FftPlan::_fft', P2, serves=['C01', 'C05'], extra_env=ENV, assigns=['out'],
   requires=[('invariant', P2_OK), ('length', 'n == n_'),
             ('buffers', 'And(in_.off == 0, out.off == 0, in_.target.len >= n, out.target.len >= n)')],
   loops={1: {'facts': ['POW2_FACTS(i, l_)'],
              'inv': [('stage', 'And(h == pow2(i), r == 2 * h, m == If(i < l_, pow2(l_ - 1 - i), 0), cf.off == 0)')]},
          2: {'facts': ['POW2_FACTS(i, l_)'],
              'inv': [('cluster', 'And(px1.off == j * r, px2.off == j * r + h)')]},
          3: {'inv': []}})

fn('dsplib::Pow2FftPlan::solve', P2, sig='(const dsplib::cmplx_t *, dsplib::cmplx_t *, int) const', key='Pow2FftPlan::solve(ptr)',
   serves=['C01', 'C05'], extra_env=ENV, assigns=['y'],
   requires=[('invariant', P2_OK), ('buffers', 'And(x.off == 0, y.off == 0, n >= 0, x.target.len >= n, y.target.len >= n)')],
   throws='n != n_')
fn('dsplib::Pow2FftPlan::solve', P2, sig='(const dsplib::arr_cmplx &) const', key='Pow2FftPlan::solve(arr)',
   serves=['C01', 'C05', 'C09'], extra_env=ENV, pure=True,
   requires=[('invariant', P2_OK)],
   throws='x.len != n_',
   ensures=[('length', 'result.len == n_')])
