"""C01 / C05 / C09 / C10: transform wrappers and plan objects (lib/fft/*.cpp)."""
from engine.spec import fn, inline_fn
from contracts.fftabs import ENV as FENV, DFT_RE, DFT_IM
import z3 as _z3

F = 'lib/fft/fft.cpp'
ENV = dict(FENV)

# fft(x, n): the transform of x zero-padded or truncated to n samples
for T, key in (('dsplib::arr_cmplx', 'cmplx'), ('dsplib::arr_real', 'real')):
    fn('dsplib::fft', F, sig='(const %s &, int)' % T, key='fft(%s,n)' % key, serves=['C01', 'C05'], pure=True, extra_env=ENV,
       requires=[('size', 'And(n >= 1, x.len >= 1)')], throws='False',
       ghost={'A': 'x'}, ghost_on=[('call:fft', None, {'A': 'arg0'})],
       ensures=[('length', 'result.len == n'),
                ('pad_or_truncate', 'And(A.len == n, forall(lambda k: Implies(And(0 <= k, k < n), eqv(A[k], If(k < x.len, x[k], 0)))))')],
       body_assumes=['INSLICE_AX()'])

# ---------------------------------------------------------------------------------------------------
FA = 'lib/fft/fact-fft.cpp'
fn('dsplib::(anon)::_facfft', FA, serves=['C01'], trusted=True, assigns=['x', 'mem'],
   requires=[('buffers', 'And(x.off == 0, mem.off == 0, head_n >= 1, x.target.len >= head_n, mem.target.len >= head_n)')],
   notes='assumed: in-place mixed-radix transform of x[0..n) using mem[0..n) as scratch (Cooley-Tukey recursion, not lowered)')

# a const solve() writes nothing reachable from the plan (plans may be shared between threads): frame = result only
# the mixed-radix plan: size, twiddle table exp(-2 pi i k / n) for every k < n; the factorisation tree is built by a recursive
# constructor over raw pointers (no contract language for recursive heap structures here): assumed to touch only the new tree
fn('dsplib::PlanTree::PlanTree', FA, key='PlanTree::PlanTree', serves=['C01'], trusted=True, assigns=['this'], may_throw=True,
   ensures=[('accepted_size', 'n >= 2')],
   notes='assumed: building the factorisation tree (recursive, raw new / delete) touches nothing but the new tree and returns only for n >= 2 (its first statement is that assertion)')
from contracts.mathfun import LIBM as _LIBM2
_FENV = dict(ENV)
_FENV.update({k: v for k, v in _LIBM2.items() if k not in _FENV})
fn('dsplib::FactorFFTPlan::FactorFFTPlan', FA, key='FactorFFTPlan::FactorFFTPlan', serves=['C10', 'C01', 'C05'], assigns=['this'], may_throw=True, extra_env=_FENV,
   requires=[('size', 'And(n >= -1073741824, n <= 1073741824)')],
   ensures=[('invariant', 'And(_n >= 1, _twiddle.len == _n)'), ('size', '_n == n'),
            ('twiddles', 'forall(lambda k: Implies(And(0 <= k, k < n), And(_twiddle[k].re == COS(-2 * PI * ToReal(k) / ToReal(n)), _twiddle[k].im == SIN(-2 * PI * ToReal(k) / ToReal(n)))))')])
fn('dsplib::FactorFFTPlan::solve', FA, serves=['C09', 'C05', 'C01'], pure=True, extra_env=ENV,
   requires=[('invariant', 'And(_n >= 1, _twiddle.len == _n)')],
   throws='x.len != _n',
   ensures=[('length', 'result.len == _n')])

# ---------------------------------------------------------------------------------------------------
# radix-2 plan: memory safety of the bit-reversal + butterfly cascade for every n = 2^l, and rejection of inputs of
# another length (C05: plan objects applied to inputs of another length)
P2 = 'lib/fft/pow2-fft.cpp'
P2_OK = ('And(l_ >= 2, l_ <= 30, n_ == pow2(l_), bitrev_.len == tdiv(n_, 2), coeffs_.len == n_, '
         'forall(lambda t: Implies(And(0 <= t, t < tdiv(n_, 2)), And(0 <= bitrev_[t], bitrev_[t] <= n_ - 2))))')


def pow2_facts(i, l):
    """facts about powers of two (checked by enumeration in engine/selftest.py): split of 2^l at position i"""
    from engine.core import pow2_ite
    return _z3.And(_z3.Implies(_z3.And(0 <= i, i < l, l <= 30), pow2_ite(l - 1 - i) * pow2_ite(i) * 2 == pow2_ite(l)),
                   _z3.Implies(_z3.And(0 <= i, i < l - 1, l <= 30), pow2_ite(l - 1 - i) == 2 * pow2_ite(l - 2 - i)),
                   _z3.Implies(_z3.And(0 <= i, i <= 30), pow2_ite(i + 1) == 2 * pow2_ite(i)))


ENV['POW2_FACTS'] = pow2_facts

fn('dsplib::(anon)::_bitreverse', P2, serves=['C01', 'C05'], extra_env=ENV, assigns=['y'],
   requires=[('buffers', 'And(x.off == 0, y.off == 0, bitrev.off == 0, n >= 2, tmod(n, 2) == 0, x.target.len >= n, y.target.len >= n, bitrev.target.len >= tdiv(n, 2))'),
             ('table', 'forall(lambda t: Implies(And(0 <= t, t < tdiv(n, 2)), And(0 <= bitrev[t], bitrev[t] <= n - 2)))')],
   ensures=[('permuted', 'forall(lambda t: Implies(And(0 <= t, t < tdiv(n, 2)), And(y[t] == x[bitrev[t]], y[tdiv(n, 2) + t] == x[bitrev[t] + 1])))')],
   loops={1: {'inv': [('done', 'forall(lambda t: Implies(And(0 <= t, t < i), And(y[t] == x[bitrev[t]], y[n2 + t] == x[bitrev[t] + 1])))')]}})

fn('dsplib::Pow2FftPlan::_fft', P2, serves=['C01', 'C05'], extra_env=ENV, assigns=['out'],
   requires=[('invariant', P2_OK), ('length', 'n == n_'),
             ('buffers', 'And(in_.off == 0, out.off == 0, in_.target.len >= n, out.target.len >= n)')],
   loops={1: {'facts': ['POW2_FACTS(i, l_)'],
              'inv': [('stage', 'And(h == pow2(i), r == 2 * h, m == If(i < l_, pow2(l_ - 1 - i), 0), cf.off == 0)')]},
          2: {'facts': ['POW2_FACTS(i, l_)'],
              'inv': [('cluster', 'And(px1.off == j * r, px2.off == j * r + h)')]},
          3: {'inv': []}})

fn('dsplib::Pow2FftPlan::solve', P2, sig='(const dsplib::cmplx_t *, dsplib::cmplx_t *, int) const', key='Pow2FftPlan::solve(ptr)',
   serves=['C01', 'C05'], extra_env=ENV, assigns=['y'],
   requires=[('invariant', P2_OK), ('buffers', 'And(x.off == 0, y.off == 0, n >= 0, x.target.len >= n, y.target.len >= n)')],
   throws='n != n_')
fn('dsplib::Pow2FftPlan::solve', P2, sig='(const dsplib::arr_cmplx &) const', key='Pow2FftPlan::solve(arr)',
   serves=['C01', 'C05', 'C09'], extra_env=ENV, pure=True,
   requires=[('invariant', P2_OK)],
   throws='x.len != n_',
   ensures=[('length', 'result.len == n_')])

# ---------------------------------------------------------------------------------------------------
# tables of the radix-2 plan
from contracts.mathfun import LIBM as _LIBM
ENV.update(_LIBM)


def trig8(t):
    """reflection identities of cos/sin (A2) instantiated at t, and the axis values"""
    from engine.prelude import COS, SIN
    from engine.core import PI
    return _z3.And(COS(2 * PI - t) == COS(t), COS(PI + t) == -COS(t), COS(PI - t) == -COS(t),
                   SIN(PI / 2 + t) == COS(t), SIN(PI / 2 - t) == COS(t), SIN(3 * PI / 2 + t) == -COS(t), SIN(3 * PI / 2 - t) == -COS(t),
                   COS(0) == 1, SIN(0) == 0, COS(PI / 2) == 0, SIN(PI / 2) == 1, COS(PI) == -1, SIN(PI) == 0,
                   COS(3 * PI / 2) == 0, SIN(3 * PI / 2) == -1)


ENV['TRIG8'] = trig8
# twiddle W_n^k = exp(-2*pi*i*k/n), opaque in quantified clauses and revealed pointwise by TW_DEF
TWR = _z3.Function('tw_re', _z3.IntSort(), _z3.IntSort(), _z3.RealSort())
TWI = _z3.Function('tw_im', _z3.IntSort(), _z3.IntSort(), _z3.RealSort())


def tw_def(k, n):
    """definition of the opaque twiddle symbols at one index"""
    from engine.prelude import COS, SIN
    from engine.core import PI
    k = _z3.IntVal(k) if isinstance(k, int) else getattr(k, 'z', k)
    n = getattr(n, 'z', n)
    a = 2 * PI * _z3.ToReal(k) / _z3.ToReal(n)
    return _z3.And(TWR(k, n) == COS(a), TWI(k, n) == -SIN(a))


ENV.update({'TWR': TWR, 'TWI': TWI, 'TW_DEF': tw_def})
A_I = '2*PI*ToReal(i)/ToReal(n)'


def rng_inv(nm, lo, hi, part):
    e = 'res[k].re == TWR(k, n)' if part == 're' else 'res[k].im == TWI(k, n)'
    return (nm, 'forall(lambda k: Implies(And(%s < k, k < %s), %s))' % (lo, hi, e))


fn('dsplib::(anon)::_gen_coeffs_table', P2, serves=['C01', 'C05'], pure=True, extra_env=ENV,
   requires=[('size', 'And(n >= 4, tmod(n, 4) == 0)')],
   ensures=[('length', 'result.len == n'),
            ('twiddles', 'forall(lambda k: Implies(And(0 <= k, k < n), And(result[k].re == TWR(k, n), result[k].im == TWI(k, n))))')],
   loops={1: {'facts': ['TRIG8(%s)' % A_I,
                        'And(TW_DEF(i, n), TW_DEF(n - i, n), TW_DEF(n2 + i, n), TW_DEF(n2 - i, n), TW_DEF(n4 + i, n), TW_DEF(n4 - i, n), TW_DEF(n3 + i, n), TW_DEF(n3 - i, n), '
                        'TW_DEF(0, n), TW_DEF(n4, n), TW_DEF(n2, n), TW_DEF(n3, n))',
                        'And(2*PI*ToReal(n - i)/ToReal(n) == 2*PI - {a}, 2*PI*ToReal(n2 + i)/ToReal(n) == PI + {a}, 2*PI*ToReal(n2 - i)/ToReal(n) == PI - {a}, '
                        '2*PI*ToReal(n4 + i)/ToReal(n) == PI/2 + {a}, 2*PI*ToReal(n4 - i)/ToReal(n) == PI/2 - {a}, '
                        '2*PI*ToReal(n3 + i)/ToReal(n) == 3*PI/2 + {a}, 2*PI*ToReal(n3 - i)/ToReal(n) == 3*PI/2 - {a}, '
                        '2*PI*ToReal(n4)/ToReal(n) == PI/2, 2*PI*ToReal(n2)/ToReal(n) == PI, 2*PI*ToReal(n3)/ToReal(n) == 3*PI/2, 2*PI*ToReal(IntVal(0))/ToReal(n) == 0)'.format(a=A_I)],
              'inv': [('len', 'And(res.len == n, n == 4*n4, n2 == 2*n4, n3 == 3*n4, n4 >= 1)'),
                      ('axes', 'And(res[0].re == TWR(0, n), res[0].im == TWI(0, n), res[n4].re == TWR(n4, n), res[n4].im == TWI(n4, n), res[n2].re == TWR(n2, n), res[n2].im == TWI(n2, n), res[n3].re == TWR(n3, n), res[n3].im == TWI(n3, n))'),
                      rng_inv('re_q1', '0', 'i', 're'), rng_inv('re_q4', 'n - i', 'n', 're'),
                      rng_inv('re_q3', 'n2', 'n2 + i', 're'), rng_inv('re_q2', 'n2 - i', 'n2', 're'),
                      rng_inv('im_q2', 'n4', 'n4 + i', 'im'), rng_inv('im_q1', 'n4 - i', 'n4', 'im'),
                      rng_inv('im_q4', 'n3', 'n3 + i', 'im'), rng_inv('im_q3', 'n3 - i', 'n3', 'im')]}})

fn('dsplib::(anon)::_gen_bitrev_table', P2, serves=['C01', 'C05'], pure=True, extra_env=ENV,
   requires=[('size', 'And(n >= 4, exists(lambda k: And(2 <= k, k <= 30, n == pow2(k))))')],
   ensures=[('length', 'result.len == tdiv(n, 2)'),
            ('range', 'forall(lambda t: Implies(And(0 <= t, t < tdiv(n, 2)), And(0 <= result[t], result[t] <= n - 2)))')],
   loops={1: {'facts': ['POW2_FACTS(i, s - 1)'],
              'inv': [('stage', 'And(0 <= i, i <= s - 1, h == pow2(i), res.len == tdiv(n, 2), n == pow2(s), s >= 2, s <= 30)'),
                      ('range', 'forall(lambda t: Implies(And(0 <= t, t < res.len), And(0 <= res[t], res[t] < h)))')],
              'dec': 's - 1 - i'},
          2: {'facts': ['POW2_FACTS(i, s - 1)'],
              'inv': [('range_lo', 'forall(lambda t: Implies(And(0 <= t, t < k), And(0 <= res[t], res[t] < 2 * h)))'),
                      ('range_hi', 'forall(lambda t: Implies(And(h <= t, t < h + k), And(0 <= res[t], res[t] < 2 * h)))'),
                      ('range_rest', 'forall(lambda t: Implies(And(0 <= t, t < res.len, Or(t >= h + k, And(t >= k, t < h))), And(0 <= res[t], res[t] < h)))')]},
          3: {'inv': [('doubled', 'forall(lambda t: Implies(And(0 <= t, t < i), And(0 <= res[t], res[t] <= n - 2)))'),
                      ('pending', 'forall(lambda t: Implies(And(i <= t, t < res.len), And(0 <= res[t], 2 * res[t] <= n - 2)))')]}})

fn('dsplib::Pow2FftPlan::Pow2FftPlan', P2, serves=['C01', 'C05'], assigns=['this'], extra_env=ENV,
   requires=[('size', 'n >= 4')],
   throws='Not(exists(lambda k: And(0 <= k, k <= 30, n == pow2(k))))',
   ensures=[('invariant', P2_OK),
            ('size', 'n_ == n'),
            ('twiddles', 'forall(lambda k: Implies(And(0 <= k, k < n), And(coeffs_[k].re == TWR(k, n), coeffs_[k].im == TWI(k, n))))')])

# ---------------------------------------------------------------------------------------------------
# even-size real plan: packing into a half-size complex transform and untangling
fn('dsplib::BaseFftPlanC::solve', F, sig='(const dsplib::arr_cmplx &) const', key='BaseFftPlanC::solve(arr)', serves=['C01'], trusted=True, pure=True, extra_env=ENV,
   requires=[('nonempty', 'x.len >= 1')],
   ensures=[('length', 'result.len == x.len'),
            ('is_dft', 'And(same(re_data(result), DFT_RE(re_data(x), im_data(x), x.len)), same(im_data(result), DFT_IM(re_data(x), im_data(x), x.len)))')],
   notes='assumed: a complex plan of the right size returns the transform of its input (virtual call through the plan interface)')

RF_OK = 'And(n_ >= 2, tmod(n_, 2) == 0, w_.len == tdiv(n_, 2), w_[0].re == 1, w_[0].im == 0)'
UNT = '(Z[K] + Z[n2 - K].conj()) + cx(0, 1) * ((Z[n2 - K].conj() - Z[K]) * w_[K])'
fn('dsplib::RealFftPlan::solve', F, serves=['C01', 'C05', 'C09'], pure=True, extra_env=ENV,
   requires=[('invariant', RF_OK), ('ghost', 'And(1 <= k0, k0 < tdiv(n_, 2))')],
   lets={'n2': 'tdiv(n_, 2)', 'k0': 'ghost_int("bin")'},
   throws='x.len != n_',
   ensures=[('length', 'result.len == n_'),
            # untangling step written from the textbook identity X[k] = (Z[k] + conj Z[n/2-k]) + i*w[k]*(conj Z[n/2-k] - Z[k])
            ('untangle', 'exists_w(lambda ZR, ZI: result[k0] == ' + UNT.replace('Z[K]', 'cx(ZR[k0], ZI[k0])').replace('Z[n2 - K]', 'cx(ZR[n2 - k0], ZI[n2 - k0])').replace('w_[K]', 'w_[k0]') + ', re_data(Z), im_data(Z))'),
            ('conjugate_symmetric', 'And(result[n_ - k0].re == result[k0].re, result[n_ - k0].im == -result[k0].im)'),
            ('real_dc_and_nyquist', 'And(result[0].im == 0, result[n2].im == 0)')],
   loops={1: {'inv': [('len', 'And(res.len == n_, Z.len == n2)'),
                      ('dc', 'res[0].im == 0'),
                      ('done', 'Implies(k0 < i, And(res[k0] == ' + UNT.replace('K', 'k0') + ', res[n_ - k0].re == res[k0].re, res[n_ - k0].im == -res[k0].im))')]}})

# (building the half-size complex plan goes through the per-thread cache and may throw with it: contracts/plancache.py)
fn('dsplib::RealFftPlan::RealFftPlan', F, serves=['C01', 'C05'], assigns=['this', 'cplan_cache'], globals=['cplan_cache'], extra_env=ENV,
   requires=[('size', 'And(n >= 2, n <= 2000000)')],
   may_throw=True,
   ensures_exc=[],
   post_facts=['TRIG8(0)', '-2 * PI * ToReal(IntVal(0)) / ToReal(n) == 0'],
   ensures=[('invariant', RF_OK), ('size', 'n_ == n'), ('even', 'tmod(n, 2) == 0'),
            ('twiddles', 'forall(lambda k: Implies(And(0 <= k, k < tdiv(n, 2)), And(w_[k].re == COS(-2 * PI * ToReal(k) / ToReal(n)), w_[k].im == SIN(-2 * PI * ToReal(k) / ToReal(n)))))')])
