"""Remaining small functions: complex cumulative sums and integer powers of complex arrays, normalised errors, member forms of
next_size / prev_size, deprecated range() forwards."""
from engine.spec import fn, inline_fn
from contracts.mathfun3 import ENV as MENV, M, RA, CA, CPW

ENV = dict(MENV)
DRV = 'drivers/instantiate.cpp'

fn('dsplib::_cumsum', M, sig='(const base_array<dsplib::cmplx_t> &, bool)', key='_cumsum<cmplx>', serves=['C17', 'C05'], pure=True, extra_env=ENV, throws='False',
   ensures=[('length', 'result.len == x.len'),
            ('forward', 'Implies(Not(reverse), forall(lambda k: Implies(And(0 <= k, k < x.len), And(result[k].re == SUMR(re_data(x), k + 1), result[k].im == SUMR(im_data(x), k + 1)))))'),
            ('reverse', 'Implies(reverse, forall(lambda k: Implies(And(0 <= k, k < x.len), And(result[k].re == SUMR(re_data(x), x.len) - SUMR(re_data(x), k), result[k].im == SUMR(im_data(x), x.len) - SUMR(im_data(x), k)))))')],
   loops={1: {'facts': ['SUMR_BASE(re_data(x))', 'SUMR_STEP(re_data(x), 0)', 'SUMR_STEP(re_data(x), i)', 'SUMR_BASE(im_data(x))', 'SUMR_STEP(im_data(x), 0)', 'SUMR_STEP(im_data(x), i)'],
              'inv': [('len', 'And(r.len == x.len, n == x.len)'),
                      ('done', 'forall(lambda k: Implies(And(0 <= k, k < i), And(r[k].re == SUMR(re_data(x), k + 1), r[k].im == SUMR(im_data(x), k + 1))))'),
                      ('todo', 'forall(lambda k: Implies(And(i <= k, k < n), same(r[k], x[k])))')]},
          2: {'facts': ['SUMR_STEP(re_data(x), i)', 'SUMR_STEP(re_data(x), i + 1)', 'SUMR_STEP(re_data(x), n - 1)', 'SUMR_STEP(im_data(x), i)', 'SUMR_STEP(im_data(x), i + 1)', 'SUMR_STEP(im_data(x), n - 1)'],
              'inv': [('len', 'And(r.len == x.len, n == x.len, i >= -2, i <= n - 2)'),
                      ('done', 'forall(lambda k: Implies(And(i < k, 0 <= k, k < n), And(r[k].re == SUMR(re_data(x), n) - SUMR(re_data(x), k), r[k].im == SUMR(im_data(x), n) - SUMR(im_data(x), k))))'),
                      ('todo', 'forall(lambda k: Implies(And(0 <= k, k <= i), same(r[k], x[k])))')],
              'dec': 'i + 2'}})
fn('dsplib::cumsum', M, sig='dsplib::arr_cmplx (const dsplib::arr_cmplx &, dsplib::Direction)', key='cumsum(arr_cmplx)', serves=['C17', 'C05'], pure=True, extra_env=ENV,
   requires=[('direction', 'Or(dir == 0, dir == 1)')], throws='False',
   ensures=[('length', 'result.len == x.len'),
            ('forward', 'Implies(dir == 1, forall(lambda k: Implies(And(0 <= k, k < x.len), And(result[k].re == SUMR(re_data(x), k + 1), result[k].im == SUMR(im_data(x), k + 1)))))')])

fn('dsplib::nmse', DRV, sig='dsplib::real_t (const dsplib::arr_real &, const dsplib::arr_real &)', key='nmse(real)', serves=['C17', 'C05'], pure=True, extra_env=ENV,
   requires=['x.len >= 1'], throws='x.len != y.len',
   ghost={'MS': 'RealVal(0)', 'EN': 'RealVal(0)'}, ghost_on=[('ret:mse', None, {'MS': 'arg'}), ('ret:sum', None, {'EN': 'arg'})],
   ensures=[('ratio', 'result == MS / EN')])

# integer powers of a complex array: ones for 0, the array itself for 1, otherwise element by element
fn('dsplib::_power', M, sig='(const base_array<dsplib::cmplx_t> &, int)', key='_power(arr_cmplx,int)', serves=['C17', 'C05'], pure=True, extra_env=ENV, throws='False',
   ensures=[('length', 'result.len == x.len'),
            ('zero', 'Implies(n == 0, forall(lambda k: Implies(And(0 <= k, k < x.len), And(result[k].re == 1, result[k].im == 0))))'),
            ('one', 'Implies(n == 1, forall(lambda k: Implies(And(0 <= k, k < x.len), same(result[k], x[k]))))'),
            ('square', 'Implies(n == 2, forall(lambda k: Implies(And(0 <= k, k < x.len), And(result[k].re == x[k].re * x[k].re - x[k].im * x[k].im, result[k].im == 2 * x[k].re * x[k].im))))'),
            ('general', 'Implies(And(n != 2, n != -1, n != 0, n != 1), forall(lambda k: Implies(And(0 <= k, k < x.len), %s)))' % CPW('result[k]', 'x[k]', 'ToReal(n)'))],
   loops={1: {'inv': [('len', 'r.len == x.len'),
                      ('square', 'Implies(n == 2, forall(lambda k: Implies(And(0 <= k, k < i), And(r[k].re == x[k].re * x[k].re - x[k].im * x[k].im, r[k].im == 2 * x[k].re * x[k].im))))'),
                      ('general', 'Implies(And(n != 2, n != -1, n != 0, n != 1), forall(lambda k: Implies(And(0 <= k, k < i), %s)))' % CPW('r[k]', 'x[k]', 'ToReal(n)'))]}})
fn('dsplib::nmse', DRV, sig='dsplib::real_t (const dsplib::arr_cmplx &, const dsplib::arr_cmplx &)', key='nmse(cmplx)', serves=['C17', 'C05'], pure=True, extra_env=ENV,
   requires=['x.len >= 1'], throws='x.len != y.len',
   ghost={'MS': 'RealVal(0)', 'EN': 'RealVal(0)'}, ghost_on=[('ret:mse', None, {'MS': 'arg'}), ('ret:sum', None, {'EN': 'arg'})],
   ensures=[('ratio', 'result == MS / EN')])
inline_fn('dsplib::Delay<dsplib::cmplx_t>::Delay', 'dsplib::FirFilter<dsplib::cmplx_t>::FirFilter')
from contracts.resample import ENV as RENV
for nm in ('next_size', 'prev_size'):
    fn('dsplib::IResampler::' + nm, DRV, sig='int (int) const', key='IResampler::%s(size)' % nm, serves=['C08', 'C05'], pure=True, extra_env=RENV, may_throw=True,
       requires=[('size', 'And(size >= 0, size <= 1000000)')],
       ghost={'P': '-1', 'Q': '-1', 'SZ': '-1'}, ghost_on=[('call:' + nm, None, {'SZ': 'arg0', 'P': 'arg1', 'Q': 'arg2'})],
       ensures=[('forwards_size', 'SZ == size')])
fn('dsplib::power', M, sig='dsplib::arr_cmplx (const dsplib::arr_cmplx &, int)', key='power(arr_cmplx,int)', serves=['C17', 'C05'], pure=True, extra_env=ENV, throws='False',
   ensures=[('length', 'result.len == x.len'),
            ('square', 'Implies(n == 2, forall(lambda k: Implies(And(0 <= k, k < x.len), And(result[k].re == x[k].re * x[k].re - x[k].im * x[k].im, result[k].im == 2 * x[k].re * x[k].im))))'),
            ('general', 'Implies(And(n != 2, n != -1, n != 0, n != 1), forall(lambda k: Implies(And(0 <= k, k < x.len), %s)))' % CPW('result[k]', 'x[k]', 'ToReal(n)'))])
