"""C18: the parts of the delay estimators that are index arithmetic or exact algebra.

delayseq(x, d): result[k] = x[k - d] where that exists, 0 elsewhere, for every d and length (both element types).
peakloc (real): the returned abscissa is the vertex of the parabola through the samples at idx-1, idx, idx+1 (cyclic
neighbours when asked for): stated as "there is a parabola through the three points whose derivative vanishes at the result".
peakloc (complex): the three-bin estimator idx - Re[(x[r] - x[l]) / (2 x[k] - x[l] - x[r])] the code documents itself to be
(used by gccphat on the phase-transform correlation; not the parabola vertex).
Not decided: that finddelay / gccphat / the preamble detector recover the true offset of a random signal (statistical)."""
from engine.spec import fn, inline_fn

DRV = 'drivers/instantiate.cpp'
U = 'lib/utils.cpp'

# delayseq: contracts/mathfun.py (delayseq<cmplx_t> does not compile: base_array<cmplx_t> res = zeros(N) is rejected by array.h)

# vertex of the parabola through (idx-1, yl), (idx, yk), (idx+1, yr)
NB = {'yl': 'x[tmod(idx - 1 + x.len, x.len)]', 'yk': 'x[idx]', 'yr': 'x[tmod(idx + 1, x.len)]'}
fn('dsplib::peakloc', U, sig='(const dsplib::arr_real &, int, bool)', key='peakloc(real)', serves=['C18', 'C05'], pure=True,
   requires=[('index', 'And(x.len >= 1, 0 <= idx, idx < x.len, x.len <= 1073741823)')], throws='False',
   lets=dict(NB, I='ToReal(idx)'),
   ensures=[('edge', 'Implies(And(Not(cyclic), Or(idx == 0, idx == x.len - 1)), result == I)'),
            ('vertex', 'when(And(Or(cyclic, And(idx != 0, idx != x.len - 1)), yl - 2*yk + yr != 0), lambda: '
                       'exists_w(lambda A, B, C: And(A*(I-1)*(I-1) + B*(I-1) + C == yl, A*I*I + B*I + C == yk, A*(I+1)*(I+1) + B*(I+1) + C == yr, 2*A*result + B == 0), '
                       'a, b - 2*a*(I-1), a*(I-1)*(I-1) - b*(I-1) + yl))')])

# three-bin estimator on complex data (as the code documents itself; used by gccphat)
fn('dsplib::peakloc', U, sig='(const dsplib::arr_cmplx &, int, bool)', key='peakloc(cmplx)', serves=['C18', 'C05'], pure=True,
   requires=[('index', 'And(x.len >= 1, 0 <= idx, idx < x.len, x.len <= 1073741823)')], throws='False',
   lets=dict(NB, I='ToReal(idx)'),
   ensures=[('edge', 'Implies(And(Not(cyclic), Or(idx == 0, idx == x.len - 1)), result == I)'),
            ('three_bin', 'Implies(Or(cyclic, And(idx != 0, idx != x.len - 1)), result == I - ((yr - yl) / (2 * yk - yl - yr)).re)')])

# ---------------------------------------------------------------------------------------------------
A2 = lambda i: '(arr[%s].re * arr[%s].re + arr[%s].im * arr[%s].im)' % (i, i, i, i)
for nm, cmpn, cmps in (('argmax', '<=', '<'), ('argmin', '>=', '>')):
    fn('dsplib::' + nm, 'lib/math.cpp', sig='int (const dsplib::arr_cmplx &)', key=nm + '(cmplx)', serves=['C18', 'C17', 'C05'], pure=True,
       requires=[('nonempty', 'arr.len >= 1')], throws='False',
       ensures=[('range', 'And(0 <= result, result < arr.len)'),
                ('first_extremum_of_magnitude', 'And(forall(lambda k: Implies(And(0 <= k, k < arr.len), %s %s %s)), forall(lambda k: Implies(And(0 <= k, k < result), %s %s %s)))'
                 % (A2('k'), cmpn, A2('result'), A2('k'), cmps, A2('result')))])
for nm, cmpn in (('max', '<='), ('min', '>=')):
    fn('dsplib::' + nm, 'lib/math.cpp', sig='dsplib::cmplx_t (const dsplib::arr_cmplx &)', key=nm + '(cmplx)', serves=['C17', 'C05'], pure=True,
       requires=[('nonempty', 'arr.len >= 1')], throws='False',
       ensures=[('is_element', 'exists(lambda j: And(0 <= j, j < arr.len, arr[j].re == result.re, arr[j].im == result.im))'),
                ('extremal_magnitude', 'forall(lambda k: Implies(And(0 <= k, k < arr.len), %s %s result.re * result.re + result.im * result.im))' % (A2('k'), cmpn))])

# gccphat: lag unwrapping of the interpolated peak, times 1/fs. pk is the ghost copy of what peakloc returned
G = 'lib/gccphat.cpp'
fn('dsplib::gccphat', G, sig='(const dsplib::arr_real &, const dsplib::arr_real &, int)', key='gccphat(sig,ref,fs)', serves=['C18', 'C05'], pure=True,
   requires=[('lengths', 'And(sig.len >= 1, sig.len <= 1073741823, refsig.len >= 1, fs >= 1)')],
   throws='sig.len != refsig.len',
   ghost={'pk': 'RealVal(0)'}, ghost_on=[('ret:peakloc', None, {'pk': 'arg'})],
   ensures=[('lag_unwrapped', 'result.tau == If(pk < ToReal(tdiv(sig.len, 2)), pk, pk - ToReal(sig.len)) * (1 / ToReal(fs))'),
            ('correlation_length', 'result.corr.len == sig.len')])
