"""C10: the plan cache (lib/lru-cache.h) against its abstract view.

View of an LRUCache: the sequence of (key, value) pairs in recency order, KEY(j) / VAL(j) for j < LEN, read off the real
members (items_list_ order -> node -> pair). Every operation is specified on the whole view:
  put(k, v)  -> view' = [(k, v)] ++ (view without k), cut to max_size_ entries (the last one is dropped)
  get(k)     -> throws unless k is cached; returns the cached value; view' = [(k, v)] ++ (view without k)
  exists(k)  -> k in view; nothing changes
Representation invariant LRU_OK ties the map to the list (each cached key maps to the live node carrying that key, each
linked node's key is cached and maps back to the node, sizes agree, at most max_size_ entries).
Proved on the instantiation LRUCache<int, int> (drivers/lru.cpp); the library's two instantiations differ only in Value,
which the template never inspects."""
from engine.spec import fn

TU = 'drivers/lru.cpp'
C = 'dsplib::LRUCache<int, int>::'
L, M = 'items_list_', 'items_map_'


def key_at(j, old=False):
    p = 'old.' if old else ''
    return '%s%s.nodes[%s%s.order[%s]].first' % (p, L, p, L, j)


def val_at(j, old=False):
    p = 'old.' if old else ''
    return '%s%s.nodes[%s%s.order[%s]].second' % (p, L, p, L, j)


def lru_ok(p=''):
    l, m = p + L, p + M
    return ('And({p}max_size_ >= 1, {m}.size == {l}.order.len, {l}.order.len <= {p}max_size_, '
            'forall(lambda k: Implies({m}.has[k], And(0 <= {m}.val[k], {m}.val[k] < {l}.nodes.len, {l}.nodes[{m}.val[k]].first == k, '
            '0 <= {l}.pos[{m}.val[k]], {l}.pos[{m}.val[k]] < {l}.order.len))), '
            'forall(lambda j: Implies(And(0 <= j, j < {l}.order.len), And({m}.has[{l}.nodes[{l}.order[j]].first], '
            '{m}.val[{l}.nodes[{l}.order[j]].first] == {l}.order[j]))))').format(p=p, l=l, m=m)


OK = lru_ok()
P0 = 'old.%s.pos[old.%s.val[key]]' % (L, M)       # position of `key` in the old view (when cached)
SAME = 'And(%s == %s, %s == %s)'


def shifted(lo, hi, src):
    """entries lo <= j < hi of the new view equal entries src(j) of the old one"""
    return ('forall(lambda j: Implies(And(%s <= j, j < %s), And(%s == %s, %s == %s)))'
            % (lo, hi, key_at('j'), key_at(src, True), val_at('j'), val_at(src, True)))


fn(C + 'LRUCache', TU, serves=['C10', 'C05'], assigns=['this'],
   requires=[('capacity', 'max_size >= 1')],
   ensures=[('invariant', OK), ('empty', '%s.order.len == 0' % L), ('capacity', 'max_size_ == max_size')])

fn(C + 'exists', TU, serves=['C10', 'C05'], pure=True,
   requires=[('invariant', OK)],
   ensures=[('cached', 'result == %s.has[key]' % M),
            ('in_view', 'result == exists(lambda j: And(0 <= j, j < %s.order.len, %s == key))' % (L, key_at('j')))])

fn(C + 'size', TU, serves=['C10', 'C05'], pure=True,
   requires=[('invariant', OK)],
   ensures=[('count', 'result == %s.order.len' % L), ('bounded', 'result <= max_size_')])

fn(C + 'get', TU, serves=['C10', 'C05'], assigns=['this.%s' % L],
   requires=[('invariant', OK)],
   throws='Not(%s.has[key])' % M,
   returns_ref=True,
   ensures=[('invariant', OK),
            ('value', 'result == %s' % val_at(P0, True)),
            ('most_recent', 'And(%s == key, %s == %s)' % (key_at('0'), val_at('0'), val_at(P0, True))),
            ('count', '%s.order.len == old.%s.order.len' % (L, L)),
            ('older_shift_down', shifted('1', P0 + ' + 1', 'j - 1')),
            ('rest_unchanged', shifted(P0 + ' + 1', L + '.order.len', 'j')),
            ('capacity', 'max_size_ == old.max_size_')])

fn(C + 'put', TU, serves=['C10', 'C05'], assigns=['this.%s' % L, 'this.%s' % M],
   requires=[('invariant', OK)],
   ensures=[('invariant', OK),
            ('most_recent', 'And(%s == key, %s == value)' % (key_at('0'), val_at('0'))),
            ('count', '{l}.order.len == If(old.{m}.has[key], old.{l}.order.len, If(old.{l}.order.len < max_size_, old.{l}.order.len + 1, max_size_))'.format(l=L, m=M)),
            ('hit_older_shift_down', 'Implies(old.%s.has[key], %s)' % (M, shifted('1', P0 + ' + 1', 'j - 1'))),
            ('hit_rest_unchanged', 'Implies(old.%s.has[key], %s)' % (M, shifted(P0 + ' + 1', L + '.order.len', 'j'))),
            ('miss_all_shift_down', 'Implies(Not(old.%s.has[key]), %s)' % (M, shifted('1', L + '.order.len', 'j - 1'))),
            ('capacity', 'max_size_ == old.max_size_')])
