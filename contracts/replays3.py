"""More native demonstrations by area (see contracts/replays2.py)."""
from engine.replay import adapter
from contracts.replays import HDR, I


@adapter(r'FIRDecimator::FIRDecimator|FIRInterpolator::FIRInterpolator|FIRRateConverter::FIRRateConverter|polyphase')
def multirate_chain(o):
    """C08/C05: interpolator and decimator built on a symmetric coefficient vector of any length against the textbook chain
    (zero-stuff, filter with h normalised to DC gain L, keep every M-th sample at the library's fixed phase)"""
    return HDR + '''
int main() { for (int R = 2; R <= 5; ++R) for (int nh = 2; nh <= 4 * R + 3; ++nh) { arr_real h(nh); for (int i = 0; i < nh; ++i) h[i] = 1.0 + std::min(i, nh - 1 - i) * 0.5;   // symmetric
    const double s = sum(h); arr_real x(40); for (int i = 0; i < 40; ++i) x[i] = std::sin(0.7 * i) + 0.1 * (i % 5);
    { FIRInterpolator f(R, h); arr_real y = f.process(x); if (y.size() != 40 * R) { std::printf("FIRInterpolator(%d, h[%d]): %d samples\\n", R, nh, y.size()); return 1; }
      for (int n = 0; n < y.size(); ++n) { double e = 0; for (int k = 0; k < 40; ++k) { int j = n - k * R; if (j >= 0 && j < nh) e += h[j] * R / s * x[k]; }
        if (std::fabs(y[n] - e) > 1e-9) { std::printf("FIRInterpolator(%d, h[%d]): y[%d] = %g, textbook chain %g\\n", R, nh, n, y[n], e); return 1; } } }
    { arr_real xd(40 * R); for (int i = 0; i < xd.size(); ++i) xd[i] = std::cos(0.3 * i) + 0.05 * (i % 7);
      FIRDecimator f(R, h); arr_real y = f.process(xd); if (y.size() != 40) { std::printf("FIRDecimator(%d, h[%d]): %d samples\\n", R, nh, y.size()); return 1; }
      const int Np = (nh + R - 1) / R * R, phi = nh - 1 - Np + R;
      for (int k = 0; k < 40; ++k) { double e = 0; for (int i = 0; i < xd.size(); ++i) { int j = k * R - i + phi; if (j >= 0 && j < nh) e += h[j] / s * xd[i]; }
        if (std::fabs(y[k] - e) > 1e-9) { std::printf("FIRDecimator(%d, h[%d]): y[%d] = %g, textbook chain %g\\n", R, nh, k, y[k], e); return 1; } } } }
  return 0; }
'''


@adapter(r'_welch<|welch\(|_mscohere|mscohere')
def spectral_estimates(o):
    """C13: welch (real input) against the direct average of windowed periodograms with winlen/2 overlap, Nyquist bin included;
    mscohere of a scaled copy equals 1 at every level"""
    return HDR + '''
int main() {
  for (int winlen : {16, 24, 50}) { const int nfft = 1 << nextpow2(winlen); const int hop = winlen - winlen / 2; arr_real x(winlen + 9 * hop);
    for (int i = 0; i < x.size(); ++i) x[i] = ((i & 1) ? -1.0 : 1.0) + 0.3 * std::sin(0.41 * i);          // energy in the Nyquist bin
    arr_real w = window::hann(winlen, false); auto r = welch(x, w, SpectrumType::Power);
    if (r.pxx.size() != nfft / 2 + 1) { std::printf("welch(winlen %d): %d bins\\n", winlen, r.pxx.size()); return 1; }
    double wsum = 0; for (int i = 0; i < winlen; ++i) wsum += w[i]; int nseg = 0; arr_real acc(nfft / 2 + 1);
    for (int p = 0; p + winlen <= x.size(); p += hop) { ++nseg; for (int k = 0; k <= nfft / 2; ++k) { double re = 0, im = 0;
        for (int n = 0; n < winlen; ++n) { double ph = -2 * pi * double((long)n * k % nfft) / nfft; re += w[n] * x[p + n] * std::cos(ph); im += w[n] * x[p + n] * std::sin(ph); }
        double pw = (re * re + im * im) / (wsum * wsum); acc[k] += (k == 0 || k == nfft / 2) ? pw : 2 * pw; } }
    for (int k = 0; k <= nfft / 2; ++k) { double e = acc[k] / nseg; if (std::fabs(r.pxx[k] - e) > 1e-9 * (1 + e)) { std::printf("welch(winlen %d, power): bin %d = %g, average of %d windowed periodograms %g\\n", winlen, k, r.pxx[k], nseg, e); return 1; } } }
  for (double level : {1.0, 1e-3, 1e-6, 1e-9}) { arr_real a(512), b(512); for (int i = 0; i < 512; ++i) { a[i] = level * (std::sin(0.37 * i) + 0.5 * std::cos(1.1 * i) + 0.01 * ((i * 7919) % 13)); b[i] = -2.5 * a[i]; }
    arr_real c = mscohere(a, b, 64); for (int k = 0; k < c.size(); ++k) if (std::fabs(c[k] - 1) > 1e-6) { std::printf("mscohere of a scaled copy at level %g: bin %d = %g\\n", level, k, c[k]); return 1; } }
  return 0; }
'''


@adapter(r'(FIRDecimator|FIRInterpolator|FIRRateConverter)::process/bounds:memcpy\.nonnull')
def resampler_null_memcpy(o):
    """C05: a filter no longer than the rate factor leaves an empty history, and an empty frame has no data: the resamplers
    must not hand null pointers to memcpy (undefined behaviour whatever the size; reported by UBSan)"""
    return HDR + '''
int main() { arr_real h = {1.0, 1.0}; arr_real x(12); for (int i = 0; i < 12; ++i) x[i] = i; arr_real e;
  { FIRInterpolator f(3, h); f.process(x); f.process(e); }
  { FIRDecimator f(3, h); f.process(x); f.process(e); }
  { FIRRateConverter f(3, 2, h); f.process(x); f.process(e); }
  { FIRInterpolator f(3); f.process(e); FIRDecimator g(3); g.process(e); FIRRateConverter r(3, 2); r.process(e); }
  return 0; }
'''


@adapter(r'statics\(lib/random\.cpp\)|dsplib::rng|randn|randi|dsplib::rand|awgn')
def random_streams(o):
    """C19/C09: rng(seed) replays the stream whatever was drawn before (odd and even block lengths), and seeding in one thread
    does not change what a thread started later draws; randi stays inside its inclusive bounds (negative ranges too) and reaches both"""
    return '#include <thread>\n' + HDR + '''
static bool eq(const arr_real& a, const arr_real& b) { if (a.size() != b.size()) return false; for (int i = 0; i < a.size(); ++i) if (a[i] != b[i]) return false; return true; }
int main() { rng(5); arr_real ref = randn(16); arr_real uref = rand(9); arr_int iref = randi(100, 7);
  for (int pre : {0, 1, 2, 3, 7}) { rng(99); if (pre) (void)randn(pre); rng(5); arr_real a = randn(16); arr_real u = rand(9); arr_int ii = randi(100, 7);
    if (!eq(a, ref) || !eq(u, uref)) { std::printf("after %d earlier draws rng(5) does not replay the stream (first sample %g, expected %g)\\n", pre, a[0], ref[0]); return 1; }
    for (int k = 0; k < 7; ++k) if (ii[k] != iref[k]) { std::printf("randi stream not replayed\\n"); return 1; } }
  for (int lo : {-10, -5, -4, 0, 3}) for (int hi : {-4, -2, -1, 0, 7}) { if (lo > hi) continue; rng(lo * 31 + hi); bool sawlo = false, sawhi = false;
    for (int k = 0; k < 4000; ++k) { int v = randi({lo, hi}); if (v < lo || v > hi) { std::printf("randi({%d, %d}) returned %d\\n", lo, hi, v); return 1; } sawlo |= (v == lo); sawhi |= (v == hi); }
    arr_int blk = randi({lo, hi}, 500); for (int k = 0; k < 500; ++k) if (blk[k] < lo || blk[k] > hi) { std::printf("randi({%d, %d}, 500)[%d] = %d\\n", lo, hi, k, blk[k]); return 1; }
    if (hi - lo <= 8 && !(sawlo && sawhi)) { std::printf("randi({%d, %d}): 4000 draws never returned %s\\n", lo, hi, sawlo ? "the upper bound" : "the lower bound"); return 1; } }
  arr_real fresh; { std::thread t([&]{ fresh = randn(8); }); t.join(); }          // what a new thread draws without any seeding anywhere... this thread has seeded already:
  rng(12345); arr_real later; { std::thread t([&]{ later = randn(8); }); t.join(); }
  rng(777); arr_real later2; { std::thread t([&]{ later2 = randn(8); }); t.join(); }
  if (!eq(later, later2)) { std::printf("a thread started after rng(777) in another thread draws a different sequence than one started after rng(12345)\\n"); return 1; }
  return 0; }
'''


@adapter(r'_left_descent|_right_descent|_locate_peak|_get_psd_tone|dsplib::(snr|sinad|thd)')
def snr_scale_invariance(o):
    """C19: snr / sinad / thd of a signal do not depend on its scale (same tone set, levels from 1 down to 1e-9)"""
    return HDR + '''
int main() { const int n = 4096; arr_real x(n); for (int i = 0; i < n; ++i) x[i] = std::sin(2 * pi * 0.0371 * i) + 0.01 * std::sin(2 * pi * 0.0742 * i) + 1e-4 * std::sin(12.9898 * i * i);
  const double s0 = snr(x), d0 = sinad(x), t0 = thd(x).value;
  for (double g : {1e-3, 1e-6, 1e-8, 1e-9, 1e3}) { arr_real y = x * g; const double s = snr(y), d = sinad(y), t = thd(y).value;
    if (std::fabs(s - s0) > 0.05 || std::fabs(d - d0) > 0.05 || std::fabs(t - t0) > 0.05) { std::printf("scale %g: snr %g (was %g), sinad %g (was %g), thd %g (was %g)\\n", g, s, s0, d, d0, t, t0); return 1; } }
  return 0; }
'''


@adapter(r'dsplib::(issorted|sort|median|corr)|_kendall|_spearman|MedianFilter')
def order_statistics(o):
    """C16: median equals the middle order statistic(s) and sort returns a sorted permutation for every small input pattern (including 'sorted except for the last element'),
    issorted agrees with the definition, Spearman/Kendall of x and -x are -1"""
    return '#include <algorithm>\n#include <vector>\n' + HDR + '''
int main() { for (int n = 1; n <= 8; ++n) { std::vector<int> p(n); for (int i = 0; i < n; ++i) p[i] = i; 
    do { arr_real x(n); for (int i = 0; i < n; ++i) x[i] = p[i] * 0.5 - 1;
      { const double med = (n % 2) ? (n / 2) * 0.5 - 1 : ((n / 2 - 1) * 0.5 - 1 + (n / 2) * 0.5 - 1) / 2; if (median(x) != med) { std::printf("median of a rearrangement of {-1, -0.5, .., %g}: %g, expected %g (first element %g)\\n", (n - 1) * 0.5 - 1, median(x), med, x[0]); return 1; } }
      for (int asc = 0; asc < 2; ++asc) { auto dir = asc ? Direction::Ascend : Direction::Descend;
        bool srt = true; for (int i = 0; i + 1 < n; ++i) if (asc ? x[i] > x[i + 1] : x[i] < x[i + 1]) srt = false;
        if (issorted(x, dir) != srt) { std::printf("issorted: wrong answer for a length-%d pattern (last pair %g, %g)\\n", n, n > 1 ? x[n - 2] : 0.0, x[n - 1]); return 1; }
        auto r = sort(x, dir); for (int i = 0; i + 1 < n; ++i) if (asc ? r.first[i] > r.first[i + 1] : r.first[i] < r.first[i + 1]) { std::printf("sort: result not ordered at %d (length %d)\\n", i, n); return 1; }
        for (int i = 0; i < n; ++i) if (r.first[i] != x[r.second[i]]) { std::printf("sort: index list does not map to the values\\n"); return 1; } } } while (std::next_permutation(p.begin(), p.end())); }
  arr_real x = {1, 2, 3, 4, 5, 6, 7, 0.5}; arr_real y = x * (-1.0);
  if (std::fabs(corr(x, y, Correlation::Spearman) + 1) > 1e-12 || std::fabs(corr(x, y, Correlation::Kendall) + 1) > 1e-12) { std::printf("corr(x, -x): Spearman %g, Kendall %g\\n", corr(x, y, Correlation::Spearman), corr(x, y, Correlation::Kendall)); return 1; }
  return 0; }
'''


@adapter(r'norm\(|dsplib::norm|dsplib::(rms|mean|stddev|angle|arange|linspace)')
def reductions(o):
    """C17: norm for p = 1..5 on mixed-sign data against sum |x|^p, rms/mean/stddev against their sums"""
    return HDR + '''
int main() { arr_real x = {-2, 2, -0.0, 0.5, -1.5, 3.25}; for (int p = 1; p <= 5; ++p) { double s = 0; for (int i = 0; i < x.size(); ++i) s += std::pow(std::fabs(x[i]), p);
    double e = std::pow(s, 1.0 / p); if (std::fabs(norm(x, p) - e) > 1e-9) { std::printf("norm(x, %d) = %g, (sum |x|^p)^(1/p) = %g\\n", p, norm(x, p), e); return 1; } }
  double m = 0, q = 0; for (int i = 0; i < x.size(); ++i) { m += x[i]; q += x[i] * x[i]; } m /= x.size();
  if (std::fabs(mean(x) - m) > 1e-12 || std::fabs(rms(x) - std::sqrt(q / x.size())) > 1e-12) { std::printf("mean %g / rms %g\\n", mean(x), rms(x)); return 1; }
  double v = 0; for (int i = 0; i < x.size(); ++i) v += (x[i] - m) * (x[i] - m); if (std::fabs(stddev(x) - std::sqrt(v / (x.size() - 1))) > 1e-12) { std::printf("stddev %g\\n", stddev(x)); return 1; }
  return 0; }
'''


@adapter(r'HilbertFilter|hilbert\(')
def analytic_signal(o):
    """C14: HilbertFilter output = (x delayed by the group delay, quadrature of x): a mid-band tone gives a constant-envelope
    analytic pair for odd and even filter lengths; hilbert(x) has real part x"""
    return HDR + '''
int main() { for (int flen : {31, 32, 50, 51, 64}) { HilbertFilter f(flen, 0.05); const int n = 600; arr_real x(n); for (int i = 0; i < n; ++i) x[i] = std::cos(2 * pi * 0.21 * i);
    arr_cmplx y = f.process(x); double lo = 1e9, hi = 0; for (int i = 2 * flen; i < n; ++i) { double a = abs(y[i]); lo = std::min(lo, a); hi = std::max(hi, a); }
    if (hi - lo > 0.02) { std::printf("HilbertFilter(%d): envelope of a pure tone varies between %g and %g (real and imaginary parts are not a 90-degree pair)\\n", flen, lo, hi); return 1; } }
  for (int n : {7, 8, 33, 64}) { arr_real x(n); for (int i = 0; i < n; ++i) x[i] = std::sin(0.9 * i) + 0.3 + ((i & 1) ? 0.2 : -0.2); arr_cmplx h = hilbert(x);
    for (int i = 0; i < n; ++i) if (std::fabs(h[i].re - x[i]) > 1e-9) { std::printf("real(hilbert(x))[%d] = %g, x = %g (n = %d)\\n", i, h[i].re, x[i], n); return 1; } }
  return 0; }
'''


@adapter(r'Compressor|Limiter|NoiseGate')
def dynamics_time_constants(o):
    """C20: the smoothed gain of the compressor approaches its target with the configured attack time (10%..90% in attack_time),
    also for time constants that are not a whole number of samples"""
    return HDR + '''
int main() { for (int fs : {1000, 8000, 44100}) for (double t : {0.0025, 0.0003 * 8000 / fs, 0.01}) { Compressor c(fs, -20.0, 4, 0.0, t, 4.0);
    const int n = int(6 * fs * t) + 50; arr_real x(n); for (int i = 0; i < n; ++i) x[i] = 1.0;           // 0 dB: 20 dB above threshold, static gain -15 dB
    auto r = c.process(x); const double g_end = -15.0; int i10 = -1, i90 = -1;
    for (int i = 0; i < n; ++i) { double g = 20 * std::log10(r.gain[i]); if (i10 < 0 && g <= 0.1 * g_end) i10 = i; if (i90 < 0 && g <= 0.9 * g_end) i90 = i; }
    if (i10 < 0 || i90 < 0) { std::printf("Compressor(fs %d, attack %g): gain never reaches 90%% of %g dB\\n", fs, t, g_end); return 1; }
    const double rise = double(i90 - i10) / fs; if (std::fabs(rise - t) > 1.6 / fs + 0.02 * t) { std::printf("Compressor(fs %d, attack %g s): 10%%..90%% takes %g s\\n", fs, t, rise); return 1; }
    // per-sample smoothing factor of the attack: (g[k+1] - target) / (g[k] - target) = exp(-ln 9 / (fs * attack_time))
    const double g1 = 20 * std::log10(r.gain[1]), g2 = 20 * std::log10(r.gain[2]), w = (g2 - g_end) / (g1 - g_end), we = std::exp(-std::log(9.0) / (fs * t));
    if (std::fabs(w - we) > 1e-6) { std::printf("Compressor(fs %d, attack %g s): smoothing factor %g, expected exp(-ln9/(fs*t)) = %g\\n", fs, t, w, we); return 1; } }
  return 0; }
'''


@adapter(r'PreambleDetector|CDelay')
def detector_reset(o):
    """C18: after reset() the detector carries nothing over from the previous stream: a quiet stream without the preamble
    reports nothing, and a stream with the preamble reports it at the index of its last sample"""
    return HDR + '''
int main() { const int L = 31; arr_cmplx h(L); for (int i = 0; i < L; ++i) { double ph = pi * 5 * i * (i + 1) / L; h[i] = cmplx_t{std::cos(ph), std::sin(ph)}; }      // Zadoff-Chu
  PreambleDetector det(h, 0.5); const int B = det.frame_len();
  arr_cmplx loud(3 * B); for (int i = 0; i < loud.size(); ++i) loud[i] = cmplx_t{30 * std::sin(0.7 * i), 30 * std::cos(1.3 * i)};   // leaves filter memory behind
  for (int k = 0; k < 3; ++k) det.process(arr_cmplx(loud.slice(k * B, (k + 1) * B)));
  det.reset();
  arr_cmplx quiet(2 * B); for (int i = 0; i < quiet.size(); ++i) quiet[i] = cmplx_t{1e-3 * std::sin(0.37 * i * i), 1e-3 * std::cos(0.11 * i)};
  for (int k = 0; k < 2; ++k) { auto r = det.process(arr_cmplx(quiet.slice(k * B, (k + 1) * B)));
    if (r.has_value()) { std::printf("after reset(): detection at offset %d with score %g in a stream without the preamble\\n", r->offset, r->score); return 1; } }
  det.reset(); arr_cmplx s(2 * B); const int pos = B / 2; for (int i = 0; i < L; ++i) s[pos + i] = h[i];
  int at = -1; double sc = 0; for (int k = 0; k < 2 && at < 0; ++k) { auto r = det.process(arr_cmplx(s.slice(k * B, (k + 1) * B))); if (r.has_value()) { at = k * B + r->offset; sc = r->score; } }
  if (at != pos + L - 1 || std::fabs(sc - 1) > 0.05) { std::printf("after reset(), preamble ending at sample %d: reported at %d (-1: not at all) with score %g\\n", pos + L - 1, at, sc); return 1; }
  return 0; }
'''


@adapter(r'const-method-reaches-only-readers|no-mutable-member|statics\(lib/fft')
def shared_plan_stress(o):
    """C09: one plan object used by four threads at once through its const interface returns, for every thread, the transform
    of that thread's own input (compared with results computed beforehand on one thread). A race shows with high probability,
    not with certainty; without one the program cannot fail."""
    return '#include <thread>\n#include <vector>\n#include <atomic>\n' + HDR + '''
template<class Plan, class In> static int stress(const char* what, const Plan& plan, int n, In make) {
  const int T = 4, R = 1500; std::vector<decltype(make(0))> in; std::vector<decltype(plan.solve(make(0)))> ref;
  for (int t = 0; t < T; ++t) { in.push_back(make(t)); ref.push_back(plan.solve(in[t])); }
  std::atomic<int> bad{0}; std::vector<std::thread> th;
  for (int t = 0; t < T; ++t) th.emplace_back([&, t] { for (int r = 0; r < R; ++r) { auto y = plan.solve(in[t]); for (int k = 0; k < y.size(); ++k) if (y[k].re != ref[t][k].re || y[k].im != ref[t][k].im) { ++bad; break; } } });
  for (auto& x : th) x.join();
  if (bad) { std::printf("%s of size %d shared by %d threads: %d of %d concurrent calls returned something other than the transform of their own input\\n", what, n, T, int(bad), T * R); return 1; }
  return 0; }
int main() {
  auto cin = [](int n) { return [n](int t) { arr_cmplx x(n); for (int i = 0; i < n; ++i) x[i] = cmplx_t{std::sin(0.3 * i + t), std::cos(0.7 * i * (t + 1))}; return x; }; };
  auto rin = [](int n) { return [n](int t) { arr_real x(n); for (int i = 0; i < n; ++i) x[i] = std::sin(0.3 * i + t) + 0.1 * t; return x; }; };
  for (int n : {101, 86, 64, 120, 37}) { FftPlan p(n); if (stress("FftPlan", p, n, cin(n))) return 1; }
  for (int n : {101, 64}) { IfftPlan p(n); if (stress("IfftPlan", p, n, cin(n))) return 1; }
  for (int n : {202, 101, 128}) { FftPlanR p(n); if (stress("FftPlanR", p, n, rin(n))) return 1; }
  { const int n = 50; CztPlan p(n, n, expj(-2 * pi / n)); if (stress("CztPlan", p, n, cin(n))) return 1; }
  return 0; }
'''


@adapter(r'CztPlanImpl|CztPlan::|czt\(')
def chirp_z_definition(o):
    """C01: czt(x, m, w, a) against its defining sum for small sizes, m != n, w off the DFT grid and |a| != 1"""
    from contracts import standins
    return '#include <complex>\n' + standins.CZT


@adapter(r'_harm_analyze|_get_psd_tone|dsplib::(snr|sinad|thd)|_periodogram')
def snr_degenerate_inputs(o):
    """C05: snr / sinad / thd of an all-zero or constant signal (a spectrum without power) have nothing to measure, but must not
    run into undefined behaviour on the way (the build checks float-to-int conversions)"""
    return HDR + '''
int main() { for (int n : {16, 64, 100}) { arr_real z = zeros(n); arr_real c(n); for (int i = 0; i < n; ++i) c[i] = 3.0;
    volatile double a = snr(z), b = sinad(c), d = thd(c).value, e = snr(c, 3, true); (void)a; (void)b; (void)d; (void)e; }
  return 0; }
'''


@adapter(r'xcorr\(')
def xcorr_definition(o):
    """C07: xcorr against its defining sum, all length pairs 1..20, real and complex"""
    from contracts import standins
    return '#include <complex>\n' + standins.XCORR


@adapter(r'gccphat|finddelay|peakloc')
def delay_estimators(o):
    """C18: finddelay / gccphat recover an integer shift of white noise, positive and negative, at sample rates 1 and 8000"""
    from contracts import standins
    return standins.DELAYS


@adapter(r'dsplib::power|_power\(|power\(cmplx|power\(arr')
def complex_powers(o):
    """C17: powers of complex numbers in polar form: negative real bases with fractional exponents ((-1)^0.5 = i, (-8)^(1/3) = 1 + 1.732i),
    all overloads agree"""
    return HDR + '''
static int chk(const char* what, cmplx_t got, double re, double im) { if (!(std::fabs(got.re - re) < 1e-9 && std::fabs(got.im - im) < 1e-9)) {
    std::printf("%s = %g%+gi, expected %g%+gi\\n", what, got.re, got.im, re, im); return 1; } return 0; }
int main() { int bad = 0;
  bad += chk("power((-1,0), 0.5)", power(cmplx_t{-1, 0}, 0.5), 0, 1);
  bad += chk("power((-8,0), 1/3)", power(cmplx_t{-8, 0}, 1.0 / 3), 1, std::sqrt(3.0));
  bad += chk("power((-4,-0.0), 0.5)", power(cmplx_t{-4, -0.0}, 0.5), 0, -2);
  bad += chk("power((0,2), 2.0)", power(cmplx_t{0, 2}, 2.0), -4, 0);
  arr_cmplx a = {cmplx_t{-1, 0}, cmplx_t{-8, 0}}; arr_real e = {0.5, 1.0 / 3};
  arr_cmplx r1 = power(a, 0.5); bad += chk("power({-1,-8}, 0.5)[0]", r1[0], 0, 1);
  arr_cmplx r2 = power(a, e); bad += chk("power({-1,-8}, {0.5, 1/3})[1]", r2[1], 1, std::sqrt(3.0));
  arr_cmplx r3 = power(cmplx_t{-1, 0}, e); bad += chk("power((-1,0), {0.5, 1/3})[0]", r3[0], 0, 1);
  return bad ? 1 : 0; }
'''


@adapter(r'welch|_calcspec')
def welch_conventions(o):
    """C13: density-scaled welch conserves power when segments are zero-padded (winlen < nfft), and the short overloads use
    half-window overlap with nfft the next power of two of the window length"""
    return HDR + '''
int main() { const int N = 4096; arr_real x(N); for (int i = 0; i < N; ++i) x[i] = std::sin(0.37 * i) + 0.5 * std::cos(1.1 * i + 0.3) + 0.1 * std::sin(0.01 * i * i);
  for (int wl : {200, 256, 100}) for (int nfft : {256, 512}) { if (nfft < wl) continue; arr_real w = window::hann(wl);
    auto r = welch(x, w, wl / 2, nfft, SpectrumType::Psd);
    // Parseval per segment: sum over the one-sided density = mean of (w*x)^2 / mean(w^2), averaged over segments
    double ref = 0; int ns = 0; double w2 = 0; for (int i = 0; i < wl; ++i) w2 += w[i] * w[i];
    for (int t = 0; t + wl <= N; t += wl - wl / 2) { double s = 0; for (int i = 0; i < wl; ++i) s += (w[i] * x[t + i]) * (w[i] * x[t + i]); ref += s / w2; ++ns; }
    ref /= ns; double got = 0; for (int k = 0; k < r.pxx.size(); ++k) got += r.pxx[k]; got /= nfft; got *= 1;
    const double want = ref / 1;   // sum_k pxx[k] / nfft = sum (w x)^2 / sum w^2
    if (std::fabs(got - want) > 1e-6 * want) { std::printf("welch density, window %d, nfft %d: summed density / nfft = %g, time-domain power %g\\n", wl, nfft, got, want); return 1; } }
  { arr_real w = window::hamming(200); auto a = welch(x, w, SpectrumType::Psd); auto b = welch(x, w, 100, 256, SpectrumType::Psd);
    if (a.pxx.size() != b.pxx.size()) { std::printf("welch(x, win[200]): %d bins, with overlap 100 and nfft 256 spelled out: %d\\n", a.pxx.size(), b.pxx.size()); return 1; }
    for (int k = 0; k < a.pxx.size(); ++k) if (a.pxx[k] != b.pxx[k]) { std::printf("welch(x, win[200]) differs from welch(x, win, 100, 256) at bin %d: %g vs %g\\n", k, a.pxx[k], b.pxx[k]); return 1; } }
  return 0; }
'''


@adapter(r'RlsFilter')
def rls_reference(o):
    """C12: RlsFilter against the textbook recursion with P(0) = diag_load * I (a-priori error, gain vector, Riccati update)"""
    return '#include <vector>\n' + HDR + '''
int main() { for (int n : {2, 5}) for (double dl : {0.5, 4.0}) { const double mu = 0.98; RlsFilter<real_t> f(n, mu, dl);
    std::vector<double> w(n, 0.0), u(n, 0.0), P(n * n, 0.0); for (int i = 0; i < n; ++i) P[i * n + i] = dl;
    const int N = 60; arr_real x(N), d(N); for (int i = 0; i < N; ++i) { x[i] = std::sin(0.9 * i) + 0.3 * std::cos(2.3 * i * i); d[i] = 0.7 * x[i] - 0.2 * (i ? x[i - 1] : 0) + 0.05 * std::sin(0.1 * i); }
    auto r = f.process(x, d);
    for (int t = 0; t < N; ++t) { for (int i = n - 1; i > 0; --i) u[i] = u[i - 1]; u[0] = x[t];
      double y = 0; for (int i = 0; i < n; ++i) y += w[i] * u[i]; const double e = d[t] - y;
      std::vector<double> Pu(n, 0.0); for (int i = 0; i < n; ++i) for (int j = 0; j < n; ++j) Pu[i] += P[i * n + j] * u[j];
      double den = mu; for (int i = 0; i < n; ++i) den += u[i] * Pu[i]; std::vector<double> k(n); for (int i = 0; i < n; ++i) k[i] = Pu[i] / den;
      std::vector<double> uP(n, 0.0); for (int j = 0; j < n; ++j) for (int i = 0; i < n; ++i) uP[j] += u[i] * P[i * n + j];
      for (int i = 0; i < n; ++i) for (int j = 0; j < n; ++j) P[i * n + j] = (P[i * n + j] - k[i] * uP[j]) / mu;
      for (int i = 0; i < n; ++i) w[i] += k[i] * e;
      if (std::fabs(r.e[t] - e) > 1e-7 * (1 + std::fabs(e)) || std::fabs(r.y[t] - y) > 1e-7 * (1 + std::fabs(y))) {
        std::printf("RlsFilter(n %d, forgetting %g, diag_load %g): sample %d y = %g e = %g, textbook recursion y = %g e = %g\\n", n, mu, dl, t, r.y[t], r.e[t], y, e); return 1; } } }
  return 0; }
'''
