"""Forwarding wrappers: call operators and pimpl forwards are inlined at their call sites (they contain no logic of their own);
gccphat over several channels repeats the single-channel bookkeeping per channel."""
from engine.spec import fn, inline_fn

inline_fn('dsplib::Compressor::operator()', 'dsplib::Limiter::operator()', 'dsplib::NoiseGate::operator()', 'dsplib::CztPlan::operator()',
          'dsplib::FftFilter::operator()', 'dsplib::HilbertFilter::operator()', 'dsplib::MedianFilter::operator()', 'dsplib::Tuner::operator()',
          'dsplib::PreambleDetector::operator()', 'dsplib::MedianFilter::order', 'dsplib::Tuner::freq', 'dsplib::Tuner::sample_rate',
          'dsplib::FftPlan::size', 'dsplib::FftPlanR::size', 'dsplib::Pow2FftPlan::size', 'dsplib::PrimesFftC::size', 'dsplib::PrimesFftR::size',
          'dsplib::RealFftPlan::size', 'dsplib::SmallFftPow2C::size', 'dsplib::SmallFftPow2R::size', 'dsplib::FactorFFTPlan::size',
          'dsplib::FactorFFTPlanR::size', 'dsplib::IfftPlanR::size', 'dsplib::HilbertFilter::impz', 'dsplib::xcorr|(const dsplib::arr_real &)' if False else 'dsplib::HilbertFilter::impz')

G = 'lib/gccphat.cpp'
fn('dsplib::gccphat', G, sig='(const std::vector<arr_real> &, const dsplib::arr_real &, int)', key='gccphat(channels,ref,fs)', serves=['C18', 'C05'], pure=True,
   requires=[('lengths', 'And(refsig.len >= 1, refsig.len <= 1073741823, fs >= 1, sig.len <= 1000000)'),
             ('channels', 'forall(lambda c: Implies(And(0 <= c, c < sig.len), sig[c].len == refsig.len))')],
   throws='False',
   ensures=[('per_channel', 'And(result.tau.len == sig.len, result.corr.len == sig.len)')],
   loops={1: {'inv': [('len', 'And(res.tau.len == sig.len, res.corr.len == sig.len, M == refsig.len, X2.len == refsig.len)')]}})
