"""C17: more reductions and element functions of lib/math.cpp (second batch)."""
from engine.spec import fn, inline_fn
from contracts.mathfun import LIBM, elementwise, RA, CA
from engine.specfun import NS as SF

M = 'lib/math.cpp'
ENV = dict(LIBM)
ENV.update(SF)


def real_placeholder(x):
    """ghost initial value of real-array type with the length of x"""
    from engine.values import SVal, VecVal
    from engine.spec import W
    import z3
    v = x.tree.f['_vec']
    return W(None, SVal('dsplib::base_array<double>', {'_vec': VecVal(v.len, z3.K(z3.IntSort(), z3.RealVal(0)), ('real',))}))


ENV['real_placeholder'] = real_placeholder

fn('dsplib::mean', M, sig='dsplib::cmplx_t (const dsplib::arr_cmplx &)', key='mean(cmplx)', serves=['C17'], pure=True, requires=['arr.len >= 1'],
   ensures=[('definition', 'And(result.re * ToReal(arr.len) == SUMR(re_data(arr), arr.len), result.im * ToReal(arr.len) == SUMR(im_data(arr), arr.len))')])

# sample standard deviation: sqrt(sum |x - mean|^2 / (n - 1))
fn('dsplib::stddev', M, sig='dsplib::real_t (const dsplib::arr_real &)', key='stddev(real)', serves=['C17', 'C05'], pure=True, extra_env=ENV,
   requires=['arr.len >= 2'],
   ghost={'D': 'arr'}, ghost_on=[('call:sum', None, {'D': 'arg0'})],
   ensures=[('length', 'D.len == arr.len'),
            ('deviations', 'exists_w(lambda mu: And(mu * ToReal(arr.len) == SUMR(data(arr), arr.len), forall(lambda k: Implies(And(0 <= k, k < arr.len), D[k] == (arr[k] - mu) * (arr[k] - mu)))), m)'),
            ('root', 'result == SQRT(SUMR(data(D), arr.len) / ToReal(arr.len - 1))')])

fn('dsplib::peak2peak', M, sig='dsplib::real_t ' + RA, key='peak2peak(real)', serves=['C17', 'C05'], pure=True, requires=['arr.len >= 1'],
   ensures=[('attained', 'exists(lambda i: exists(lambda j: And(0 <= i, i < arr.len, 0 <= j, j < arr.len, result == arr[j] - arr[i])))'),
            ('spans', 'forall(lambda i: forall(lambda j: Implies(And(0 <= i, i < arr.len, 0 <= j, j < arr.len), arr[j] - arr[i] <= result)))')])

# x^n for an array of exponents / bases
fn('dsplib::power', M, sig='dsplib::arr_real (dsplib::real_t, const dsplib::arr_real &)', key='power(real,arr_real)', serves=['C17', 'C05'], pure=True, extra_env=ENV, throws='False',
   ensures=[('length', 'result.len == n.len'), ('definition', 'forall(lambda k: Implies(And(0 <= k, k < n.len), result[k] == POW(x, n[k])))')],
   loops={1: {'inv': [('len', 'r.len == n.len'), ('done', 'forall(lambda k: Implies(And(0 <= k, k < i), r[k] == POW(x, n[k])))')]}})
for nm, d in (('db2pow', 10), ('db2mag', 20)):
    fn('dsplib::' + nm, M, sig='dsplib::arr_real ' + RA, key=nm + '(arr_real)', serves=['C17', 'C05'], pure=True, extra_env=ENV, throws='False',
       ensures=[('length', 'result.len == v.len'), ('definition', 'forall(lambda k: Implies(And(0 <= k, k < v.len), result[k] == POW(10, v[k] / %d)))' % d)])

fn('dsplib::_power', M, sig='(const base_array<double> &, dsplib::real_t)', key='_power(arr_real,real)', serves=['C17', 'C05'], pure=True, extra_env=ENV, throws='False',
   ensures=[('length', 'result.len == x.len'), ('definition', 'forall(lambda k: Implies(And(0 <= k, k < x.len), result[k] == POW(x[k], n)))')],
   loops={1: {'inv': [('len', 'r.len == x.len'), ('done', 'forall(lambda k: Implies(And(0 <= k, k < i), r[k] == POW(x[k], n)))')]}})
fn('dsplib::_power', M, sig='(const base_array<double> &, const base_array<double> &)', key='_power(arr_real,arr_real)', serves=['C17', 'C05'], pure=True, extra_env=ENV,
   throws='x.len != n.len',
   ensures=[('length', 'result.len == x.len'), ('definition', 'forall(lambda k: Implies(And(0 <= k, k < x.len), result[k] == POW(x[k], n[k])))')],
   loops={1: {'inv': [('len', 'r.len == x.len'), ('done', 'forall(lambda k: Implies(And(0 <= k, k < i), r[k] == POW(x[k], n[k])))')]}})

# public down/upsample: exactly the template's contract (a wrapper that swapped its arguments would fail 'values')
for T, A in (('double', 'dsplib::arr_real'), ('dsplib::cmplx_t', 'dsplib::arr_cmplx')):
    fn('dsplib::downsample', M, sig='%s (const %s &, int, int)' % (A, A), key='downsample<%s>' % T, serves=['C17', 'C08', 'C05'], pure=True,
       requires=[('size', 'arr.len + n <= INT_MAX'), ('domain', 'Or(n <= 0, phase >= n, phase < 0, phase < arr.len)')],
       throws='Or(n <= 0, phase >= n, phase < 0)',
       ensures=[('count', 'Implies(n > 1, And(result.len * n >= arr.len - phase, (result.len - 1) * n < arr.len - phase, result.len >= 0))'),
                ('identity', 'Implies(n == 1, result == arr)'),
                ('values', 'Implies(n > 1, forall(lambda k: Implies(And(0 <= k, k < result.len), result[k] == arr[phase + k * n])))')])
    fn('dsplib::upsample', M, sig='%s (const %s &, int, int)' % (A, A), key='upsample<%s>' % T, serves=['C17', 'C08', 'C05'], pure=True,
       requires=[('size', 'arr.len * n <= INT_MAX - n')],
       throws='Or(n <= 0, phase >= n, phase < 0)',
       ensures=[('count', 'Implies(n > 1, result.len == arr.len * n)'),
                ('identity', 'Implies(n == 1, result == arr)'),
                ('values', 'Implies(n > 1, forall(lambda k: Implies(And(0 <= k, k < arr.len), result[phase + k * n] == arr[k])))'),
                ('zeros', 'Implies(n > 1, forall(lambda t: Implies(And(0 <= t, t < result.len, Not(INSLICE(phase, n, arr.len, t))), eqv(result[t], 0))))')])

# rounding of arrays
fn('dsplib::_round', M, sig='(const base_array<double> &)', key='_round<real>', serves=['C17', 'C05'], pure=True, extra_env=ENV, throws='False',
   ensures=[('length', 'result.len == x.len'), ('definition', 'forall(lambda k: Implies(And(0 <= k, k < x.len), result[k] == rnd(x[k])))')],
   loops={1: {'inv': [('len', 'y.len == x.len'), ('done', 'forall(lambda k: Implies(And(0 <= k, k < i), y[k] == rnd(x[k])))')]}})
fn('dsplib::_round', M, sig='(const base_array<dsplib::cmplx_t> &)', key='_round<cmplx>', serves=['C17', 'C05'], pure=True, extra_env=ENV, throws='False',
   ensures=[('length', 'result.len == x.len'),
            ('definition', 'forall(lambda k: Implies(And(0 <= k, k < x.len), And(result[k].re == rnd(x[k].re), result[k].im == rnd(x[k].im))))')],
   loops={1: {'inv': [('len', 'y.len == x.len'), ('done', 'forall(lambda k: Implies(And(0 <= k, k < i), And(y[k].re == rnd(x[k].re), y[k].im == rnd(x[k].im))))')]}})
fn('dsplib::round', M, sig='dsplib::arr_real ' + RA, key='round(arr_real)', serves=['C17', 'C05'], pure=True, extra_env=ENV, throws='False',
   ensures=[('length', 'result.len == x.len'), ('definition', 'forall(lambda k: Implies(And(0 <= k, k < x.len), result[k] == rnd(x[k])))')])
fn('dsplib::round', M, sig='dsplib::arr_cmplx ' + CA, key='round(arr_cmplx)', serves=['C17', 'C05'], pure=True, extra_env=ENV, throws='False',
   ensures=[('length', 'result.len == x.len'),
            ('definition', 'forall(lambda k: Implies(And(0 <= k, k < x.len), And(result[k].re == rnd(x[k].re), result[k].im == rnd(x[k].im))))')])

# integer powers of an array: n = 0 gives ones, n = 1 the array itself, otherwise element by element through _power(scalar, n)
PWI = 'If(n == 2, x[k] * x[k], If(n == -1, 1 / x[k], If(n == 0, 1, If(n == 1, x[k], POW(x[k], ToReal(n))))))'
fn('dsplib::_power', M, sig='(const base_array<double> &, int)', key='_power(arr_real,int)', serves=['C17', 'C05'], pure=True, extra_env=ENV, throws='False',
   ensures=[('length', 'result.len == x.len'), ('definition', 'forall(lambda k: Implies(And(0 <= k, k < x.len), result[k] == %s))' % PWI)],
   loops={1: {'inv': [('len', 'r.len == x.len'), ('done', 'forall(lambda k: Implies(And(0 <= k, k < i), r[k] == %s))' % PWI)]}})

# mean squared error
fn('dsplib::mse', 'drivers/instantiate.cpp', sig='dsplib::real_t (const dsplib::arr_real &, const dsplib::arr_real &)', key='mse(real)', serves=['C17', 'C05'], pure=True, extra_env=ENV,
   requires=['x.len >= 1'], throws='x.len != y.len',
   ghost={'D': 'x'}, ghost_on=[('call:mean', None, {'D': 'arg0'})],
   ensures=[('terms', 'And(D.len == x.len, forall(lambda k: Implies(And(0 <= k, k < x.len), D[k] == (x[k] - y[k]) * (x[k] - y[k]))))'),
            ('mean', 'result * ToReal(x.len) == SUMR(data(D), x.len)')])

fn('dsplib::power', M, sig='dsplib::real_t (dsplib::real_t, int)', key='power(real,int)', serves=['C17', 'C05'], pure=True, extra_env=ENV, throws='False',
   ensures=[('special_cases', 'And(Implies(n == 2, result == x * x), Implies(n == -1, result == 1 / x), Implies(n == 0, result == 1), Implies(n == 1, result == x))'),
            ('general', 'Implies(And(n != 2, n != -1, n != 0, n != 1), result == POW(x, ToReal(n)))')])

fn('dsplib::stddev', M, sig='dsplib::real_t (const dsplib::arr_cmplx &)', key='stddev(cmplx)', serves=['C17', 'C05'], pure=True, extra_env=ENV,
   requires=['arr.len >= 2'],
   ghost={'D': 'real_placeholder(arr)'}, ghost_on=[('call:sum', None, {'D': 'arg0'})],
   ensures=[('length', 'D.len == arr.len'),
            ('deviations', 'exists_w(lambda mu: And(mu.re * ToReal(arr.len) == SUMR(re_data(arr), arr.len), mu.im * ToReal(arr.len) == SUMR(im_data(arr), arr.len), '
                           'forall(lambda k: Implies(And(0 <= k, k < arr.len), D[k] == (arr[k].re - mu.re) * (arr[k].re - mu.re) + (arr[k].im - mu.im) * (arr[k].im - mu.im)))), m)'),
            ('root', 'result == SQRT(SUMR(data(D), arr.len) / ToReal(arr.len - 1))')])

fn('dsplib::sign', 'drivers/instantiate.cpp', sig='int (const dsplib::real_t &)', key='sign(real)', serves=['C17'], pure=True, throws='False',
   ensures=[('signum', 'result == If(x > 0, 1, If(x < 0, -1, 0))')])

# root mean square of a complex array: sqrt((sum re^2 + sum im^2) / n)  [was a trusted contract in contracts/random.py]
fn('dsplib::rms', M, sig='dsplib::real_t (const dsplib::arr_cmplx &)', key='rms(cmplx)', serves=['C17', 'C19', 'C05'], pure=True, extra_env=ENV,
   requires=['arr.len >= 1'],
   ensures=[('root_mean_square', 'exists_w(lambda s2: And(result == SQRT(s2 / ToReal(arr.len)), s2 == DOT(re_data(arr), 0, 1, re_data(arr), arr.len) + DOT(im_data(arr), 0, 1, im_data(arr), arr.len), s2 >= 0), sum)'),
            ('nonneg', 'result >= 0')],
   loops={1: {'facts': ['DOT_BASE(re_data(arr), 0, 1, re_data(arr))', 'DOT_STEP(re_data(arr), 0, 1, re_data(arr), i)',
                        'DOT_BASE(im_data(arr), 0, 1, im_data(arr))', 'DOT_STEP(im_data(arr), 0, 1, im_data(arr), i)'],
              'inv': [('acc', 'sum == DOT(re_data(arr), 0, 1, re_data(arr), i) + DOT(im_data(arr), 0, 1, im_data(arr), i)'), ('nonneg', 'sum >= 0')]}})

# complex powers through the polar form: |x|^n * exp(i * n * arg x), arg the principal argument (so (-1)^0.5 = i).
# CPW_RE / CPW_IM name the two components (opaque symbols; CPW_DEF is their defining equation, used where the scalar is proved)
import z3 as _z3
_R = _z3.RealSort()
CPW_RE, CPW_IM = _z3.Function('cpow_re', _R, _R, _R, _R), _z3.Function('cpow_im', _R, _R, _R, _R)


def cpw_def(a, b, n):
    a, b, n = [getattr(t, 'z', t) for t in (a, b, n)]
    L = ENV
    mag = L['POW'](L['SQRT'](a * a + b * b), n)
    ang = L['ATAN2'](b, a) * n
    return _z3.And(CPW_RE(a, b, n) == mag * L['COS'](ang), CPW_IM(a, b, n) == mag * L['SIN'](ang))


ENV.update({'CPW_RE': CPW_RE, 'CPW_IM': CPW_IM, 'CPW_DEF': cpw_def})
CPW = lambda r, x, n: 'And({r}.re == CPW_RE({x}.re, {x}.im, {n}), {r}.im == CPW_IM({x}.re, {x}.im, {n}))'.format(r=r, x=x, n=n)
fn('dsplib::power', M, sig='dsplib::cmplx_t (dsplib::cmplx_t, dsplib::real_t)', key='power(cmplx,real)', serves=['C17', 'C05'], pure=True, extra_env=ENV, throws='False',
   post_facts=['CPW_DEF(x.re, x.im, n)'],
   ensures=[('polar_form', 'And(result.re == POW(SQRT(x.re*x.re + x.im*x.im), n) * COS(ATAN2(x.im, x.re) * n), result.im == POW(SQRT(x.re*x.re + x.im*x.im), n) * SIN(ATAN2(x.im, x.re) * n))'),
            ('named', CPW('result', 'x', 'n'))])
fn('dsplib::power', M, sig='dsplib::arr_cmplx (dsplib::cmplx_t, const dsplib::arr_real &)', key='power(cmplx,arr_real)', serves=['C17', 'C05'], pure=True, extra_env=ENV, throws='False',
   ensures=[('length', 'result.len == n.len'),
            ('polar_form', 'forall(lambda k: Implies(And(0 <= k, k < n.len), %s))' % CPW('result[k]', 'x', 'n[k]'))],
   loops={1: {'facts': ['CPW_DEF(x.re, x.im, n[i])'],
              'inv': [('len', 'r.len == n.len'), ('done', 'forall(lambda k: Implies(And(0 <= k, k < i), %s))' % CPW('r[k]', 'x', 'n[k]'))]}})
fn('dsplib::_power', M, sig='(const base_array<dsplib::cmplx_t> &, dsplib::real_t)', key='_power(arr_cmplx,real)', serves=['C17', 'C05'], pure=True, extra_env=ENV, throws='False',
   ensures=[('length', 'result.len == x.len'),
            ('polar_form', 'forall(lambda k: Implies(And(0 <= k, k < x.len), %s))' % CPW('result[k]', 'x[k]', 'n'))],
   loops={1: {'inv': [('len', 'r.len == x.len'), ('done', 'forall(lambda k: Implies(And(0 <= k, k < i), %s))' % CPW('r[k]', 'x[k]', 'n'))]}})
fn('dsplib::_power', M, sig='(const base_array<dsplib::cmplx_t> &, const base_array<double> &)', key='_power(arr_cmplx,arr_real)', serves=['C17', 'C05'], pure=True, extra_env=ENV,
   throws='x.len != n.len',
   ensures=[('length', 'result.len == x.len'),
            ('polar_form', 'forall(lambda k: Implies(And(0 <= k, k < x.len), %s))' % CPW('result[k]', 'x[k]', 'n[k]'))],
   loops={1: {'inv': [('len', 'r.len == x.len'), ('done', 'forall(lambda k: Implies(And(0 <= k, k < i), %s))' % CPW('r[k]', 'x[k]', 'n[k]'))]}})
for T, nm in (('dsplib::real_t', 'real'), ('const dsplib::arr_real &', 'arr_real')):
    fn('dsplib::power', M, sig='dsplib::arr_cmplx (const dsplib::arr_cmplx &, %s)' % T, key='power(arr_cmplx,%s)' % nm, serves=['C17', 'C05'], pure=True, extra_env=ENV,
       throws='False' if nm == 'real' else 'x.len != n.len',
       ensures=[('length', 'result.len == x.len'),
                ('polar_form', 'forall(lambda k: Implies(And(0 <= k, k < x.len), %s))' % CPW('result[k]', 'x[k]', 'n' if nm == 'real' else 'n[k]'))])
    fn('dsplib::power', M, sig='dsplib::arr_real (const dsplib::arr_real &, %s)' % T, key='power(arr_real,%s)' % nm, serves=['C17', 'C05'], pure=True, extra_env=ENV,
       throws='False' if nm == 'real' else 'x.len != n.len',
       ensures=[('length', 'result.len == x.len'),
                ('definition', 'forall(lambda k: Implies(And(0 <= k, k < x.len), result[k] == POW(x[k], %s)))' % ('n' if nm == 'real' else 'n[k]'))])
