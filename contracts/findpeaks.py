"""C17 / C05: findpeaks (lib/findpeaks.cpp): npeaks maxima, each with the width of its skirt, the skirt zeroed before the next search."""
from engine.spec import fn

FP = 'lib/findpeaks.cpp'
fn('dsplib::findpeaks', FP, serves=['C17', 'C05'], pure=True,
   requires=[('input', 'And(data.len >= 1, npeaks >= 0, npeaks <= 1000000)')], throws='False', body_assumes=['INSLICE_AX()'],
   ensures=[('count', 'And(result.locs.len == npeaks, result.pks.len == npeaks, result.wds.len == npeaks)'),
            ('in_range', 'forall(lambda k: Implies(And(0 <= k, k < npeaks), And(0 <= result.locs[k], result.locs[k] < data.len, 1 <= result.wds[k], result.wds[k] <= data.len)))')],
   loops={1: {'inv': [('len', 'And(peaks.locs.len == i, peaks.pks.len == i, peaks.wds.len == i, data.len == old.data.len)'),
                      ('in_range', 'forall(lambda k: Implies(And(0 <= k, k < i), And(0 <= peaks.locs[k], peaks.locs[k] < data.len, 1 <= peaks.wds[k], peaks.wds[k] <= data.len)))')]}})

A = 'dsplib::(anon)::'
fn(A + '_left_descent', FP, key='findpeaks::_left_descent', serves=['C17', 'C05'], pure=True, only_tu=True,
   requires=[('nonempty', 'And(x.len >= 1, idx < x.len)')], throws='False',
   lets={'i0': 'If(idx > 0, idx, 0)'},
   ensures=[('range', 'And(0 <= result, result <= i0)'),
            ('stops_where_it_stops_falling', 'Or(result == 0, x[result - 1] >= x[result])')],
   loops={1: {'inv': [('range', 'And(0 <= lpos, lpos <= i0)')], 'dec': 'lpos'}})
fn(A + '_right_descent', FP, key='findpeaks::_right_descent', serves=['C17', 'C05'], pure=True, only_tu=True,
   requires=[('nonempty', 'And(x.len >= 1, idx >= 0)')], throws='False',
   lets={'i0': 'If(idx < x.len - 1, idx, x.len - 1)'},
   ensures=[('range', 'And(i0 <= result, result <= x.len - 1)'),
            ('stops_where_it_stops_falling', 'Or(result == x.len - 1, x[result] <= x[result + 1])')],
   loops={1: {'inv': [('range', 'And(i0 <= rpos, rpos <= n - 1, n == x.len)')], 'dec': 'n - rpos'}})
