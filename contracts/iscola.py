"""C02 / C05: constant-overlap-add test (lib/stft.cpp)."""
from engine.spec import fn
from contracts.stft import ENV as SENV, ST
from contracts.adaptive import EPSC
ENV = dict(SENV)
ENV['EPSC'] = EPSC

fn('dsplib::iscola', ST, serves=['C02', 'C05'], pure=True, extra_env=ENV, may_throw=True,
   requires=[('window', 'And(win.len >= 1, win.len <= 1048576)'), ('overlap', 'And(0 <= noverlap, noverlap < win.len)'), ('method', 'Or(method == 0, method == 1)')],
   ensures=[('local:decision', 'exists_w(lambda mdv, tot: result == (mdv < tot * EPSC), max_dev, nsumtotal)')],
   loops={1: {'inv': [('shape', 'And(cola_chk.len == hop, hop == win.len - noverlap, nwin == win.len, nsum == tdiv(nwin, hop), Or(pw == 1, pw == 2))')]}})
