"""C19 / C05: harmonic bookkeeping of snr / sinad / thd (lib/snr.cpp)."""
from engine.spec import fn
from contracts.snr2 import ENV as E2, S_, A
from contracts.mathfun import LIBM

ENV = dict(E2)
ENV.update(LIBM)


def nonneg(a):
    import z3
    from engine.spec import W
    k = z3.Int('k!nn')
    v = a.tree.f['_vec']
    return z3.ForAll([k], z3.Implies(z3.And(0 <= k, k < v.len), z3.Select(v.data, k) >= 0))


ENV['NONNEG'] = nonneg

fn(A + '_alias_to_nyquist', S_, serves=['C19', 'C05'], pure=True, extra_env=ENV, throws='False',
   requires=[('rate', 'fs > 0'), ('frequency', 'f >= 0')],
   ensures=[('folded', 'And(result >= 0, result <= fs / 2)'),
            ('image', 'exists(lambda q: And(q >= 0, Or(result == f - ToReal(q) * fs, result == ToReal(q + 1) * fs - f)))')])

# one-sided periodogram of the DC-free, Kaiser-windowed signal: n = 2^nextpow2(len) points, bins 0..n/2-1, scaled by len*n/2
fn(A + '_periodogram', S_, serves=['C19', 'C05'], pure=True, extra_env=ENV, may_throw=True,
   requires=[('size', 'And(sig.len >= 3, sig.len <= 1000000)')],
   ghost={'N': '-1', 'U': 'RealVal(0)', 'XL': '-1'}, ghost_on=[('call:fft', None, {'N': 'arg1', 'XL': 'arg0.len'}), ('call:operator/', None, {'U': 'arg0'})],
   ensures=[('transform_size', 'And(N >= sig.len, N < 2 * sig.len, XL == sig.len)'),
            ('length', 'result.len == tdiv(N, 2)'),
            ('scale', 'U == ToReal(sig.len) * ToReal(N) / 2')])

TONES_OK = 'forall(lambda t: Implies(And(0 <= t, t < tones.len), And(0 <= tones[t].lpos, tones[t].lpos <= tones[t].rpos, tones[t].rpos < spectrum.len)))'
fn(A + '_harm_analyze', S_, serves=['C19', 'C05'], pure=True, extra_env=ENV, may_throw=True, body_assumes=['INSLICE_AX()'],
   requires=[('spectrum', 'And(spectrum.len >= 2, spectrum.len <= 262144, NONNEG(spectrum), exists(lambda k: And(0 <= k, k < spectrum.len, spectrum[k] > 0)))'),
             ('harmonics', 'And(nharm >= 1, nharm <= 1000)')],
   ensures=[('lengths', 'And(result.harmpow.len == nharm, result.harmfreq.len == nharm)'),
            ('fundamental', 'And(result.harmpow[0] > 0, result.harmfreq[0] >= 0, result.harmfreq[0] * 2 * ToReal(spectrum.len) <= ToReal(spectrum.len - 1))')],
   loops={1: {'inv': [('lengths', 'And(harm_pow.len == nharm, harm_freq.len == nharm, spectrum.len == old.spectrum.len)'),
                      ('tone_count', 'And(tones.len >= 1, tones.len <= i)'),
                      ('nonneg', 'NONNEG(spectrum)'),
                      ('fundamental', 'And(harm_pow[0] > 0, harm_freq[0] >= 0, harm_freq[0] * ToReal(spectrum.len) <= ToReal(spectrum.len - 1))'),
                      ('tones', TONES_OK)]},
          2: {'inv': [('shape', 'And(spectrum.len == old.spectrum.len, harm_pow.len == nharm, harm_freq.len == nharm)'),
                      ('fundamental', 'And(harm_pow[0] > 0, harm_freq[0] >= 0, harm_freq[0] * ToReal(spectrum.len) <= ToReal(spectrum.len - 1))')],
              'facts': [TONES_OK]}})

# the fundamental: the tone around the global maximum (frequency argmax / n handed to the two-argument form)
fn(A + '_get_psd_tone', S_, sig='(const dsplib::arr_real &)', key='_get_psd_tone(spec)', serves=['C19', 'C05'], pure=True, extra_env=ENV,
   requires=[('nonempty', 'And(spec.len >= 1, spec.len <= 262144)')], throws='False',
   ghost={'FQ': 'RealVal(-1)'}, ghost_on=[('call:_get_psd_tone', None, {'FQ': 'arg1'})],
   ensures=[('skirt', 'And(0 <= result.lpos, result.lpos <= result.rpos, result.rpos < spec.len, result.size == spec.len)'),
            ('starts_at_the_maximum', 'exists(lambda j: And(0 <= j, j < spec.len, FQ * ToReal(spec.len) == ToReal(j), forall(lambda k: Implies(And(0 <= k, k < spec.len), spec[k] <= spec[j]))))'),
            # a non-negative spectrum that is not identically zero has a fundamental of positive power, located inside its skirt
            ('positive_power', 'Implies(And(NONNEG(spec), exists(lambda k: And(0 <= k, k < spec.len, spec[k] > 0))), '
                               'And(result.power > 0, result.freq * ToReal(spec.len) >= ToReal(result.lpos), result.freq * ToReal(spec.len) <= ToReal(result.rpos)))')])

fn('dsplib::sum', 'lib/math.cpp', sig='int (const std::vector<bool> &)', key='sum(vector<bool>)', serves=['C17', 'C05'], pure=True, extra_env=ENV, throws='False',
   ensures=[('definition', 'result == COUNT_TRUE(data(arr), arr.len)'), ('range', 'And(result >= 0, result <= arr.len)'), ('none', 'Implies(forall(lambda k: Implies(And(0 <= k, k < arr.len), Not(arr[k]))), result == 0)')])

# public measures on a precomputed spectrum (type Psd / Power): ratios of the powers the harmonic analysis reports.
# H0 / NP / HP: fundamental power, noise power and the harmonic powers returned by _harm_analyze (ghost copies)
SPEC_OK = [('spectrum', 'And(type != 0, sig.len >= 2, sig.len <= 262144, NONNEG(sig), exists(lambda k: And(0 <= k, k < sig.len, sig[k] > 0)))')]
GH = dict(ghost={'H0': 'RealVal(0)', 'NP': 'RealVal(0)', 'NH': '-1'},
          ghost_on=[('ret:_harm_analyze', None, {'H0': 'arg.harmpow[0]', 'NP': 'arg.noisepow'}), ('call:_harm_analyze', None, {'NH': 'arg1'})])
fn('dsplib::sinad', S_, serves=['C19', 'C05'], pure=True, extra_env=ENV, may_throw=True, requires=SPEC_OK,
   ensures=[('ratio_in_dB', 'result == 10 * LOG10(H0 / NP)'), ('fundamental_only', 'NH == 1')], **GH)
fn('dsplib::snr', S_, serves=['C19', 'C05'], pure=True, extra_env=ENV, may_throw=True,
   requires=SPEC_OK + [('harmonics', 'And(nharm >= 1, nharm <= 1000)')],
   ensures=[('ratio_in_dB', 'result == 10 * LOG10(H0 / NP)'), ('harmonics_removed', 'NH == nharm')], **GH)
fn('dsplib::thd', S_, serves=['C19', 'C05'], pure=True, extra_env=ENV, may_throw=True,
   requires=SPEC_OK + [('harmonics', 'nharm <= 1000')],
   ghost={'HP': 'sig', 'HF': 'sig', 'T': 'sig'},
   ghost_on=[('ret:_harm_analyze', None, {'HP': 'arg.harmpow', 'HF': 'arg.harmfreq'}), ('call:sum', None, {'T': 'arg0'})],
   ensures_exc=[('too_few_harmonics_or_analysis_failed', 'BoolVal(True)')],
   ensures=[('accepted', 'nharm >= 2'),
            ('lengths', 'And(result.harmpow.len == nharm, result.harmfreq.len == nharm, HP.len == nharm, T.len == nharm - 1)'),
            ('harmonics_above_the_fundamental', 'forall(lambda k: Implies(And(0 <= k, k < nharm - 1), T[k] == HP[1 + k]))'),
            ('ratio_in_dB', 'result.value == 10 * LOG10(SUMR(data(T), nharm - 1) / HP[0])'),
            ('powers_in_dB', 'forall(lambda k: Implies(And(0 <= k, k < nharm), result.harmpow[k] == 10 * LOG10(HP[k])))'),
            ('frequencies', 'forall(lambda k: Implies(And(0 <= k, k < nharm), result.harmfreq[k] == HF[k]))')])
