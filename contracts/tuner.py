"""C14 / C06 / C05: frequency translation (include/dsplib/tuner.h)."""
from engine.spec import fn, inline_fn
from contracts.mathfun import LIBM
from contracts.fir import mod_step
import z3 as _z3

D = 'drivers/instantiate.cpp'
ENV = dict(LIBM)
ENV['MOD_STEP'] = mod_step

# E(t) = exp(2*pi*i*t): the unit phasor of t turns. Periodicity E(t + m) = E(t) for integer m is the only fact
# used about it (A2).
ER = _z3.Function('turn_re', _z3.RealSort(), _z3.RealSort())
EI = _z3.Function('turn_im', _z3.RealSort(), _z3.RealSort())


def turn_def(t):
    """cos/sin of 2*pi*t are the components of E(t) (definition of the spec function in terms of libm symbols)"""
    from engine.prelude import COS, SIN
    from engine.core import PI
    return _z3.And(ER(t) == COS(2 * PI * t), EI(t) == SIN(2 * PI * t))


ENV.update({'ER': ER, 'EI': EI, 'TURN_DEF': turn_def})

TUN_OK = 'And(_fs >= 1, 0 <= _phase, _phase < _fs)'

# With K the number of samples processed so far (ghost: K == _phase mod fs), sample k of the stream is multiplied by
# exp(2*pi*i*f*k/fs). The code evaluates the phase at (k mod fs): that is the same phasor whenever f*floor(k/fs)
# is an integer (in particular for integer f), which is what the clause below states sample by sample.
def l_phase(f, fs, K, k, ph):
    """L-PHASE (trusted; periodicity of the complex exponential): with K + k = fs*q + r, 0 <= r < fs,
    exp(2*pi*i*f*(K+k)/fs) = exp(2*pi*i*f*r/fs) whenever f*q is an integer"""
    from engine.spec import tdiv, tmod
    from engine.prelude import COS, SIN
    from engine.core import PI
    q = tdiv(K + k, fs)
    r = tmod(K + k, fs)
    t = f * _z3.ToReal(K + k) / _z3.ToReal(fs)
    fi = _z3.Int('ghost.integer_freq')
    return _z3.Implies(f == _z3.ToReal(fi),     # integral f: f*q is an integer for every q
                       _z3.And(ER(t) == COS(2 * PI * f * _z3.ToReal(r) / _z3.ToReal(fs)),
                               EI(t) == SIN(2 * PI * f * _z3.ToReal(r) / _z3.ToReal(fs))))


ENV['L_PHASE'] = l_phase

fn('dsplib::Tuner::process', D, serves=['C14', 'C06', 'C05'], extra_env=ENV, assigns=['this._phase'],
   lets={'Q': 'ghost_int("wraps_so_far")', 'k0': 'ghost_int("sample")', 'FI': 'ghost_int("integer_freq")'},
   requires=[('invariant', TUN_OK), ('ghost', 'And(Q >= 0, 0 <= k0, k0 < x.len, Q <= 1000000)')], throws='False',
   post_facts=['L_PHASE(_freq, _fs, old._phase + _fs * Q, k0, 0)',
               'And(tdiv(old._phase + _fs*Q + k0, _fs) == Q + tdiv(old._phase + k0, _fs), tmod(old._phase + _fs*Q + k0, _fs) == tmod(old._phase + k0, _fs))'],
   ensures=[('invariant', TUN_OK),
            # the property itself: stream sample number K + k0 (K = samples consumed before this call) is multiplied
            # by exp(2*pi*i*f*(K+k0)/fs); k0 and the number of earlier wraps Q are arbitrary (ghost) values

            ('length', 'result.len == x.len'),
            ('phase_counter', '_phase == tmod(old._phase + x.len, _fs)'),
            ('rotation', 'forall(lambda k: Implies(And(0 <= k, k < x.len), result[k] == x[k] * cx(COS(2*PI*_freq*ToReal(tmod(old._phase + k, _fs))/ToReal(_fs)), SIN(2*PI*_freq*ToReal(tmod(old._phase + k, _fs))/ToReal(_fs)))))')],
   ensures_after=[
            # the property for integral f: stream sample number K + k0 (K = old phase + fs*Q samples consumed before
            # this call; k0, Q arbitrary ghost values) is multiplied by exp(2*pi*i*f*(K+k0)/fs). For non-integral f
            # the code's per-fs wrap of the phase counter breaks this (known finding, see known_findings.txt).
            ('stream_rotation_integral_f', 'Implies(_freq == ToReal(FI), result[k0] == x[k0] * cx(ER(_freq * ToReal(old._phase + _fs*Q + k0) / ToReal(_fs)), EI(_freq * ToReal(old._phase + _fs*Q + k0) / ToReal(_fs))))')],
   loops={1: {'facts': ['MOD_STEP(old._phase + i, _fs)'],
              'inv': [('inv', TUN_OK), ('len', 'r.len == n'), ('n', 'n == x.len'),
                      ('phase', '_phase == tmod(old._phase + i, _fs)'),
                      ('done', 'forall(lambda k: Implies(And(0 <= k, k < i), r[k] == x[k] * cx(COS(2*PI*_freq*ToReal(tmod(old._phase + k, _fs))/ToReal(_fs)), SIN(2*PI*_freq*ToReal(tmod(old._phase + k, _fs))/ToReal(_fs)))))')]}})
