"""C07 / C18 / C05: FFT-based correlation helpers -- shapes, padding and lag bookkeeping (lib/xcorr.cpp, lib/utils.cpp).

xcorr(a, b) returns len(a)+len(b)-1 values (lags -(len(b)-1) .. len(a)-1); finddelay's result is the argmax of the circular
correlation unwrapped to a signed lag within half the transform length. That the FFT-domain product equals the correlation
sum (correlation theorem over the assumed transform) is not proved."""
from engine.spec import fn

X = 'lib/xcorr.cpp'
U = 'lib/utils.cpp'

fn('dsplib::xcorr', X, sig='(const dsplib::arr_cmplx &, const dsplib::arr_cmplx &)', key='xcorr(cmplx,cmplx)', serves=['C07', 'C05'], pure=True,
   requires=[('nonempty', 'And(x1.len >= 1, x2.len >= 1, x1.len + x2.len <= 536870912)')], throws='False', body_assumes=['INSLICE_AX()'],
   # data path over the assumed transforms (the correlation theorem that turns it into the correlation sum is mathematics; bounded
   # stand-in in the thorough tier): A1 / A2 go into the two forward transforms, RA1 / RA2 come out, B goes into the inverse, RB out
   pins_algorithm=True, extra_env={'cplx_placeholder': __import__('contracts.hilbert', fromlist=['x']).cplx_placeholder},
   ghost={'A1': 'x1', 'A2': 'x1', 'RA1': 'x1', 'RA2': 'x1', 'B': 'x1', 'RB': 'x1'},
   ghost_on=[('call:fft', None, {'A2': 'arg0', 'A1': 'A2'}), ('ret:fft', None, {'RA2': 'arg', 'RA1': 'RA2'}),
             ('call:ifft', None, {'B': 'arg0'}), ('ret:ifft', None, {'RB': 'arg'})],
   lets={'N1': 'x1.len', 'N2': 'x2.len'},
   ensures=[('lags', 'result.len == x1.len + x2.len - 1'),
            ('first_padded_at_the_end', 'And(A1.len >= N1 + N2 - 1, A1.len < 2 * (N1 + N2 - 1) + 1, forall(lambda k: Implies(And(0 <= k, k < A1.len), same(A1[k], If(k < N1, x1[k], cx(0, 0))))))'),
            ('second_padded_at_the_front', 'And(A2.len == A1.len, forall(lambda k: Implies(And(0 <= k, k < A2.len), same(A2[k], If(k >= A2.len - N2, x2[k - (A2.len - N2)], cx(0, 0))))))'),
            ('conjugate_product', 'And(B.len == A1.len, RA1.len == A1.len, RA2.len == A1.len, forall(lambda k: Implies(And(0 <= k, k < A1.len), '
                                  'And(B[k].re == RA1[k].re * RA2[k].re + RA1[k].im * RA2[k].im, B[k].im == RA1[k].re * RA2[k].im - RA1[k].im * RA2[k].re))))'),
            ('lags_read_backwards_conjugated', 'And(RB.len == A1.len, forall(lambda j: Implies(And(0 <= j, j < N1 + N2 - 1), '
                                               'And(result[j].re == RB[A1.len - 1 - j].re, result[j].im == -RB[A1.len - 1 - j].im))))')])
fn('dsplib::xcorr', X, sig='(const dsplib::arr_real &, const dsplib::arr_real &)', key='xcorr(real,real)', serves=['C07', 'C05'], pure=True,
   requires=[('nonempty', 'And(x1.len >= 1, x2.len >= 1, x1.len + x2.len <= 536870912)')], throws='False',
   ensures=[('lags', 'result.len == x1.len + x2.len - 1')])

for T, key in (('double', 'real'), ('dsplib::cmplx_t', 'cmplx')):
    fn('dsplib::_finddelay', U, sig='(const base_array<%s> &' % T, key='_finddelay<%s>' % key, serves=['C18', 'C05'], pure=True,
       requires=[('nonempty', 'And(x1.len >= 1, x2.len >= 1, x1.len <= 536870912, x2.len <= 536870912)')], throws='False',
       ensures=[('signed_lag', 'exists_w(lambda nf: And(nf >= x1.len, nf >= x2.len, 2 * result >= -nf, 2 * result < nf + 2), nfft)')])
