"""C07 / C18 / C05: FFT-based correlation helpers -- shapes, padding and lag bookkeeping (lib/xcorr.cpp, lib/utils.cpp).

xcorr(a, b) returns len(a)+len(b)-1 values (lags -(len(b)-1) .. len(a)-1); finddelay's result is the argmax of the circular
correlation unwrapped to a signed lag within half the transform length. That the FFT-domain product equals the correlation
sum (correlation theorem over the assumed transform) is not proved."""
from engine.spec import fn

X = 'lib/xcorr.cpp'
U = 'lib/utils.cpp'

fn('dsplib::xcorr', X, sig='(const dsplib::arr_cmplx &, const dsplib::arr_cmplx &)', key='xcorr(cmplx,cmplx)', serves=['C07', 'C05'], pure=True,
   requires=[('nonempty', 'And(x1.len >= 1, x2.len >= 1, x1.len + x2.len <= 536870912)')], throws='False', body_assumes=['INSLICE_AX()'],
   ensures=[('lags', 'result.len == x1.len + x2.len - 1')])
fn('dsplib::xcorr', X, sig='(const dsplib::arr_real &, const dsplib::arr_real &)', key='xcorr(real,real)', serves=['C07', 'C05'], pure=True,
   requires=[('nonempty', 'And(x1.len >= 1, x2.len >= 1, x1.len + x2.len <= 536870912)')], throws='False',
   ensures=[('lags', 'result.len == x1.len + x2.len - 1')])

for T, key in (('double', 'real'), ('dsplib::cmplx_t', 'cmplx')):
    fn('dsplib::_finddelay', U, sig='(const base_array<%s> &' % T, key='_finddelay<%s>' % key, serves=['C18', 'C05'], pure=True,
       requires=[('nonempty', 'And(x1.len >= 1, x2.len >= 1, x1.len <= 536870912, x2.len <= 536870912)')], throws='False',
       ensures=[('signed_lag', 'exists_w(lambda nf: And(nf >= x1.len, nf >= x2.len, 2 * result >= -nf, 2 * result < nf + 2), nfft)')])
