"""C08 / C05: default multirate filter design (lib/resample/resample.cpp) and repelem (lib/utils.cpp)."""
from engine.spec import fn
from contracts.resample import ENV as RENV

R = 'lib/resample/resample.cpp'
U = 'lib/utils.cpp'
ENV = dict(RENV)
SPECIAL = 'And(interp > 1, decim > interp, tmod(hlen * interp, decim) != 0)'
fn('dsplib::(anon)::_multirate_fir', R, serves=['C08', 'C05'], pure=True, extra_env=ENV, throws='False',
   requires=[('rates', 'And(interp >= 1, decim >= 1, interp <= 1000, decim <= 1000, Or(interp > 1, decim > 1))'), ('half_length', 'And(hlen >= 1, hlen <= 100)')],
   lets={'RR': 'If(interp > 1, interp, decim)'},
   ensures=[('length', 'result.len == If(%s, 2 * hlen * RR + 2, 2 * hlen * RR)' % SPECIAL)])

# repelem(x, n)[k] = x[k div n]; stated for an arbitrary (ghost) output index k0 with j0 = k0 div n, so that the only division
# facts needed are instances at k0 (definition of the quotient, monotonicity of products)
for T, key in (('dsplib::arr_real', 'real'), ('dsplib::arr_cmplx', 'cmplx')):
    fn('dsplib::_repelem', U, sig='(const dsplib::base_array<%s> &, int)' % ('double' if key == 'real' else 'dsplib::cmplx_t'), key='_repelem<%s>' % key, serves=['C17', 'C05'], pure=True, extra_env=ENV,
       requires=[('count', 'And(n >= 0, n <= 65536)'), ('size', 'x.len <= 16384'), ('ghost', 'And(0 <= k0, k0 < x.len * n)')], throws='False',
       lets={'k0': 'ghost_int("output index")'},
       ensures=[('length', 'result.len == x.len * n'),
                ('repeated', 'Implies(n >= 1, same(result[k0], x[tdiv(k0, n)]))')],
       loops={1: {'inv': [('len', 'And(r.len == x.len * n, n >= 2)'),
                          ('done', 'Implies(k0 < i * n, same(r[k0], x[tdiv(k0, n)]))')],
                  'facts': ['MULMONO(i, tdiv(k0, n) + 1, n)', 'MULMONO(tdiv(k0, n), i + 1, n)', 'MULMONO(x.len, i + 1, n)',
                            'And(n * tdiv(k0, n) <= k0, k0 < n * tdiv(k0, n) + n)']}})
    fn('dsplib::repelem', U, sig='%s (const %s &, int)' % (T, T), key='repelem<%s>' % key, serves=['C17', 'C05'], pure=True, extra_env=ENV,
       requires=[('count', 'And(n >= 0, n <= 65536)'), ('size', 'x.len <= 16384'), ('ghost', 'And(0 <= k0, k0 < x.len * n)')], throws='False',
       lets={'k0': 'ghost_int("output index")'},
       ensures=[('length', 'result.len == x.len * n'), ('repeated', 'Implies(n >= 1, same(result[k0], x[tdiv(k0, n)]))')])
