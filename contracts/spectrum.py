"""C13 / C05: Welch spectral estimate (lib/spectrum.cpp). FFT core assumed (contracts/fftabs.py)."""
from engine.spec import fn, inline_fn
from contracts.fftabs import ENV as FENV

SP = 'lib/spectrum.cpp'
ENV = dict(FENV)

for T, key in (('double', 'real'), ('dsplib::cmplx_t', 'cmplx')):
    fn('dsplib::(anon)::_calcspec', SP, sig='(const base_array<%s> &' % T, key='_calcspec<%s>' % key, serves=['C13', 'C05'],
       pure=True, extra_env=ENV, may_throw=True,
       requires=[('sizes', 'And(win.len >= 1, win.len <= 1048576, nfft >= 1, nfft <= 1048576, x.len >= win.len, x.len <= 1073741824, noverlap >= 0)'),
                 ('window_power', 'And(DOT(data(win), 0, 1, data(win), win.len) > 0, SUMR(data(win), win.len) != 0)')],
       ensures=[('length', 'result.len == nfft'),
                ('non_negative', 'forall(lambda k: Implies(And(0 <= k, k < nfft), result[k] >= 0))'),
                # the constants of the estimate: window-power compensation (density: sum w^2; power: (sum w)^2), hop and segment count
                ('local:normalisation', 'exists_w(lambda wp, ns, st: And(wp == If(type == 0, DOT(data(win), 0, 1, data(win), win.len), SUMR(data(win), win.len) * SUMR(data(win), win.len)), '
                                        'st == win.len - noverlap, ns == tdiv(x.len - win.len, win.len - noverlap) + 1), winpow, num_segments, stride)')],
       asserts_on=[('call:operator/=', [('averaged_over_segments', 'arg0 == num_segments')]),
                   ('call:operator/', [('each_periodogram_divided_by_window_power', 'arg0 == winpow')])],
       loops={1: {'inv': [('shape', 'And(pxx.len == nfft, seg.len == winlen, winpow > 0, num_segments >= 1, stride >= 1)'),
                          ('non_negative', 'forall(lambda k: Implies(And(0 <= k, k < nfft), pxx[k] >= 0))')]}})

# one-sided estimate of a real signal: bins 0..nfft/2, interior bins doubled (DC and Nyquist not), labels k/nfft
fn('dsplib::(anon)::_welch', SP, sig='(const dsplib::arr_real &, const dsplib::arr_real &', key='_welch<real>', serves=['C13', 'C05'],
   pure=True, extra_env=ENV, may_throw=True,
   requires=[('sizes', 'And(win.len >= 1, win.len <= 1048576, x.len >= win.len, x.len <= 1073741824, noverlap >= 0)'), ('window_power', 'And(DOT(data(win), 0, 1, data(win), win.len) > 0, SUMR(data(win), win.len) != 0)'), ('nfft', 'And(nfft >= 2, nfft <= 1048576, tmod(nfft, 2) == 0)')],
   ghost={'P': 'win'}, ghost_on=[('ret:_calcspec', None, {'P': 'arg'})],
   lets={'h': 'tdiv(nfft, 2)'},
   ensures=[('lengths', 'And(result.pxx.len == h + 1, result.f.len == h + 1)'),
            ('labels', 'forall(lambda k: Implies(And(0 <= k, k <= h), result.f[k] * ToReal(nfft) == ToReal(k)))'),
            ('folding', 'And(result.pxx[0] == P[0], result.pxx[h] == P[h], forall(lambda k: Implies(And(0 < k, k < h), result.pxx[k] == 2 * P[k])))')])

# two-sided estimate of a complex signal: entry k carries the frequency its label says, i.e. it is DFT bin (f[k]*nfft) mod nfft
fn('dsplib::(anon)::_welch', SP, sig='(const dsplib::arr_cmplx &, const dsplib::arr_real &', key='_welch<cmplx>', serves=['C13', 'C05'],
   pure=True, extra_env=ENV, may_throw=True,
   requires=[('sizes', 'And(win.len >= 1, win.len <= 1048576, x.len >= win.len, x.len <= 1073741824, noverlap >= 0)'), ('window_power', 'And(DOT(data(win), 0, 1, data(win), win.len) > 0, SUMR(data(win), win.len) != 0)'), ('nfft', 'And(nfft >= 4, nfft <= 1048576, tmod(nfft, 2) == 0)'), ('ghost', 'And(0 <= k0, k0 < nfft)')],
   ghost={'P': 'win'}, ghost_on=[('ret:_calcspec', None, {'P': 'arg'})],
   lets={'h': 'tdiv(nfft, 2)', 'k0': 'ghost_int("entry")'},
   ensures=[('lengths', 'And(result.pxx.len == nfft, result.f.len == nfft)'),
            ('labels', 'result.f[k0] * ToReal(nfft) == ToReal(k0 - h + 1)'),
            # companion of the recorded finding below: the values are either in the order the labels state (the property) or in
            # DFT order (the recorded defect); any third ordering is a new violation. Holds on the current tree and on a
            # tree where the order has been repaired
            ('dft_or_label_order', 'Or(result.pxx[k0] == P[k0], result.pxx[k0] == P[tmod(k0 - h + 1 + nfft, nfft)])'),
            # the property: the value at entry k0 belongs to the frequency its label states. Known finding (the values are
            # in DFT order while the axis is centred; the test helpers rely on the DFT order, so it is recorded, not repaired)
            ('label_matches_bin', 'result.pxx[k0] == P[tmod(k0 - h + 1 + nfft, nfft)]')])

# public overloads: forwarding with the documented defaults (half-window overlap, nfft = next power of two of the window)
for T, key in (('dsplib::arr_real', 'real'), ('dsplib::arr_cmplx', 'cmplx')):
    fn('dsplib::welch', SP, sig='(const %s &, const dsplib::arr_real &, dsplib::SpectrumType)' % T, key='welch<%s>(x,win,type)' % key,
       serves=['C13', 'C05'], pure=True, extra_env=ENV, may_throw=True,
       requires=[('window', 'And(win.len >= %d, win.len <= 1048576)' % (2 if key == 'real' else 3)),
                 ('signal', 'And(x.len >= win.len, x.len <= 1073741824)'),
                 ('window_power', 'And(DOT(data(win), 0, 1, data(win), win.len) > 0, SUMR(data(win), win.len) != 0)')],
       ghost={'NOV': '-1', 'NF': '-1'}, ghost_on=[('call:welch', None, {'NOV': 'arg2', 'NF': 'arg3'})],
       ensures=[('half_window_overlap', 'NOV == tdiv(win.len, 2)'),
                ('nfft_is_next_power_of_two', 'And(NF >= win.len, Or(win.len == 1, NF < 2 * win.len), exists(lambda k: And(0 <= k, k <= 30, NF == pow2(k))))')])
    # the five-argument overload hands its arguments to _welch unchanged and returns its result (lengths and labels restated)
    RQ = [('sizes', 'And(win.len >= 1, win.len <= 1048576, x.len >= win.len, x.len <= 1073741824, noverlap >= 0)'),
          ('window_power', 'And(DOT(data(win), 0, 1, data(win), win.len) > 0, SUMR(data(win), win.len) != 0)'),
          ('nfft', 'And(nfft >= %d, nfft <= 1048576, tmod(nfft, 2) == 0)' % (2 if key == 'real' else 4))]
    fn('dsplib::welch', SP, sig='(const %s &, const dsplib::arr_real &, int, int, dsplib::SpectrumType)' % T,
       key='welch<%s>(x,win,noverlap,nfft,type)' % key, serves=['C13', 'C05'], pure=True, extra_env=ENV, may_throw=True,
       requires=RQ + ([('ghost', 'And(0 <= k0, k0 < nfft)')] if key == 'cmplx' else []),
       lets=dict({'h': 'tdiv(nfft, 2)'}, **({'k0': 'ghost_int("entry")'} if key == 'cmplx' else {})),
       ghost={'NOV': '-1', 'NF': '-1', 'TY': '-1', 'WL': '-1', 'XL': '-1'},
       ghost_on=[('call:_welch', None, {'NOV': 'arg2', 'NF': 'arg3', 'TY': 'arg4', 'WL': 'arg1.len', 'XL': 'arg0.len'})],
       ensures=[('forwards_unchanged', 'And(NOV == noverlap, NF == nfft, TY == type, WL == win.len, XL == x.len)')] + (
           [('lengths', 'And(result.pxx.len == h + 1, result.f.len == h + 1)'),
            ('labels', 'forall(lambda k: Implies(And(0 <= k, k <= h), result.f[k] * ToReal(nfft) == ToReal(k)))')] if key == 'real' else
           [('lengths', 'And(result.pxx.len == nfft, result.f.len == nfft)'),
            ('labels', 'result.f[k0] * ToReal(nfft) == ToReal(k0 - h + 1)')]))

# magnitude-squared coherence: |Pxy|^2 / (Pxx * Pyy) of the accumulated (cross-)spectra, nfft/2+1 bins
MS = 'lib/mscohere.cpp'
fn('dsplib::(anon)::_mscohere', MS, serves=['C13', 'C05'], pure=True, extra_env=ENV, may_throw=True,
   requires=[('sizes', 'And(win.len >= 1, win.len <= 1048576, nfft >= 2, nfft <= 1048576, x.len >= win.len, x.len <= 1073741824, noverlap >= 0)')],
   lets={'h': 'tdiv(nfft, 2)'},
   ensures=[('length', 'result.len == h + 1'),
            ('definition', 'exists_w(lambda AXX, AYY, AXR, AXI: forall(lambda k: Implies(And(0 <= k, k <= h), '
                           'result[k] == (AXR[k]*AXR[k] + AXI[k]*AXI[k]) / (AXX[k] * AYY[k]))), data(Pxx), data(Pyy), re_data(Pxy), im_data(Pxy))')],
   loops={1: {'inv': [('shape', 'And(Pxx.len == h + 1, Pyy.len == h + 1, Pxy.len == h + 1, X.len == h + 1, Y.len == h + 1, px.len == winlen, py.len == winlen, stride >= 1)')]}})
