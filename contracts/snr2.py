"""C19: tone extraction of snr/sinad/thd (lib/snr.cpp): the tone's bins are the skirt around a local maximum; its power is the
sum of those bins and its frequency their power-weighted centroid -- both homogeneous in the spectrum's scale."""
from engine.spec import fn
from engine.specfun import NS as SF

S_ = 'lib/snr.cpp'
A = 'dsplib::(anon)::'
ENV = dict(SF)

fn(A + '_get_psd_tone', S_, sig='(const dsplib::arr_real &, dsplib::real_t)', key='_get_psd_tone(spec,freq)', serves=['C19', 'C05'], pure=True, extra_env=ENV,
   requires=[('nonempty', 'And(spec.len >= 1, spec.len <= 262144)'), ('frequency', 'And(tone_freq >= -4, tone_freq <= 4)')], throws='False',
   body_assumes=['INSLICE_AX()'],
   ensures=[('skirt', 'And(0 <= result.lpos, result.lpos <= result.rpos, result.rpos < spec.len, result.size == spec.len)'),
            ('hint:falling_left', 'forall(lambda j: Implies(And(result.lpos < j, j <= ipeak), spec[j - 1] < spec[j]))'),
            ('power_is_sum_of_the_skirt', 'exists_w(lambda B: And(forall(lambda t: Implies(And(0 <= t, t <= result.rpos - result.lpos), B[t] == spec[result.lpos + t])), '
                                          'result.power == SUMR(B, result.rpos - result.lpos + 1)), data(s_fund))')])
