"""C19: tone extraction of snr/sinad/thd (lib/snr.cpp): the tone's bins are the skirt around a local maximum; its power is the
sum of those bins and its frequency their power-weighted centroid -- both homogeneous in the spectrum's scale."""
from engine.spec import fn
from engine.specfun import NS as SF

S_ = 'lib/snr.cpp'
A = 'dsplib::(anon)::'
ENV = dict(SF)
from contracts.mathfun import LIBM as _LIBM
ENV.update({k: v for k, v in _LIBM.items() if k not in ENV})

import z3 as _z3


def wmean(F, Sw, m, lo, hi):
    """weighted-mean bounds: weights >= 0 and lo <= F[j] <= hi below m imply lo*sum(S) <= dot(F, S) <= hi*sum(S) and sum(S) >= 0
    (induction on m; engine/selftest.py)"""
    from engine.specfun import SUMR, DOT
    F, Sw, m, lo, hi = [getattr(t, 'z', t) for t in (F, Sw, m, lo, hi)]
    j = _z3.Int('j!wm')
    return _z3.Implies(_z3.ForAll([j], _z3.Implies(_z3.And(0 <= j, j < m), _z3.And(Sw[j] >= 0, lo <= F[j], F[j] <= hi))),
                       _z3.And(SUMR(Sw, m) >= 0, lo * SUMR(Sw, m) <= DOT(F, 0, 1, Sw, m), DOT(F, 0, 1, Sw, m) <= hi * SUMR(Sw, m)))


ENV['WMEAN'] = wmean


def sumr_ge(Aa, m, p):
    """a sum of non-negative terms is non-negative and at least any one of its terms (induction on m; engine/selftest.py)"""
    from engine.specfun import SUMR
    Aa, m, p = [getattr(t, 'z', t) for t in (Aa, m, p)]
    j = _z3.Int('j!sg')
    return _z3.Implies(_z3.ForAll([j], _z3.Implies(_z3.And(0 <= j, j < m), Aa[j] >= 0)),
                       _z3.And(SUMR(Aa, m) >= 0, _z3.Implies(_z3.And(0 <= p, p < m), SUMR(Aa, m) >= Aa[p])))


ENV['SUMR_GE'] = sumr_ge


def dotsq_ge(Aa, m, p):
    """a sum of squares is at least any one of its terms: DOT(A, 0, 1, A, m) >= A[p]^2 for 0 <= p < m, and >= 0
    (induction on m; engine/selftest.py)"""
    from engine.specfun import DOT
    Aa, m, p = [getattr(t, 'z', t) for t in (Aa, m, p)]
    return _z3.And(_z3.Implies(m >= 0, DOT(Aa, 0, 1, Aa, m) >= 0), _z3.Implies(_z3.And(0 <= p, p < m), DOT(Aa, 0, 1, Aa, m) >= Aa[p] * Aa[p]))


ENV['DOTSQ_GE'] = dotsq_ge
fn(A + '_get_psd_tone', S_, sig='(const dsplib::arr_real &, dsplib::real_t)', key='_get_psd_tone(spec,freq)', serves=['C19', 'C05'], pure=True, extra_env=ENV,
   requires=[('nonempty', 'And(spec.len >= 1, spec.len <= 262144)'), ('frequency', 'And(tone_freq >= -4, tone_freq <= 4)')], throws='False',
   body_assumes=['INSLICE_AX()'],
   post_facts=['WMEAN(data(f_fund), data(s_fund), rpos - lpos + 1, ToReal(lpos) / ToReal(n), ToReal(rpos) / ToReal(n))', 'SUMR_GE(data(s_fund), rpos - lpos + 1, freq_num - lpos)'],
   ensures=[('skirt', 'And(0 <= result.lpos, result.lpos <= result.rpos, result.rpos < spec.len, result.size == spec.len)'),
            ('hint:falling_left', 'forall(lambda j: Implies(And(result.lpos < j, j <= ipeak), spec[j - 1] < spec[j]))'),
            # for a non-negative spectrum with some power in the skirt the reported frequency (the power-weighted centroid of the
            # skirt's bin frequencies) lies inside the skirt
            ('centroid_in_skirt', 'Implies(And(forall(lambda k: Implies(And(0 <= k, k < spec.len), spec[k] >= 0)), result.power > 0), '
                                  'And(result.freq * ToReal(spec.len) >= ToReal(result.lpos), result.freq * ToReal(spec.len) <= ToReal(result.rpos)))'),
            ('power_at_least_the_start_bin', 'Implies(And(forall(lambda k: Implies(And(0 <= k, k < spec.len), spec[k] >= 0)), result.lpos <= {c}, {c} <= result.rpos), '
                                             'And(result.power >= 0, result.power >= spec[{c}]))'.format(c='zmax(zmin(ToInt(rnd(tone_freq * ToReal(spec.len))), spec.len - 1), 0)')),
            # started on a local maximum (the bin nearest to tone_freq), the walk stays there and the skirt is taken around it
            ('skirt_around_a_local_maximum', 'Implies(And(Or({c} == 0, spec[{c} - 1] <= spec[{c}]), Or({c} == spec.len - 1, spec[{c}] >= spec[{c} + 1])), '
                                             'And(result.lpos <= {c}, {c} <= result.rpos))'.format(c='zmax(zmin(ToInt(rnd(tone_freq * ToReal(spec.len))), spec.len - 1), 0)')),
            ('power_is_sum_of_the_skirt', 'exists_w(lambda B: And(forall(lambda t: Implies(And(0 <= t, t <= result.rpos - result.lpos), B[t] == spec[result.lpos + t])), '
                                          'result.power == SUMR(B, result.rpos - result.lpos + 1)), data(s_fund))')])
