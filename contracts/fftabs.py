"""Assumed (trusted) contracts of the FFT core used by everything built on top of it. The transform is an
uninterpreted linear operator: only lengths (and that the result is a function of the input) are assumed here.
What is actually proved about the plans is in contracts/fftplans.py; until a plan is listed there, this file is
the assumption every dependent proof reports."""
from engine.spec import fn
import z3 as _z3

AR = _z3.ArraySort(_z3.IntSort(), _z3.RealSort())
DFT_RE = _z3.Function('dft_re', AR, AR, _z3.IntSort(), AR)
DFT_IM = _z3.Function('dft_im', AR, AR, _z3.IntSort(), AR)
ENV = {'DFT_RE': DFT_RE, 'DFT_IM': DFT_IM}
N = 'assumed: the plan returns the n-point transform of its n-sample input (FFT core)'

F = 'lib/fft/fft.cpp'
# the assumed transforms are linear maps: the zero sequence maps to the zero sequence
ZERO = ('zero_in_zero_out', 'Implies(forall(lambda k: Implies(And(0 <= k, k < x.len), And(x[k].re == 0, x[k].im == 0))), '
                            'forall(lambda k: Implies(And(0 <= k, k < x.len), And(result[k].re == 0, result[k].im == 0))))')
DFTPOST = [('length', 'result.len == x.len'), ZERO,
           ('is_dft', 'And(same(re_data(result), DFT_RE(re_data(x), im_data(x), x.len)), same(im_data(result), DFT_IM(re_data(x), im_data(x), x.len)))')]
fn('dsplib::fft', F, sig='(const dsplib::arr_cmplx &)', key='fft(arr_cmplx)', serves=['C01'], trusted=True, pure=True, extra_env=ENV,
   requires=[('nonempty', 'x.len >= 1')], ensures=DFTPOST, notes=N)
fn('dsplib::fft', F, sig='(const dsplib::arr_real &)', key='fft(arr_real)', serves=['C01'], trusted=True, pure=True, extra_env=ENV,
   requires=[('nonempty', 'x.len >= 1')], ensures=[('length', 'result.len == x.len')], notes=N)
fn('dsplib::ifft', 'lib/fft/ifft.cpp', sig='(const dsplib::arr_cmplx &)', key='ifft(arr_cmplx)', serves=['C02'], trusted=True, pure=True,
   requires=[('nonempty', 'x.len >= 1')], ensures=[('length', 'result.len == x.len'), ZERO], notes=N)
from contracts.plancache import PLAN_SIZE as _PS, handle as _handle
fn('dsplib::FftPlan::FftPlan', F, serves=['C01'], trusted=True, assigns=['this'], requires=[('size', 'n >= 1')],
   extra_env={'PLAN_SIZE': _PS, 'handle': _handle}, ensures=[('size', 'PLAN_SIZE(handle(_d)) == n')], notes=N + '; the plan it wraps reports size n')
fn('dsplib::FftPlanR::FftPlanR', F, serves=['C01'], trusted=True, assigns=['this'], requires=[('size', 'n >= 1')], notes=N)
for cls in ('FftPlan', 'FftPlanR'):
    for m in ('operator()', 'solve'):
        fn('dsplib::%s::%s' % (cls, m), 'lib/fft/ifft.cpp' if cls == 'FftPlan' else 'lib/stft.cpp', sig='&) const',
           key='%s::%s' % (cls, m), serves=['C01'], trusted=True, pure=True, extra_env=ENV,
           requires=[('nonempty', 'x.len >= 1')],
           ensures=DFTPOST if cls == 'FftPlan' else [('length', 'result.len == x.len')], notes=N)
