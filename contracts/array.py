"""C03 / C05: base_array element-wise operators, selection, concatenation (include/dsplib/array.h)."""
from engine.spec import fn, inline_fn
from engine.specfun import NS as _SF

TU = 'drivers/instantiate.cpp'
A = 'dsplib::base_array<*>::'

# one-line accessors are executed as written (their bodies are the code that runs)
inline_fn(A + 'slice', A + 'size', A + 'data', A + 'begin', A + 'end', A + 'empty', A + 'operator()', A + 'to_vec')

# element access: operator[](int) accepts [-n, n); operator[](size_t) accepts [0, n)
for sig in ('&(int)',):
    fn(A + 'operator[]', TU, sig=sig, key='base_array::operator[](int)|' + sig, serves=['C03', 'C05'], inline=True,
       requires=[], verify=False)
fn(A + 'operator[]', TU, sig='&(size_t)', key='base_array::operator[](size_t)', serves=['C03', 'C05'], inline=True,
   verify=False)

OPS = (('+', 'operator+='), ('-', 'operator-='), ('*', 'operator*='), ('/', 'operator/='))

for sym, op in OPS:
    # array (op)= array
    fn(A + op, TU, sig='&(const base_array<', key='base_array::%s(array)' % op, serves=['C03', 'C05'],
       returns_ref='this', assigns=['this._vec'],
       scenarios=[{'name': 'distinct'}, {'name': 'alias', 'alias': {'rhs': 'this'}}],
       throws='this.len != rhs.len',
       ensures=[('length', 'this.len == old.this.len'),
                ('elementwise', 'forall(lambda k: Implies(And(0 <= k, k < this.len), this[k] == old.this[k] %s old.rhs[k]))' % sym)],
       loops={1: {'inv': [('len', '_vec.len == old._vec.len'),
                          ('done', 'forall(lambda k: Implies(And(0 <= k, k < i), _vec[k] == old._vec[k] %s old.rhs[k]))' % sym),
                          ('todo', 'forall(lambda k: Implies(And(i <= k, k < _vec.len), _vec[k] == old._vec[k]))')]}})
    # array (op)= scalar
    fn(A + op, TU, sig_not='(const base_array<', key='base_array::%s(scalar)' % op, serves=['C03', 'C05'],
       returns_ref='this', assigns=['this._vec'],
       ensures=[('length', 'this.len == old.this.len'),
                ('elementwise', 'forall(lambda k: Implies(And(0 <= k, k < this.len), this[k] == old.this[k] %s rhs))' % sym)],
       loops={1: {'inv': [('len', '_vec.len == old._vec.len'),
                          ('done', 'forall(lambda k: Implies(And(0 <= k, k < i), _vec[k] == old._vec[k] %s rhs))' % sym),
                          ('todo', 'forall(lambda k: Implies(And(i <= k, k < _vec.len), _vec[k] == old._vec[k]))')]}})

OPN = {'+': 'add', '-': 'sub', '*': 'mul', '/': 'div'}

# constructors that consist of member initialisers only are executed as written
inline_fn(A + 'base_array')
inline_fn('dsplib::zeros')

# array_cast: identity, or real -> complex with zero imaginary part
fn('dsplib::array_cast', TU, serves=['C03'], pure=True,
   ensures=[('length', 'result.len == src.len'),
            ('promotion', 'forall(lambda k: Implies(And(0 <= k, k < src.len), eqv(result[k], src[k])))')],
   loops={1: {'inv': [('len', 'dst.len == src.len'),
                      ('done', 'forall(lambda k: Implies(And(0 <= k, k < i), eqv(dst[k], src[k])))'),
                      ('todo', 'forall(lambda k: Implies(And(i <= k, k < dst.len), eqv(dst[k], 0)))')]}})

for sym, op in OPS:
    bop = op[:-1]
    f = OPN[sym]
    # array (op) array  -> new array, operands untouched
    fn(A + bop, TU, sig='(const base_array<', sig_not='&(', key='base_array::%s(array)' % bop, serves=['C03', 'C05'],
       pure=True, scenarios=[{'name': 'distinct'}, {'name': 'alias', 'alias': {'rhs': 'this'}}],
       throws='this.len != rhs.len',
       ensures=[('length', 'result.len == this.len'),
                ('elementwise', 'forall(lambda k: Implies(And(0 <= k, k < this.len), eqv(result[k], %s(this[k], rhs[k]))))' % f)])
    # array (op) scalar
    fn(A + bop, TU, sig='&) const', sig_not='(const base_array<', key='base_array::%s(scalar)' % bop,
       serves=['C03'], pure=True,
       ensures=[('length', 'result.len == this.len'),
                ('elementwise', 'forall(lambda k: Implies(And(0 <= k, k < this.len), eqv(result[k], %s(this[k], rhs))))' % f)])
    # scalar (op) array
    fn('dsplib::' + bop, TU, sig='&, const base_array<', sig_not='std::complex', key='scalar %s base_array' % bop, serves=['C03'], pure=True,
       ensures=[('length', 'result.len == rhs.len'),
                ('elementwise', 'forall(lambda k: Implies(And(0 <= k, k < rhs.len), eqv(result[k], %s(lhs, rhs[k]))))' % f)],
       loops={1: {'inv': [('len', 'r.len == rhs.len'),
                          ('done', 'forall(lambda k: Implies(And(0 <= k, k < i), eqv(r[k], %s(lhs, rhs[k]))))' % f)]}})

# unary
fn(A + 'operator-', TU, sig='() const', serves=['C03'], pure=True,
   ensures=[('length', 'result.len == this.len'),
            ('elementwise', 'forall(lambda k: Implies(And(0 <= k, k < this.len), result[k] == -this[k]))')],
   loops={1: {'inv': [('len', 'r.len == _vec.len'),
                      ('done', 'forall(lambda k: Implies(And(0 <= k, k < i), r[k] == -_vec[k]))'),
                      ('todo', 'forall(lambda k: Implies(And(i <= k, k < r.len), r[k] == _vec[k]))')]}})
fn(A + 'operator+', TU, sig='&() const', serves=['C03'], returns_ref='this', ensures=[('identity', 'same(result, this)')])

# ---------------------------------------------------------------------------------------------------
# selection, comparison, concatenation (C03: exact elements in order; C05: misuse -> exception, never UB)
fn(A + 'operator[]', TU, sig='(const std::vector<int> &) const', key='base_array::operator[](vector<int>)',
   serves=['C03', 'C05'], pure=True,
   throws='exists(lambda k: And(0 <= k, k < idxs.len, Or(idxs[k] < 0, idxs[k] >= this.len)))',
   ensures=[('length', 'result.len == idxs.len'),
            ('gather', 'forall(lambda k: Implies(And(0 <= k, k < idxs.len), result[k] == this[idxs[k]]))')],
   loops={1: {'inv': [('len', 'res.len == idxs.len'),
                      ('range', 'forall(lambda k: Implies(And(0 <= k, k < i), And(0 <= idxs[k], idxs[k] < _vec.len)))'),
                      ('done', 'forall(lambda k: Implies(And(0 <= k, k < i), res[k] == _vec[idxs[k]]))')]}})

fn(A + 'operator[]', TU, sig='(const std::vector<bool> &) const', key='base_array::operator[](vector<bool>)',
   serves=['C03', 'C05'], pure=True,
   throws='idxs.len != this.len',
   ensures=[('bounded', 'And(0 <= result.len, result.len <= this.len)'),
            ('all_selected', 'Implies(forall(lambda k: Implies(And(0 <= k, k < idxs.len), idxs[k])), And(result.len == this.len, forall(lambda k: Implies(And(0 <= k, k < this.len), result[k] == this[k]))))'),
            ('none_selected', 'Implies(forall(lambda k: Implies(And(0 <= k, k < idxs.len), Not(idxs[k]))), result.len == 0)'),
            ('as_many_as_selected', 'result.len == COUNT_TRUE(data(idxs), idxs.len)')],
   extra_env=_SF,
   loops={1: {'facts': ['CT_BASE(data(idxs))', 'CT_STEP(data(idxs), i)'],
              'inv': [('count', 'And(0 <= res.len, res.len <= i, res.len == COUNT_TRUE(data(idxs), i))'),
                      ('all', 'Implies(forall(lambda k: Implies(And(0 <= k, k < i), idxs[k])), And(res.len == i, forall(lambda k: Implies(And(0 <= k, k < i), res[k] == _vec[k]))))'),
                      ('none', 'Implies(forall(lambda k: Implies(And(0 <= k, k < i), Not(idxs[k]))), res.len == 0)')]}})

for op, sym in (('operator>', '>'), ('operator<', '<'), ('operator==', '==')):
    fn(A + op, TU, sig='(const base_array<', key='base_array::%s(array)' % op, serves=['C05', 'C03'], pure=True,
       throws='this.len != rhs.len',
       ensures=[('length', 'result.len == this.len'),
                ('elementwise', 'forall(lambda k: Implies(And(0 <= k, k < this.len), result[k] == (this[k] %s rhs[k])))' % sym)],
       loops={1: {'inv': [('len', 'res.len == _vec.len'),
                          ('done', 'forall(lambda k: Implies(And(0 <= k, k < i), res[k] == (_vec[k] %s rhs[k])))' % sym)]}})
    fn(A + op, TU, sig='(double) const', key='base_array::%s(scalar)' % op, serves=['C05', 'C03'], pure=True,
       ensures=[('length', 'result.len == this.len'),
                ('elementwise', 'forall(lambda k: Implies(And(0 <= k, k < this.len), result[k] == (this[k] %s val)))' % sym)],
       loops={1: {'inv': [('len', 'res.len == _vec.len'),
                          ('done', 'forall(lambda k: Implies(And(0 <= k, k < i), res[k] == (_vec[k] %s val)))' % sym)]}})

fn(A + 'operator|=', TU, key='base_array::operator|=', serves=['C03'], returns_ref='this', assigns=['this._vec'],
   throws='this.len + rhs.len > INT_MAX',   # the modelled allocation limit (std::length_error)
   ensures=[('length', 'this.len == old.this.len + old.rhs.len'),
            ('head', 'forall(lambda k: Implies(And(0 <= k, k < old.this.len), this[k] == old.this[k]))'),
            ('tail', 'forall(lambda k: Implies(And(old.this.len <= k, k < old.this.len + old.rhs.len), eqv(this[k], old.rhs[k - old.this.len])))')])
fn(A + 'operator|', TU, key='base_array::operator|', serves=['C03'], pure=True,
   throws='this.len + rhs.len > INT_MAX',
   ensures=[('length', 'result.len == this.len + rhs.len'),
            ('head', 'forall(lambda k: Implies(And(0 <= k, k < this.len), eqv(result[k], this[k])))'),
            ('tail', 'forall(lambda k: Implies(And(this.len <= k, k < this.len + rhs.len), eqv(result[k], rhs[k - this.len])))')])
fn(A + 'operator=', TU, sig='&(const base_array<', key='base_array::operator=(copy)', serves=['C03'],
   returns_ref='this', assigns=['this._vec'],
   scenarios=[{'name': 'distinct'}, {'name': 'self', 'alias': {'rhs': 'this'}}],
   ensures=[('copy', 'this == old.rhs')])

fn(A + 'operator=', TU, sig='&(base_array<', key='base_array::operator=(move)', serves=['C03'],
   returns_ref='this', assigns=['this._vec', 'rhs._vec'],
   ensures=[('moved', 'this == old.rhs')])

# join a sequence of arrays (include/dsplib/utils.h): lengths add, elements in order, empty arguments contribute nothing
for T, key, vf in (('dsplib::base_array<dsplib::real_t>', 'real', True), ('dsplib::base_array<dsplib::cmplx_t>', 'cmplx', True),
                   ('dsplib::base_array<double>', 'real (other spelling of the same instantiation)', False)):
    fn('dsplib::concatenate', 'drivers/instantiate.cpp', sig='(const %s &' % T, key='concatenate<%s>' % key,
       serves=['C03', 'C05'], pure=True, verify=vf,
       requires=[('size', 'a1.len + a2.len + a3.len + a4.len + a5.len <= INT_MAX')], throws='False',
       lets={'o2': 'a1.len', 'o3': 'a1.len + a2.len', 'o4': 'a1.len + a2.len + a3.len', 'o5': 'a1.len + a2.len + a3.len + a4.len'},
       ensures=[('length', 'result.len == a1.len + a2.len + a3.len + a4.len + a5.len'),
                ('part1', 'forall(lambda k: Implies(And(0 <= k, k < a1.len), result[k] == a1[k]))'),
                ('part2', 'forall(lambda k: Implies(And(0 <= k, k < a2.len), result[o2 + k] == a2[k]))'),
                ('part3', 'forall(lambda k: Implies(And(0 <= k, k < a3.len), result[o3 + k] == a3[k]))'),
                ('part4', 'forall(lambda k: Implies(And(0 <= k, k < a4.len), result[o4 + k] == a4[k]))'),
                ('part5', 'forall(lambda k: Implies(And(0 <= k, k < a5.len), result[o5 + k] == a5[k]))')],
       loops={3: {'inv': [('pr', 'And(pr.off == pre.pr.off + i, pa.off == 0)'), ('rlen', 'r.len == pre.r.len'),
                          ('copied', 'forall(lambda t: Implies(And(0 <= t, t < i), r[pre.pr.off + t] == array.target[t]))'),
                          ('others', 'forall(lambda t: Implies(And(0 <= t, t < r.len, Or(t < pre.pr.off, t >= pre.pr.off + i)), r[t] == pre.r[t]))')]}})
