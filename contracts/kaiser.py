"""C11: Kaiser window (lib/window.cpp) against its closed form, with I0 the 15-term power series the library uses."""
from engine.spec import fn, inline_fn
from contracts.window import ENV as WENV, W, NS
import z3 as _z3
import math

ENV = dict(WENV)
FACT = [math.factorial(k) for k in range(15)]


def i0s(x):
    """sum_{k<15} ((x/2)^k / k!)^2 written with the same pow() symbols the code evaluates"""
    from engine.prelude import POW
    x = getattr(x, 'z', x)
    if _z3.is_int(x):
        x = _z3.ToReal(x)
    r = _z3.RealVal(0)
    for k in range(15):
        r = r + POW(POW(x / 2, _z3.RealVal(k)) / _z3.RealVal(FACT[k]), _z3.RealVal(2))
    return r


# opaque in the window's own contract, revealed (at the argument) where the series is summed
I0U = _z3.Function('bessel_i0_series', _z3.RealSort(), _z3.RealSort())


def i0_def(x):
    x = getattr(x, 'z', x)
    return I0U(x) == i0s(x)


ENV['I0S'] = I0U
ENV['I0_DEF'] = i0_def
fn('dsplib::window::_init_factorials', W, targs=['15'], key='_init_factorials<15>', serves=['C11', 'C05'], pure=True, throws='False',
   ensures=[('factorials', 'And(%s)' % ', '.join('result[%d] == %d' % (k, FACT[k]) for k in range(15)))],
   loops={1: {'unroll': 13}})
fn('dsplib::window::_besseli0', W, serves=['C11', 'C05'], pure=True, extra_env=ENV, throws='False',
   post_facts=['I0_DEF(x)'],
   ensures=[('series', 'result == I0S(x)')], loops={1: {'unroll': 16}})

fn(NS + 'kaiser', W, serves=['C11', 'C05'], pure=True, extra_env=ENV, param_names=('nw', 'beta'),
   lets={'k0': 'ghost_int("index")', 'NH': 'tdiv(nw + 1, 2)', 'OD': 'tmod(nw, 2)',
         'TT': 'If(k0 >= tdiv(nw + 1, 2) - tmod(nw, 2), k0 - (tdiv(nw + 1, 2) - tmod(nw, 2)), tdiv(nw + 1, 2) - 1 - k0)',
         'DD': '2 * If(k0 >= tdiv(nw + 1, 2) - tmod(nw, 2), k0 - (tdiv(nw + 1, 2) - tmod(nw, 2)), tdiv(nw + 1, 2) - 1 - k0) + 1 - tmod(nw, 2)'},
   requires=[('size', 'And(nw >= 3, nw <= 1000000)'), ('ghost', 'And(0 <= k0, k0 < nw)')], throws='False',
   body_assumes=['INSLICE_AX()'],
   ensures=[('length', 'result.len == nw'),
            # position T of sample k0 in the half window w (centre outwards) and its doubled distance D from the centre
            ('hint:half_index', 'And(0 <= TT, TT < n, Or(DD == 2 * k0 - (nw - 1), DD == -(2 * k0 - (nw - 1))), n - odd >= 0, result[k0] == w[TT])'),
            ('hint:distance', 'And(DD * DD == (2 * k0 - (nw - 1)) * (2 * k0 - (nw - 1)), '
                              '4 * ((ToReal(TT) + Q(1, 2) * ToReal(1 - odd)) * (ToReal(TT) + Q(1, 2) * ToReal(1 - odd))) == ToReal(DD * DD), '
                              'xind == ToReal((nw - 1) * (nw - 1)), bes == fabs(I0S(beta)))'),
            ('hint:argument', '(4 * ((ToReal(TT) + Q(1, 2) * ToReal(1 - odd)) * (ToReal(TT) + Q(1, 2) * ToReal(1 - odd)))) / xind == '
                              'ToReal((2 * k0 - (nw - 1)) * (2 * k0 - (nw - 1))) / ToReal((nw - 1) * (nw - 1))'),
            ('hint:value', 'w[TT] == fabs(I0S(beta * SQRT(1 - ToReal((2 * k0 - (nw - 1)) * (2 * k0 - (nw - 1))) / ToReal((nw - 1) * (nw - 1)))) / bes)'),
            ('closed_form', 'result[k0] == fabs(I0S(beta * SQRT(1 - ToReal((2 * k0 - (nw - 1)) * (2 * k0 - (nw - 1))) / ToReal((nw - 1) * (nw - 1)))) / fabs(I0S(beta)))'),
            ('symmetric', 'result[k0] == result[nw - 1 - k0]')],
   loops={1: {'inv': [('len', 'And(w.len == n, n == tdiv(nw + 1, 2), odd == tmod(nw, 2))'),
                      ('done', 'forall(lambda t: Implies(And(0 <= t, t < i), w[t] == fabs(I0S(beta * SQRT(1 - (4 * ((ToReal(t) + Q(1, 2) * ToReal(1 - odd)) * (ToReal(t) + Q(1, 2) * ToReal(1 - odd)))) / xind)) / bes)))')]}})
