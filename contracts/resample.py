"""C08 / C06 / C05: polyphase converters (lib/resample/*.cpp)."""
from engine.spec import fn, inline_fn
import z3 as _z3

R = _z3.RealSort()
I = _z3.IntSort()
AR = _z3.ArraySort(I, R)
AAR = _z3.ArraySort(I, AR)

from engine.specfun import DOT, BRSUM, data


def hist_concat(d, x):
    """the work buffer: history d followed by the new frame x, as an Array(Int, Real)"""
    j = _z3.Int('j!hc')
    dv, xv = d.tree.f['_vec'], x.tree.f['_vec']
    return _z3.Lambda([j], _z3.If(j < dv.len, _z3.Select(dv.data, j), _z3.Select(xv.data, j - dv.len)))


def bank(h):
    """vector<arr_real> as Array(Int, Array(Int, Real))"""
    return h.tree.data.f['_vec'].data


def bank_ok(h, m, s):
    k = _z3.Int('k!bk')
    lens = h.tree.data.f['_vec'].len
    return _z3.And(h.len == m, _z3.ForAll([k], _z3.Implies(_z3.And(0 <= k, k < m), _z3.Select(lens, k) == s)))


ENV = {'hist_concat': hist_concat, 'bank': bank, 'bank_ok': bank_ok}

TU_DEC = 'lib/resample/fir-decimator.cpp'

DEC_OK = 'And(decim_ >= 1, sublen_ >= 1, bank_ok(h_, decim_, sublen_), d_.len == decim_ * (sublen_ - 1))'

fn('dsplib::FIRDecimator::process', TU_DEC, serves=['C08', 'C06', 'C05'], extra_env=ENV,
   requires=[('invariant', DEC_OK), ('size', 'd_.len + in_.len + decim_ <= INT_MAX')],
   lets={'X': 'hist_concat(d_, in_)', 'M': 'decim_', 'S': 'sublen_', 'nd': 'd_.len', 'nx': 'in_.len'},
   throws='tmod(in_.len, decim_) != 0',
   assigns=['this.d_'],
   ensures=[('invariant', DEC_OK),
            ('count', 'result.len == tdiv(nx, M)'),
            ('history', 'forall(lambda t: Implies(And(0 <= t, t < nd), d_[t] == X[nx + t]))'),
            ('polyphase_sum', 'forall(lambda q: Implies(And(0 <= q, q < result.len), result[q] == BRSUM(X, q*M, M, bank(h_), S, M)))')],
   prop_of={'history': ['C06', 'C08'], 'polyphase_sum': ['C08', 'C06'], 'count': ['C08'], 'throws': ['C08', 'C05']},
   loops={
       1: {'inv': [('x', 'And(x.len == nd + nx, forall(lambda t: Implies(And(0 <= t, t < nd + nx), x[t] == X[t])))'),
                   ('px', 'px.off == i * M'), ('ylen', 'y.len == tdiv(nx, M)'),
                   ('done', 'forall(lambda q: Implies(And(0 <= q, q < i), y[q] == BRSUM(X, q*M, M, bank(h_), S, M)))'),
                   ('todo', 'forall(lambda q: Implies(And(i <= q, q < y.len), y[q] == 0))')]},
       2: {'facts': ['BRSUM_BASE(X, i*M, M, bank(h_), S)', 'BRSUM_STEP(X, i*M, M, bank(h_), S, k)'],
           'inv': [('ylen', 'y.len == tdiv(nx, M)'),
                   ('acc', 'y[i] == BRSUM(X, i*M, M, bank(h_), S, k)'),
                   ('others', 'forall(lambda q: Implies(And(0 <= q, q < y.len, q != i), y[q] == pre.y[q]))')]},
       3: {'facts': ['DOT_BASE(X, i*M + k, M, bank(h_)[k])', 'DOT_STEP(X, i*M + k, M, bank(h_)[k], j)'],
           'inv': [('ylen', 'y.len == tdiv(nx, M)'), ('idx', 'idx == k + j * M'),
                   ('acc', 'y[i] == BRSUM(X, i*M, M, bank(h_), S, k) + DOT(X, i*M + k, M, bank(h_)[k], j)'),
                   ('others', 'forall(lambda q: Implies(And(0 <= q, q < y.len, q != i), y[q] == pre.y[q]))')]},
   })

# ---------------------------------------------------------------------------------------------------
TU_INT = 'lib/resample/fir-interpolator.cpp'
INT_OK = 'And(interp_ >= 1, sublen_ >= 1, bank_ok(h_, interp_, sublen_), d_.len == sublen_ - 1)'

fn('dsplib::FIRInterpolator::process', TU_INT, serves=['C08', 'C06', 'C05'], extra_env=ENV,
   requires=[('invariant', INT_OK), ('size', 'd_.len + in_.len + 1 <= INT_MAX'), ('outsize', 'in_.len * interp_ <= INT_MAX')],
   lets={'X': 'hist_concat(d_, in_)', 'L': 'interp_', 'S': 'sublen_', 'nd': 'd_.len', 'nx': 'in_.len'},
   throws='False',
   assigns=['this.d_'],
   ensures=[('invariant', INT_OK),
            ('count', 'result.len == nx * L'),
            ('history', 'forall(lambda t: Implies(And(0 <= t, t < nd), d_[t] == X[nx + t]))'),
            ('polyphase_sum', 'forall(lambda q, b: Implies(And(0 <= q, q < nx, 0 <= b, b < L), result[q*L + b] == DOT(X, q, 1, bank(h_)[b], S)))')],
   prop_of={'history': ['C06', 'C08'], 'polyphase_sum': ['C08', 'C06'], 'count': ['C08'], 'throws': ['C08', 'C05']},
   loops={
       1: {'inv': [('x', 'And(px.len == nd + nx, forall(lambda t: Implies(And(0 <= t, t < nd + nx), px[t] == X[t])))'),
                   ('py', 'py.off == i * L'), ('ylen', 'y.len == nx * L'),
                   ('done', 'forall(lambda q, b: Implies(And(0 <= q, q < i, 0 <= b, b < L), y[q*L + b] == DOT(X, q, 1, bank(h_)[b], S)))'),
                   ('todo', 'forall(lambda t: Implies(And(i * L <= t, t < y.len), y[t] == 0))')]},
       2: {'inv': [('ylen', 'y.len == nx * L'), ('py', 'py.off == i * L + k'),
                   ('done', 'forall(lambda b: Implies(And(0 <= b, b < k), y[i*L + b] == DOT(X, i, 1, bank(h_)[b], S)))'),
                   ('others', 'forall(lambda t: Implies(And(0 <= t, t < y.len, Or(t < i*L, t >= i*L + k)), y[t] == pre.y[t]))')]},
       3: {'facts': ['DOT_BASE(X, i, 1, bank(h_)[k])', 'DOT_STEP(X, i, 1, bank(h_)[k], j)'],
           'inv': [('ylen', 'y.len == nx * L'),
                   ('acc', 'y[i*L + k] == DOT(X, i, 1, bank(h_)[k], j)'),
                   ('others', 'forall(lambda t: Implies(And(0 <= t, t < y.len, t != i*L + k), y[t] == pre.y[t]))')]},
   })

# ---------------------------------------------------------------------------------------------------
TU_RC = 'lib/resample/fir-rate-converter.cpp'
RC_OK = ('And(interp_ >= 1, decim_ >= 1, sublen_ >= 1, bank_ok(h_, interp_, sublen_), d_.len == sublen_ - 1, '
         'xidxs_.len == interp_, forall(lambda t: Implies(And(0 <= t, t < interp_), And(0 <= xidxs_[t], xidxs_[t] < decim_))))')

fn('dsplib::FIRRateConverter::process', TU_RC, serves=['C08', 'C06', 'C05'], extra_env=ENV,
   requires=[('invariant', RC_OK), ('size', 'd_.len + in_.len + decim_ <= INT_MAX'),
             ('outsize', 'in_.len * interp_ <= INT_MAX')],
   lets={'X': 'hist_concat(d_, in_)', 'L': 'interp_', 'M': 'decim_', 'S': 'sublen_', 'nd': 'd_.len', 'nx': 'in_.len',
         'NP': 'tdiv(in_.len, decim_)'},
   throws='tmod(in_.len, decim_) != 0',
   assigns=['this.d_'],
   ensures=[('invariant', RC_OK),
            ('count', 'result.len == NP * L'),
            ('history', 'forall(lambda t: Implies(And(0 <= t, t < nd), d_[t] == X[nx + t]))'),
            ('polyphase_sum', 'forall(lambda q, b: Implies(And(0 <= q, q < NP, 0 <= b, b < L), result[q*L + b] == DOT(X, q*M + xidxs_[b], 1, bank(h_)[b], S)))')],
   prop_of={'history': ['C06', 'C08'], 'polyphase_sum': ['C08', 'C06'], 'count': ['C08'], 'throws': ['C08', 'C05']},
   loops={
       1: {'inv': [('x', 'And(x.len == nd + nx, forall(lambda t: Implies(And(0 <= t, t < nd + nx), x[t] == X[t])))'),
                   ('py', 'py.off == i * L'), ('ylen', 'y.len == NP * L'),
                   ('done', 'forall(lambda q, b: Implies(And(0 <= q, q < i, 0 <= b, b < L), y[q*L + b] == DOT(X, q*M + xidxs_[b], 1, bank(h_)[b], S)))'),
                   ('todo', 'forall(lambda t: Implies(And(i * L <= t, t < y.len), y[t] == 0))')]},
       2: {'facts': ['forall(lambda q, b: Implies(And(0 <= q, q < i, 0 <= b, b < L), And(q*L + b < i*L, q*L + b >= 0)))'],
           'inv': [('ylen', 'y.len == NP * L'), ('py', 'py.off == i * L + k'),
                   ('done', 'forall(lambda b: Implies(And(0 <= b, b < k), y[i*L + b] == DOT(X, i*M + xidxs_[b], 1, bank(h_)[b], S)))'),
                   ('others', 'forall(lambda t: Implies(And(0 <= t, t < y.len, Or(t < i*L, t >= i*L + k)), y[t] == pre.y[t]))')]},
       3: {'facts': ['DOT_BASE(X, i*M + xidxs_[k], 1, bank(h_)[k])', 'DOT_STEP(X, i*M + xidxs_[k], 1, bank(h_)[k], j)'],
           'inv': [('ylen', 'y.len == NP * L'),
                   ('acc', 'y[i*L + k] == DOT(X, i*M + xidxs_[k], 1, bank(h_)[k], j)'),
                   ('others', 'forall(lambda t: Implies(And(0 <= t, t < y.len, t != i*L + k), y[t] == pre.y[t]))')]},
   })

# ---------------------------------------------------------------------------------------------------
TU_RS = 'lib/resample/resample.cpp'
IR = 'dsplib::IResampler::'


def padded(h, t):
    """h zero-padded (spec view): h[t] inside, 0 beyond"""
    hv = h.tree.f['_vec']
    return _z3.If(_z3.And(0 <= t, t < hv.len), _z3.Select(hv.data, t), _z3.RealVal(0))


ENV['padded'] = padded

def divmul(k, q):
    """(k*q) div q == k and (k*q) mod q == 0 for q >= 1, k >= 0 (lemma about truncating division; engine/selftest.py)"""
    from engine.spec import tdiv
    k = getattr(k, 'z', k)
    q = getattr(q, 'z', q)
    return _z3.Implies(_z3.And(q >= 1, k >= 0), tdiv(k * q, q) == k)


ENV['DIVMUL'] = divmul


def mulmono(x, y, p):
    """x >= y and p >= 0 imply x*p >= y*p (order axiom of the integers; engine/selftest.py)"""
    x, y, p = [getattr(t, 'z', t) for t in (x, y, p)]
    return _z3.Implies(_z3.And(x >= y, p >= 0), x * p >= y * p)


def mulcancel(q, u, v):
    """q >= 1 and q*u >= q*v imply u >= v (engine/selftest.py)"""
    q, u, v = [getattr(t, 'z', t) for t in (q, u, v)]
    return _z3.Implies(_z3.And(q >= 1, q * u >= q * v), u >= v)


ENV['MULMONO'] = mulmono
ENV['MULCANCEL'] = mulcancel

fn(IR + 'simplify', TU_RS, serves=['C08', 'C05'], pure=True,
   requires=[('positive', 'And(p >= 1, q >= 1)')],
   ensures=[('reduced', 'exists(lambda g: And(g >= 1, p == result.first * g, q == result.second * g))'),
            ('positive', 'And(result.first >= 1, result.second >= 1, result.first <= p, result.second <= q)'),
            ('coprime', 'coprime(result.first, result.second)'),
            ('unit_iff_equal', '(result.first == result.second) == (p == q)'),
            ('coprime_fixed', 'Implies(coprime(p, q), And(result.first == p, result.second == q))')])

fn(IR + 'next_size', TU_RS, sig='(int, int, int)', serves=['C08', 'C05'], pure=True, extra_env=ENV,
   requires=[('positive', 'And(p >= 1, q >= 1, size >= 0, size <= INT_MAX - q)')],
   post_facts=['DIVMUL(tdiv(size, d) + 1, d)', 'DIVMUL(tdiv(size, d), d)'],
   ensures=[('hint:multiple_of_d', 'And(d >= 1, result == If(tmod(size, d) == 0, tdiv(size, d), tdiv(size, d) + 1) * d, result == tdiv(result, d) * d, result - size < d, result >= size)'),
            ('hint:d_divides_q', 'exists(lambda n: And(n >= 1, q == d * n))'),
            ('covers', 'And(result >= size, result < size + q)'),
            ('multiple', 'exists(lambda k, m, n: And(n >= 1, q == m * n, m >= 1, result == k * m, result - size < m))'),
            ('coprime_case', 'Implies(coprime(p, q), And(result == tdiv(result, q) * q, result - size < q))')])

fn(IR + 'prev_size', TU_RS, sig='(int, int, int)', serves=['C08', 'C05'], pure=True, extra_env=ENV,
   requires=[('positive', 'And(p >= 1, q >= 1, size >= 0)')],
   post_facts=['DIVMUL(tdiv(size, d), d)'],
   ensures=[('hint:multiple_of_d', 'And(d >= 1, result == tdiv(size, d) * d, result == tdiv(result, d) * d, size - result < d, result <= size)'),
            ('hint:d_divides_q', 'exists(lambda n: And(n >= 1, q == d * n))'),
            ('covers', 'And(result <= size, result > size - q)'),
            ('multiple', 'exists(lambda k, m, n: And(n >= 1, q == m * n, m >= 1, result == k * m, size - result < m))'),
            ('coprime_case', 'Implies(coprime(p, q), And(result == tdiv(result, q) * q, size - result < q))')])

fn(IR + 'polyphase', TU_RS, serves=['C08', 'C05'], extra_env=ENV, pure=True,
   requires=[('positive', 'And(m >= 1, m <= 1073741824, h.len >= 1, h.len <= INT_MAX - 2*m)')],
   ghost={'s': 'RealVal(1)'}, ghost_on=[('ret:sum', None, {'s': 'arg'})],
   lets={'N': 'If(tmod(h.len, m) == 0, tdiv(h.len, m), tdiv(h.len, m) + 1)'},
   throws='False',
   ensures=[('branches', 'And(result.len == m, bank_ok(result, m, N))'),
            ('covers', 'And(N * m >= h.len, (N - 1) * m < h.len)'),
            ('decomposition', 'exists_w(lambda c: forall(lambda i, k: Implies(And(0 <= i, i < m, 0 <= k, k < N), '
             'bank(result)[i][k] == (padded(old.h, i + If(flip_coeffs, N - 1 - k, k) * m) / c) * gain)), s)')],
   loops={1: {'inv': [('shape', 'And(r.len == m, bank_ok(r, m, n))'),
                      ('done', 'forall(lambda a, k: Implies(And(0 <= a, a < i, 0 <= k, k < n), bank(r)[a][k] == h[a + k*m] * gain))')]},
          2: {'inv': [('shape', 'And(r.len == m, bank_ok(r, m, n))'), ('ih', 'ih == i + k * m'),
                      ('row', 'forall(lambda t: Implies(And(0 <= t, t < k), bank(r)[i][t] == h[i + t*m] * gain))'),
                      ('others', 'forall(lambda a, t: Implies(And(0 <= a, a < i, 0 <= t, t < n), bank(r)[a][t] == pre.r[a][t]))')]},
          3: {'inv': [('shape', 'And(r.len == m, bank_ok(r, m, n))'),
                      ('flipped', 'forall(lambda a, k: Implies(And(0 <= a, a < i, 0 <= k, k < n), bank(r)[a][k] == h[a + (n-1-k)*m] * gain))'),
                      ('todo', 'forall(lambda a, k: Implies(And(i <= a, a < m, 0 <= k, k < n), bank(r)[a][k] == h[a + k*m] * gain))')]}})

# ---------------------------------------------------------------------------------------------------
# constructors: establish the object invariants the process() contracts require
fn('dsplib::FIRDecimator::FIRDecimator', TU_DEC, sig='(int, const dsplib::arr_real &)', serves=['C08', 'C06', 'C05'],
   extra_env=ENV, assigns=['this'],
   requires=[('positive', 'And(decim >= 1, decim <= 1048576, h.len >= 1, h.len <= 1048576)')],
   throws='False',
   ensures=[('invariant', DEC_OK), ('rate', 'decim_ == decim'), ('sublen', 'sublen_ == If(tmod(h.len, decim) == 0, tdiv(h.len, decim), tdiv(h.len, decim) + 1)'),
            ('rest', 'forall(lambda t: Implies(And(0 <= t, t < d_.len), d_[t] == 0))')])

fn('dsplib::FIRInterpolator::FIRInterpolator', TU_INT, sig='(int, const dsplib::arr_real &)', serves=['C08', 'C06', 'C05'],
   extra_env=ENV, assigns=['this'],
   requires=[('positive', 'And(interp >= 1, interp <= 1048576, h.len >= 1, h.len <= 1048576)')],
   throws='False',
   ensures=[('invariant', INT_OK), ('rate', 'interp_ == interp'), ('sublen', 'sublen_ == If(tmod(h.len, interp) == 0, tdiv(h.len, interp), tdiv(h.len, interp) + 1)'),
            ('rest', 'forall(lambda t: Implies(And(0 <= t, t < d_.len), d_[t] == 0))')])

fn('dsplib::FIRRateConverter::FIRRateConverter', TU_RC, sig='(int, int, const dsplib::arr_real &)',
   serves=['C08', 'C06', 'C05'], extra_env=ENV, assigns=['this'],
   requires=[('positive', 'And(interp >= 1, interp <= 32768, decim >= 1, decim <= 32768, h.len >= 1, h.len <= 1048576)')],
   throws='False',
   ensures=[('invariant', RC_OK), ('rates', 'And(interp_ == interp, decim_ == decim)'), ('sublen', 'sublen_ == If(tmod(h.len, interp) == 0, tdiv(h.len, interp), tdiv(h.len, interp) + 1)'),
            ('rest', 'forall(lambda t: Implies(And(0 <= t, t < d_.len), d_[t] == 0))'),
            # fixed phase of the zero-stuff / filter / keep-every-M-th chain (DESIGN appendix E): the t-th branch
            # sits at running position pos_t = (t+1)*M - 1 = xidxs_[t]*L + branch_t, and the branch index is the
            # row of the polyphase table that was copied
            ('schedule', 'forall(lambda t: Implies(And(0 <= t, t < interp_), And(xidxs_[t] * interp_ <= (t+1)*decim_ - 1, (t+1)*decim_ - 1 < (xidxs_[t] + 1) * interp_)))')],
   loops={1: {'inv': [('cnt', 'And(h_.len == xidxs_.len, 0 <= st, st < decim_, h_.len * decim_ + st == i * interp_)'),
                      ('rows', 'forall(lambda t: Implies(And(0 <= t, t < h_.len), bank_len(h_, t) == sublen_))'),
                      ('range', 'forall(lambda t: Implies(And(0 <= t, t < xidxs_.len), And(0 <= xidxs_[t], xidxs_[t] < decim_)))'),
                      ('schedule', 'forall(lambda t: Implies(And(0 <= t, t < xidxs_.len), And(xidxs_[t] * interp_ <= (t+1)*decim_ - 1, (t+1)*decim_ - 1 < (xidxs_[t] + 1) * interp_)))')]},
          2: {'inv': [('cnt', 'And(h_.len == xidxs_.len, 0 <= st, st < decim_, h_.len * decim_ + st == i * interp_ + k)'),
                      ('rows', 'forall(lambda t: Implies(And(0 <= t, t < h_.len), bank_len(h_, t) == sublen_))'),
                      ('range', 'forall(lambda t: Implies(And(0 <= t, t < xidxs_.len), And(0 <= xidxs_[t], xidxs_[t] < decim_)))'),
                      ('schedule', 'forall(lambda t: Implies(And(0 <= t, t < xidxs_.len), And(xidxs_[t] * interp_ <= (t+1)*decim_ - 1, (t+1)*decim_ - 1 < (xidxs_[t] + 1) * interp_)))')]}})


def bank_len(h, t):
    return _z3.Select(h.tree.data.f['_vec'].len, t)


ENV['bank_len'] = bank_len

# delays and rates (used by resample() through the FIRResampler wrapper)
fn('dsplib::FIRDecimator::delay', TU_DEC, serves=['C08'], pure=True, ensures=[('value', 'result == tdiv(sublen_, 2)')])
fn('dsplib::FIRDecimator::decim_rate', TU_DEC, serves=['C08'], pure=True, ensures=[('value', 'result == decim_')])
fn('dsplib::FIRInterpolator::delay', TU_INT, serves=['C08'], pure=True,
   requires=['sublen_ * interp_ <= INT_MAX', 'sublen_ >= 0', 'interp_ >= 0'],
   ensures=[('value', 'result == tdiv(sublen_ * interp_, 2)')])
fn('dsplib::FIRInterpolator::interp_rate', TU_INT, serves=['C08'], pure=True, ensures=[('value', 'result == interp_')])
fn('dsplib::FIRRateConverter::delay', TU_RC, serves=['C08'], pure=True, requires=['sublen_ < INT_MAX - 2'],
   ensures=[('value', 'result == tdiv(sublen_, 2) + 1')])
fn('dsplib::FIRRateConverter::interp_rate', TU_RC, serves=['C08'], pure=True, ensures=[('value', 'result == interp_')])
fn('dsplib::FIRRateConverter::decim_rate', TU_RC, serves=['C08'], pure=True, ensures=[('value', 'result == decim_')])
inline_fn('dsplib::IResampler::delay', 'dsplib::IResampler::decim_rate', 'dsplib::IResampler::interp_rate',
          'dsplib::FIRResampler::delay', 'dsplib::FIRResampler::interp_rate', 'dsplib::FIRResampler::decim_rate',
          'dsplib::FIRResampler::process', 'dsplib::FIRResampler::FIRResampler',
          'dsplib::(anon)::BypassResampler::process', 'dsplib::(anon)::BypassResampler::BypassResampler')

RS_FACTS = ['DIVMUL(tdiv(nx, q) * p, q)', 'DIVMUL(tdiv(nn, q) * p, q)',
            'MULMONO(tdiv(nn, q) * q - tdiv(nx, q) * q, mdl, p)',
            'MULCANCEL(q, (tdiv(nn, q) - tdiv(nx, q)) * p, dl)']
fn('dsplib::resample', TU_RS, sig='(const dsplib::arr_real &, int, int, const dsplib::arr_real &)', serves=['C08', 'C05'],
   extra_env=ENV, pure=True, timeout_ms=20000, param_names=('x', 'p_', 'q_', 'h'),
   requires=[('ratio', 'And(p_ >= 1, p_ <= 1024, q_ >= 1, q_ <= 1024)'), ('coeffs', 'And(h.len >= 1, h.len <= 1048576)'),
             ('signal', 'And(x.len >= 1, x.len <= 1048576)')],
   body_assumes=['forall(lambda a: Implies(And(a >= 1, coprime(a, a)), a == 1))'],
   facts_on=[('call:slice', RS_FACTS), ('call:process', RS_FACTS)],
   throws='False',
   ensures=[('identity', 'Implies(p_ == q_, result == x)'),
            ('hint:whole_blocks', 'when(p != q, lambda: And(result.len == tdiv(nx, q) * p, tdiv(nx, q) * q == nx, nx >= x.len, nx - x.len < q))'),
            # p1/q1 the reduced ratio, c = ceil(len/q1): result has p1*c samples
            ('length_unit_ratio', 'Implies(p_ == q_, result.len == x.len)'),
            ('length', 'when(p_ != q_, lambda: exists_w(lambda p1, q1, c: exists(lambda g: And(g >= 1, p_ == p1*g, q_ == q1*g, coprime(p1, q1), '
                       'c*q1 >= x.len, (c-1)*q1 < x.len, result.len == p1*c)), p, q, tdiv(nx, q)))')])
