"""C08 / C06 / C05: polyphase converters (lib/resample/*.cpp)."""
from engine.spec import fn, inline_fn
import z3 as _z3

R = _z3.RealSort()
I = _z3.IntSort()
AR = _z3.ArraySort(I, R)
AAR = _z3.ArraySort(I, AR)

# Spec functions (uninterpreted symbols + their two defining equations, instantiated where a loop needs them):
#   DOT(X, off, st, H, n)          = sum_{j<n} X[off + j*st] * H[j]                    (one polyphase branch)
#   BRSUM(X, base, st, HH, S, k)   = sum_{k'<k} DOT(X, base + k', st, HH[k'], S)        (k branches)
DOT = _z3.Function('dot', AR, I, I, AR, I, R)
BRSUM = _z3.Function('brsum', AR, I, I, AAR, I, I, R)


def DOT_BASE(X, o, s, H):
    return DOT(X, o, s, H, 0) == 0


def DOT_STEP(X, o, s, H, n):
    return _z3.Implies(n >= 0, DOT(X, o, s, H, n + 1) == DOT(X, o, s, H, n) + X[o + n * s] * H[n])


def BRSUM_BASE(X, b, s, HH, S):
    return BRSUM(X, b, s, HH, S, 0) == 0


def BRSUM_STEP(X, b, s, HH, S, k):
    return _z3.Implies(k >= 0, BRSUM(X, b, s, HH, S, k + 1) == BRSUM(X, b, s, HH, S, k) + DOT(X, b + k, s, HH[k], S))


def hist_concat(d, x):
    """the work buffer: history d followed by the new frame x, as an Array(Int, Real)"""
    j = _z3.Int('j!hc')
    dv, xv = d.tree.f['_vec'], x.tree.f['_vec']
    return _z3.Lambda([j], _z3.If(j < dv.len, _z3.Select(dv.data, j), _z3.Select(xv.data, j - dv.len)))


def data(a):
    return a.tree.f['_vec'].data


def bank(h):
    """vector<arr_real> as Array(Int, Array(Int, Real))"""
    return h.tree.data.f['_vec'].data


def bank_ok(h, m, s):
    k = _z3.Int('k!bk')
    lens = h.tree.data.f['_vec'].len
    return _z3.And(h.len == m, _z3.ForAll([k], _z3.Implies(_z3.And(0 <= k, k < m), _z3.Select(lens, k) == s)))


ENV = {'DOT': DOT, 'BRSUM': BRSUM, 'DOT_BASE': DOT_BASE, 'DOT_STEP': DOT_STEP, 'BRSUM_BASE': BRSUM_BASE,
       'BRSUM_STEP': BRSUM_STEP, 'hist_concat': hist_concat, 'data': data, 'bank': bank, 'bank_ok': bank_ok}

TU_DEC = 'lib/resample/fir-decimator.cpp'

DEC_OK = 'And(decim_ >= 1, sublen_ >= 1, bank_ok(h_, decim_, sublen_), d_.len == decim_ * (sublen_ - 1))'

fn('dsplib::FIRDecimator::process', TU_DEC, serves=['C08', 'C06', 'C05'], extra_env=ENV,
   requires=[('invariant', DEC_OK), ('size', 'd_.len + in_.len + decim_ <= INT_MAX')],
   lets={'X': 'hist_concat(d_, in_)', 'M': 'decim_', 'S': 'sublen_', 'nd': 'd_.len', 'nx': 'in_.len'},
   throws='tmod(in_.len, decim_) != 0',
   assigns=['this.d_'],
   ensures=[('invariant', DEC_OK),
            ('count', 'result.len == tdiv(nx, M)'),
            ('history', 'forall(lambda t: Implies(And(0 <= t, t < nd), d_[t] == X[nx + t]))'),
            ('polyphase_sum', 'forall(lambda q: Implies(And(0 <= q, q < result.len), result[q] == BRSUM(X, q*M, M, bank(h_), S, M)))')],
   prop_of={'history': ['C06'], 'polyphase_sum': ['C08', 'C06'], 'count': ['C08'], 'throws': ['C08', 'C05']},
   loops={
       1: {'inv': [('x', 'And(x.len == nd + nx, forall(lambda t: Implies(And(0 <= t, t < nd + nx), x[t] == X[t])))'),
                   ('px', 'px.off == i * M'), ('ylen', 'y.len == tdiv(nx, M)'),
                   ('done', 'forall(lambda q: Implies(And(0 <= q, q < i), y[q] == BRSUM(X, q*M, M, bank(h_), S, M)))'),
                   ('todo', 'forall(lambda q: Implies(And(i <= q, q < y.len), y[q] == 0))')]},
       2: {'facts': ['BRSUM_BASE(X, i*M, M, bank(h_), S)', 'BRSUM_STEP(X, i*M, M, bank(h_), S, k)'],
           'inv': [('ylen', 'y.len == tdiv(nx, M)'),
                   ('acc', 'y[i] == BRSUM(X, i*M, M, bank(h_), S, k)'),
                   ('others', 'forall(lambda q: Implies(And(0 <= q, q < y.len, q != i), y[q] == pre.y[q]))')]},
       3: {'facts': ['DOT_BASE(X, i*M + k, M, bank(h_)[k])', 'DOT_STEP(X, i*M + k, M, bank(h_)[k], j)'],
           'inv': [('ylen', 'y.len == tdiv(nx, M)'), ('idx', 'idx == k + j * M'),
                   ('acc', 'y[i] == BRSUM(X, i*M, M, bank(h_), S, k) + DOT(X, i*M + k, M, bank(h_)[k], j)'),
                   ('others', 'forall(lambda q: Implies(And(0 <= q, q < y.len, q != i), y[q] == pre.y[q]))')]},
   })
