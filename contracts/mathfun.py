"""C17 (and helpers used elsewhere): reductions and element functions of lib/math.cpp, lib/utils.cpp."""
from engine.spec import fn, inline_fn

M = 'lib/math.cpp'
U = 'lib/utils.cpp'

fn('dsplib::sum', M, sig='(const dsplib::arr_real &)', serves=['C17', 'C05'], pure=True,
   ensures=[('definition', 'result == SUMR(data(arr), arr.len)')])
fn('dsplib::sum', M, sig='(const dsplib::arr_cmplx &)', serves=['C17', 'C05'], pure=True,
   ensures=[('definition', 'And(result.re == SUMR(re_data(arr), arr.len), result.im == SUMR(im_data(arr), arr.len))')])

for t, key in (('(const dsplib::arr_real &)', 'real'), ('(const dsplib::arr_cmplx &)', 'cmplx')):
    fn('dsplib::flip', U, sig=t, key='dsplib::flip|' + key, serves=['C17', 'C05'], pure=True,
       ensures=[('length', 'result.len == x.len'),
                ('reversed', 'forall(lambda k: Implies(And(0 <= k, k < x.len), result[k] == x[x.len - 1 - k]))')])

fn('dsplib::zeropad', 'lib/resample/resample.cpp', serves=['C17', 'C03', 'C05'], pure=True,
   throws='x.len > n',
   ensures=[('length', 'result.len == n'),
            ('head', 'forall(lambda k: Implies(And(0 <= k, k < x.len), result[k] == x[k]))'),
            ('zeros', 'forall(lambda k: Implies(And(x.len <= k, k < n), eqv(result[k], 0)))')])

fn('dsplib::conj', M, sig='dsplib::real_t (dsplib::real_t)', key='conj(real)', serves=['C17'], pure=True,
   ensures=[('identity', 'result == x')])
fn('dsplib::conj', M, sig='dsplib::cmplx_t (dsplib::cmplx_t)', key='conj(cmplx)', serves=['C17'], pure=True,
   ensures=[('conjugate', 'And(result.re == x.re, result.im == -x.im)')])
