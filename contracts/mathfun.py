"""C17 (and helpers used elsewhere): reductions and element functions of lib/math.cpp, lib/utils.cpp."""
from engine.spec import fn, inline_fn

M = 'lib/math.cpp'
U = 'lib/utils.cpp'

fn('dsplib::sum', M, sig='(const dsplib::arr_real &)', serves=['C17', 'C05'], pure=True,
   ensures=[('definition', 'result == SUMR(data(arr), arr.len)')])
fn('dsplib::sum', M, sig='(const dsplib::arr_cmplx &)', serves=['C17', 'C05'], pure=True,
   ensures=[('definition', 'And(result.re == SUMR(re_data(arr), arr.len), result.im == SUMR(im_data(arr), arr.len))')])

for t, key in (('(const dsplib::arr_real &)', 'real'), ('(const dsplib::arr_cmplx &)', 'cmplx')):
    fn('dsplib::flip', U, sig=t, key='dsplib::flip|' + key, serves=['C17', 'C05'], pure=True,
       ensures=[('length', 'result.len == x.len'),
                ('reversed', 'forall(lambda k: Implies(And(0 <= k, k < x.len), result[k] == x[x.len - 1 - k]))')])

fn('dsplib::zeropad', 'lib/resample/resample.cpp', serves=['C17', 'C03', 'C05'], pure=True,
   throws='x.len > n',
   ensures=[('length', 'result.len == n'),
            ('head', 'forall(lambda k: Implies(And(0 <= k, k < x.len), result[k] == x[k]))'),
            ('zeros', 'forall(lambda k: Implies(And(x.len <= k, k < n), eqv(result[k], 0)))')])

fn('dsplib::conj', M, sig='dsplib::real_t (dsplib::real_t)', key='conj(real)', serves=['C17'], pure=True,
   ensures=[('identity', 'result == x')])
fn('dsplib::conj', M, sig='dsplib::cmplx_t (dsplib::cmplx_t)', key='conj(cmplx)', serves=['C17'], pure=True,
   ensures=[('conjugate', 'And(result.re == x.re, result.im == -x.im)')])

# ---------------------------------------------------------------------------------------------------
# C17: definitional conformance of element / reduction functions. Each postcondition is the textbook
# definition written over reals and the same uninterpreted libm symbols the prelude uses (A1/A2): a wrong
# constant, swapped argument, dropped term or wrong normalisation fails the clause.
from engine.prelude import COS, SIN, EXP, LOG, LOG2, LOG10, SQRT, ATAN, ATAN2, POW, TANH   # noqa: E402
from engine.core import PI                                                                      # noqa: E402
import z3 as _z3                                                                                # noqa: E402


def zfabs(x):
    return _z3.If(x >= 0, x, -x)


def zround(x):
    return _z3.ToReal(_z3.If(x >= 0, _z3.ToInt(x + _z3.RealVal('1/2')), -_z3.ToInt(-x + _z3.RealVal('1/2'))))


def atan2_ax(y, x):
    """atan2 in terms of atan (textbook case split; A2)"""
    return _z3.And(_z3.Implies(x > 0, ATAN2(y, x) == ATAN(y / x)),
                   _z3.Implies(_z3.And(x < 0, y >= 0), ATAN2(y, x) == ATAN(y / x) + PI),
                   _z3.Implies(_z3.And(x < 0, y < 0), ATAN2(y, x) == ATAN(y / x) - PI),
                   _z3.Implies(_z3.And(x == 0, y > 0), ATAN2(y, x) == PI / 2),
                   _z3.Implies(_z3.And(x == 0, y < 0), ATAN2(y, x) == -PI / 2),
                   _z3.Implies(_z3.And(x == 0, y == 0), ATAN2(y, x) == 0))


LIBM = {'ATAN2_AX': atan2_ax, 'COS': COS, 'SIN': SIN, 'EXP': EXP, 'LOG': LOG, 'LOG2': LOG2, 'LOG10': LOG10, 'SQRT': SQRT, 'ATAN': ATAN,
        'ATAN2': ATAN2, 'POW': POW, 'TANH': TANH, 'PI': PI, 'fabs': zfabs, 'rnd': zround}


def elementwise(name, sig, key, expr, inloop='r', src='arr', loopsrc=None, extra=()):
    """r[k] == expr(src[k]) for all k, same length; loop invariant derived from the same expression"""
    e_post = expr.replace('$', 'old.%s[k]' % src if False else '%s[k]' % src)
    e_inv = expr.replace('$', '%s[k]' % (loopsrc or src))
    fn(name, M, sig=sig, key=key, serves=['C17', 'C05'], pure=True, extra_env=LIBM,
       ensures=[('length', 'result.len == %s.len' % src),
                ('definition', 'forall(lambda k: Implies(And(0 <= k, k < %s.len), result[k] == %s))' % (src, e_post))] + list(extra),
       loops={1: {'inv': [('len', '%s.len == %s.len' % (inloop, src)),
                          ('done', 'forall(lambda k: Implies(And(0 <= k, k < i), %s[k] == %s))' % (inloop, e_inv)),
                          ('todo', 'forall(lambda k: Implies(And(i <= k, k < %s.len), %s[k] == pre.%s[k]))' % (inloop, inloop, inloop))]}})


RA = '(const dsplib::arr_real &)'
CA = '(const dsplib::arr_cmplx &)'
elementwise('dsplib::abs', 'dsplib::arr_real ' + RA, 'abs(arr_real)', 'fabs($)')
elementwise('dsplib::log', 'dsplib::arr_real ' + RA, 'log(arr_real)', 'LOG($)')
elementwise('dsplib::log2', 'dsplib::arr_real ' + RA, 'log2(arr_real)', 'LOG2($)')
elementwise('dsplib::log10', 'dsplib::arr_real ' + RA, 'log10(arr_real)', 'LOG10($)')
elementwise('dsplib::sin', 'dsplib::arr_real ' + RA, 'sin(arr_real)', 'SIN($)')
elementwise('dsplib::cos', 'dsplib::arr_real ' + RA, 'cos(arr_real)', 'COS($)')
elementwise('dsplib::exp', 'dsplib::arr_real ' + RA, 'exp(arr_real)', 'EXP($)')

fn('dsplib::abs', M, sig='dsplib::arr_real ' + CA, key='abs(arr_cmplx)', serves=['C17', 'C05'], pure=True, extra_env=LIBM,
   ensures=[('length', 'result.len == arr.len'),
            ('definition', 'forall(lambda k: Implies(And(0 <= k, k < arr.len), result[k] == SQRT(arr[k].re*arr[k].re + arr[k].im*arr[k].im)))')],
   loops={1: {'inv': [('len', 'r.len == arr.len'),
                      ('done', 'forall(lambda k: Implies(And(0 <= k, k < i), r[k] == SQRT(arr[k].re*arr[k].re + arr[k].im*arr[k].im)))')]}})
fn('dsplib::abs2', M, sig='dsplib::arr_real ' + CA, key='abs2(arr_cmplx)', serves=['C17', 'C05'], pure=True,
   ensures=[('length', 'result.len == x.len'),
            ('definition', 'forall(lambda k: Implies(And(0 <= k, k < x.len), result[k] == x[k].re*x[k].re + x[k].im*x[k].im))')],
   loops={1: {'inv': [('len', 'r.len == x.len'),
                      ('done', 'forall(lambda k: Implies(And(0 <= k, k < i), r[k] == x[k].re*x[k].re + x[k].im*x[k].im))')]}})
fn('dsplib::abs2', M, sig='dsplib::arr_real ' + RA, key='abs2(arr_real)', serves=['C17'], pure=True,
   ensures=[('length', 'result.len == x.len'),
            ('definition', 'forall(lambda k: Implies(And(0 <= k, k < x.len), result[k] == x[k]*x[k]))')])

fn('dsplib::real', M, sig='dsplib::arr_real ' + CA, key='real(arr_cmplx)', serves=['C17', 'C05'], pure=True,
   ensures=[('length', 'result.len == x.len'), ('definition', 'forall(lambda k: Implies(And(0 <= k, k < x.len), result[k] == x[k].re))')],
   loops={1: {'inv': [('len', 'r.len == x.len'), ('done', 'forall(lambda k: Implies(And(0 <= k, k < i), r[k] == x[k].re))')]}})
fn('dsplib::imag', M, sig='dsplib::arr_real ' + CA, key='imag(arr_cmplx)', serves=['C17', 'C05'], pure=True,
   ensures=[('length', 'result.len == x.len'), ('definition', 'forall(lambda k: Implies(And(0 <= k, k < x.len), result[k] == x[k].im))')],
   loops={1: {'inv': [('len', 'r.len == x.len'), ('done', 'forall(lambda k: Implies(And(0 <= k, k < i), r[k] == x[k].im))')]}})
fn('dsplib::conj', M, sig='dsplib::arr_cmplx ' + CA, key='conj(arr_cmplx)', serves=['C17', 'C05'], pure=True,
   ensures=[('length', 'result.len == x.len'),
            ('definition', 'forall(lambda k: Implies(And(0 <= k, k < x.len), And(result[k].re == x[k].re, result[k].im == -x[k].im)))')],
   loops={1: {'inv': [('len', 'r.len == x.len'),
                      ('done', 'forall(lambda k: Implies(And(0 <= k, k < i), And(r[k].re == x[k].re, r[k].im == -x[k].im)))'),
                      ('todo', 'forall(lambda k: Implies(And(i <= k, k < r.len), r[k] == x[k]))')]}})
fn('dsplib::expj', M, sig='dsplib::arr_cmplx ' + RA, key='expj(arr_real)', serves=['C17', 'C05'], pure=True, extra_env=LIBM,
   ensures=[('length', 'result.len == im.len'),
            ('definition', 'forall(lambda k: Implies(And(0 <= k, k < im.len), And(result[k].re == COS(im[k]), result[k].im == SIN(im[k]))))')],
   loops={1: {'inv': [('len', 'r.len == im.len'),
                      ('done', 'forall(lambda k: Implies(And(0 <= k, k < i), And(r[k].re == COS(im[k]), r[k].im == SIN(im[k]))))')]}})
fn('dsplib::exp', M, sig='dsplib::arr_cmplx ' + CA, key='exp(arr_cmplx)', serves=['C17', 'C05'], pure=True, extra_env=LIBM,
   ensures=[('length', 'result.len == arr.len'),
            ('definition', 'forall(lambda k: Implies(And(0 <= k, k < arr.len), And(result[k].re == EXP(arr[k].re)*COS(arr[k].im), result[k].im == EXP(arr[k].re)*SIN(arr[k].im))))')],
   loops={1: {'inv': [('len', 'r.len == arr.len'),
                      ('done', 'forall(lambda k: Implies(And(0 <= k, k < i), And(r[k].re == EXP(arr[k].re)*COS(arr[k].im), r[k].im == EXP(arr[k].re)*SIN(arr[k].im))))'),
                      ('todo', 'forall(lambda k: Implies(And(i <= k, k < r.len), r[k] == arr[k]))')]}})

# scalars
SC = [('abs', 'dsplib::real_t (dsplib::real_t)', 'abs(real)', 'result == fabs(v)'),
      ('abs', 'dsplib::real_t (dsplib::cmplx_t)', 'abs(cmplx)', 'result == SQRT(v.re*v.re + v.im*v.im)'),
      ('round', 'dsplib::real_t (const dsplib::real_t &)', 'round(real)', 'result == rnd(x)'),
      ('round', 'dsplib::cmplx_t (const dsplib::cmplx_t &)', 'round(cmplx)', 'And(result.re == rnd(x.re), result.im == rnd(x.im))'),
      ('log', 'dsplib::real_t (const dsplib::real_t &)', 'log(real)', 'result == LOG(x)'),
      ('log2', 'dsplib::real_t (const dsplib::real_t &)', 'log2(real)', 'result == LOG2(x)'),
      ('log10', 'dsplib::real_t (const dsplib::real_t &)', 'log10(real)', 'result == LOG10(x)'),
      ('exp', 'dsplib::real_t (dsplib::real_t)', 'exp(real)', 'result == EXP(v)'),
      ('exp', 'dsplib::cmplx_t (dsplib::cmplx_t)', 'exp(cmplx)', 'And(result.re == EXP(v.re)*COS(v.im), result.im == EXP(v.re)*SIN(v.im))'),
      ('expj', 'dsplib::cmplx_t (dsplib::real_t)', 'expj(real)', 'And(result.re == COS(im), result.im == SIN(im))'),
      ('real', 'dsplib::real_t (dsplib::cmplx_t)', 'real(cmplx)', 'result == x.re'),
      ('imag', 'dsplib::real_t (dsplib::cmplx_t)', 'imag(cmplx)', 'result == x.im'),
      ('power', 'dsplib::real_t (dsplib::real_t, dsplib::real_t)', 'power(real,real)', 'result == POW(x, n)'),
      ('pow2db', 'dsplib::real_t (dsplib::real_t)', 'pow2db(real)', 'result == 10 * LOG10(v)'),
      ('db2pow', 'dsplib::real_t (dsplib::real_t)', 'db2pow(real)', 'result == POW(10, v / 10)'),
      ('mag2db', 'dsplib::real_t (dsplib::real_t)', 'mag2db(real)', 'result == 20 * LOG10(v)'),
      ('db2mag', 'dsplib::real_t (dsplib::real_t)', 'db2mag(real)', 'result == POW(10, v / 20)'),
      ('deg2rad', 'dsplib::real_t (const dsplib::real_t &)', 'deg2rad(real)', 'result == x / 180 * PI'),
      ('rad2deg', 'dsplib::real_t (const dsplib::real_t &)', 'rad2deg(real)', 'result == x / PI * 180'),
      ]
EXTRA_POST = {'db2mag(real)': [('positive', 'result > 0'), ('attenuation', 'Implies(v <= 0, result <= 1)'), ('unity', 'Implies(v == 0, result == 1)')],
              'db2pow(real)': [('positive', 'result > 0'), ('attenuation', 'Implies(v <= 0, result <= 1)')]}
for nm, sig, key, post in SC:
    if post.startswith('result == '):
        fn('dsplib::' + nm, M, sig=sig, key=key, serves=['C17'], pure=True, extra_env=LIBM, value=post[len('result == '):],
           ensures=EXTRA_POST.get(key, []))
    else:
        fn('dsplib::' + nm, M, sig=sig, key=key, serves=['C17'], pure=True, extra_env=LIBM, ensures=[('definition', post)])

# principal argument: angle(v) in (-pi, pi], the textbook atan2(im, re)
fn('dsplib::angle', M, sig='dsplib::real_t (dsplib::cmplx_t)', key='angle(cmplx)', serves=['C17'], pure=True, extra_env=LIBM,
   body_assumes=['ATAN2_AX(v.im, v.re)'],
   ensures=[('principal_argument', 'result == ATAN2(v.im, v.re)')])
elementwise('dsplib::angle', 'dsplib::arr_real ' + CA, 'angle(arr_cmplx)', 'ATAN2($.im, $.re)')

# reductions
fn('dsplib::dot', M, sig='dsplib::real_t (const dsplib::arr_real &, const dsplib::arr_real &)', key='dot(real)',
   serves=['C17', 'C05'], pure=True, throws='x1.len != x2.len',
   ensures=[('definition', 'result == DOT(data(x1), 0, 1, data(x2), x1.len)')],
   loops={1: {'facts': ['DOT_BASE(data(x1), 0, 1, data(x2))', 'DOT_STEP(data(x1), 0, 1, data(x2), i)'],
              'inv': [('acc', 'acc == DOT(data(x1), 0, 1, data(x2), i)')]}})
fn('dsplib::mean', M, sig='dsplib::real_t (const dsplib::arr_real &)', key='mean(real)', serves=['C17'], pure=True,
   ensures=[('definition', 'result * ToReal(arr.len) == SUMR(data(arr), arr.len)')], requires=['arr.len >= 1'])
fn('dsplib::rms', M, sig='dsplib::real_t (const dsplib::arr_real &)', key='rms(real)', serves=['C17', 'C05'], pure=True,
   extra_env=LIBM, requires=['arr.len >= 1'],
   ensures=[('root_mean_square', 'exists_w(lambda s2: And(result == SQRT(s2 / ToReal(arr.len)), s2 == DOT(data(arr), 0, 1, data(arr), arr.len)), sum)')],
   loops={1: {'facts': ['DOT_BASE(data(arr), 0, 1, data(arr))', 'DOT_STEP(data(arr), 0, 1, data(arr), i)'],
              'inv': [('acc', 'sum == DOT(data(arr), 0, 1, data(arr), i)')]}})
fn('dsplib::max', M, sig='dsplib::real_t ' + RA, key='max(real)', serves=['C17', 'C05'], pure=True, requires=['arr.len >= 1'],
   ensures=[('is_element', 'exists(lambda j: And(0 <= j, j < arr.len, arr[j] == result))'),
            ('upper_bound', 'forall(lambda k: Implies(And(0 <= k, k < arr.len), arr[k] <= result))')])
fn('dsplib::min', M, sig='dsplib::real_t ' + RA, key='min(real)', serves=['C17', 'C05'], pure=True, requires=['arr.len >= 1'],
   ensures=[('is_element', 'exists(lambda j: And(0 <= j, j < arr.len, arr[j] == result))'),
            ('lower_bound', 'forall(lambda k: Implies(And(0 <= k, k < arr.len), arr[k] >= result))')])
fn('dsplib::argmax', M, sig='int ' + RA, key='argmax(real)', serves=['C17', 'C05'], pure=True, requires=['arr.len >= 1'],
   ensures=[('range', 'And(0 <= result, result < arr.len)'),
            ('first_maximum', 'And(forall(lambda k: Implies(And(0 <= k, k < arr.len), arr[k] <= arr[result])), forall(lambda k: Implies(And(0 <= k, k < result), arr[k] < arr[result])))')])
fn('dsplib::argmin', M, sig='int ' + RA, key='argmin(real)', serves=['C17', 'C05'], pure=True, requires=['arr.len >= 1'],
   ensures=[('range', 'And(0 <= result, result < arr.len)'),
            ('first_minimum', 'And(forall(lambda k: Implies(And(0 <= k, k < arr.len), arr[k] >= arr[result])), forall(lambda k: Implies(And(0 <= k, k < result), arr[k] > arr[result])))')])

# ---------------------------------------------------------------------------------------------------
# index / shape helpers
DRV = 'drivers/instantiate.cpp'

# arange(start, stop, step): start + k*step for every k >= 0 that lies strictly before stop (Python range)
fn('dsplib::arange', DRV, sig='(int, int, int)', key='arange(int,int,int)', serves=['C17', 'C05'], pure=True,
   requires=[('step', 'step != 0'), ('span', 'And(start >= -1073741824, start <= 1073741824, stop >= -1073741824, stop <= 1073741824, step >= -1000000, step <= 1000000, stop - start <= 1073741824, start - stop <= 1073741824)')],
   lets={'cnt': 'If(step > 0, If(stop > start, tdiv(stop - start + step - 1, step), 0), If(stop < start, tdiv(start - stop - step - 1, -step), 0))'},
   throws='False',
   ensures=[('count', 'result.len == cnt'),
            ('values', 'forall(lambda k: Implies(And(0 <= k, k < result.len), result[k] == ToReal(old.start + k * step)))')],
   loops={1: {'inv': [('len', 'r.len == n'), ('cur', 'start == old.start + i * step'),
                      ('done', 'forall(lambda k: Implies(And(0 <= k, k < i), r[k] == ToReal(old.start + k * step)))')]}})

for T in ('double', 'dsplib::cmplx_t'):
    BA = 'dsplib::base_array<%s>' % T
    fn('dsplib::_downsample', M, sig='(const %s &, int, int)' % BA, key='_downsample<%s>' % T, serves=['C17', 'C05'], pure=True,
       requires=[('size', 'arr.len + n <= INT_MAX'), ('domain', 'Or(n <= 0, phase >= n, phase < 0, phase < arr.len)')],
       throws='Or(n <= 0, phase >= n, phase < 0)',
       ensures=[('count', 'Implies(n > 1, And(result.len * n >= arr.len - phase, (result.len - 1) * n < arr.len - phase, result.len >= 0))'),
                ('identity', 'Implies(n == 1, result == arr)'),
                ('values', 'Implies(n > 1, forall(lambda k: Implies(And(0 <= k, k < result.len), result[k] == arr[phase + k * n])))')],
       loops={1: {'inv': [('len', 'And(r.len == nr, nr * n >= arr.len - phase, (nr - 1) * n < arr.len - phase)'),
                          ('idx', 'And(k == phase + i * n, i >= 0)'),
                          ('done', 'forall(lambda t: Implies(And(0 <= t, t < i), r[t] == arr[phase + t * n]))')],
                  'dec': 'arr.len + n - k'}})
    fn('dsplib::_upsample', M, sig='(const %s &, int, int)' % BA, key='_upsample<%s>' % T, serves=['C17', 'C05'], pure=True,
       requires=[('size', 'arr.len * n <= INT_MAX - n')],
       throws='Or(n <= 0, phase >= n, phase < 0)',
       ensures=[('count', 'Implies(n > 1, result.len == arr.len * n)'),
                ('identity', 'Implies(n == 1, result == arr)'),
                ('values', 'Implies(n > 1, forall(lambda k: Implies(And(0 <= k, k < arr.len), result[phase + k * n] == arr[k])))'),
                ('zeros', 'Implies(n > 1, forall(lambda t: Implies(And(0 <= t, t < result.len, Not(INSLICE(phase, n, arr.len, t))), eqv(result[t], 0))))')],
       loops={1: {'inv': [('len', 'r.len == arr.len * n'), ('idx', 'And(k == phase + i * n, i >= 0, i <= arr.len)'),
                          ('done', 'forall(lambda t: Implies(And(0 <= t, t < i), r[phase + t * n] == arr[t]))'),
                          ('zeros', 'forall(lambda t: Implies(And(0 <= t, t < r.len, Not(INSLICE(phase, n, i, t))), eqv(r[t], 0)))')],
                  'facts': ['INSLICE_BASE(phase, n)', 'INSLICE_STEP(phase, n, i)'],
                  'dec': 'r.len + n - k'}})

fn('dsplib::delayseq', DRV, serves=['C17', 'C18', 'C05'], pure=True,
   requires=[('range', 'delay > INT_MIN')], throws='False', body_assumes=['INSLICE_AX()'],
   ensures=[('length', 'result.len == data.len'),
            ('shift', 'forall(lambda k: Implies(And(0 <= k, k < data.len), result[k] == If(And(k - delay >= 0, k - delay < data.len), data[k - delay], 0)))')])

fn('dsplib::linspace', U, serves=['C17', 'C05'], pure=True,
   requires=[('size', 'n <= 1000000000')],
   throws='n < 1',
   ensures=[('length', 'result.len == n'),
            ('single', 'Implies(n == 1, result[0] == x2)'),
            ('endpoints', 'Implies(n >= 2, And(result[0] == x1, Implies(n == 2, result[1] == x2)))'),
            ('uniform', 'Implies(n >= 3, forall(lambda k: Implies(And(0 <= k, k < n), result[k] == x1 + ToReal(k) * ((x2 - x1) / ToReal(n - 1)))))')],
   loops={1: {'inv': [('len', 'out.len == n'),
                      ('done', 'forall(lambda k: Implies(And(0 <= k, k < i), out[k] == x1 + ToReal(k) * ((x2 - x1) / ToReal(n - 1))))')]}})

fn('dsplib::dot', M, sig='dsplib::cmplx_t (const dsplib::arr_cmplx &, const dsplib::arr_cmplx &)', key='dot(cmplx)',
   serves=['C17', 'C05'], pure=True, throws='x1.len != x2.len', loops={1: {'inv': []}})

# p-norm: (sum_k |x[k]|^p)^(1/p); p = 1 and p = 2 through sum(abs) and sqrt(sum(abs2))
PW = _z3.Function('powi', _z3.RealSort(), _z3.IntSort(), _z3.RealSort())
LIBM['PW'] = PW
PWI = 'If(n == 2, x[k] * x[k], If(n == -1, 1 / x[k], If(n == 0, 1, If(n == 1, x[k], POW(x[k], ToReal(n))))))'
fn('dsplib::power', M, sig='dsplib::arr_real (const dsplib::arr_real &, int)', key='power(arr_real,int)', serves=['C17', 'C05'], pure=True, extra_env=LIBM, throws='False',
   ensures=[('length', 'result.len == x.len'),
            ('elementwise', 'forall(lambda k: Implies(And(0 <= k, k < x.len), result[k] == %s))' % PWI)])
fn('dsplib::norm', M, sig='(const dsplib::arr_real &, int)', key='norm(arr_real,p)', serves=['C17', 'C05'], pure=True, extra_env=LIBM,
   requires=[('order', 'p >= 1')],
   ghost={'S': 'x'}, ghost_on=[('call:sum', None, {'S': 'arg0'})],
   ensures=[('terms', 'forall(lambda k: Implies(And(0 <= k, k < x.len), S[k] == If(p == 1, fabs(x[k]), If(p == 2, x[k]*x[k], POW(fabs(x[k]), ToReal(p))))))'),
            ('length', 'S.len == x.len'),
            ('root', 'result == If(p == 1, SUMR(data(S), x.len), If(p == 2, SQRT(SUMR(data(S), x.len)), POW(SUMR(data(S), x.len), 1 / ToReal(p))))')])

fn('dsplib::complex', M, sig='dsplib::arr_cmplx (const dsplib::arr_real &)', key='complex(arr_real)', serves=['C17', 'C03', 'C05'], pure=True, throws='False',
   ensures=[('length', 'result.len == re.len'),
            ('definition', 'forall(lambda k: Implies(And(0 <= k, k < re.len), And(result[k].re == re[k], result[k].im == 0)))')])

fn('dsplib::arange', DRV, sig='dsplib::arr_real (int)', key='arange(int)', serves=['C17', 'C05'], pure=True,
   requires=[('span', 'And(stop >= -1073741824, stop <= 1073741824)')], throws='False',
   ensures=[('count', 'result.len == If(stop > 0, stop, 0)'),
            ('values', 'forall(lambda k: Implies(And(0 <= k, k < result.len), result[k] == ToReal(k)))')])

fn('dsplib::ones', DRV, key='ones(n)', serves=['C17', 'C05'], pure=True,
   requires=[('size', 'n >= 0')], throws='False',
   ensures=[('length', 'result.len == n'), ('values', 'forall(lambda k: Implies(And(0 <= k, k < n), result[k] == 1))')])
