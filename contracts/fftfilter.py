"""C05 / C06 / C07: FftFilter (lib/fir.cpp) -- block buffering of the overlap-add filter.

What is proved is the part of "emits the same sequence as the direct filter in multiples of its block size" that lives in
index arithmetic: how many samples a call returns, which stream samples each FFT block contains (pending samples of earlier
calls first, at their positions, zero padding intact), where each block's output and its overlap tail go. That the
FFT-domain product is the time-domain convolution (the convolution theorem over the assumed transform) is not proved."""
from engine.spec import fn
from contracts.fftabs import ENV as FENV
from contracts.fir import ENV as FIRENV
from contracts.resample import divmul, mulmono

F = 'lib/fir.cpp'
ENV = dict(FENV)
ENV.update({k: FIRENV[k] for k in ('MOD_STEP', 'DIV_STEP', 'DIV_MONO', 'DIVMOD_UNIQUE')})
ENV['DIVMUL'] = divmul
ENV['MULMONO'] = mulmono
FF_OK = ('And(_m >= 1, _n > _m, _x.len == _n + _m - 1, _h.len == _x.len, _olap.len == _m - 1, 0 <= _nx, _nx < _n, '
         'forall(lambda t: Implies(And(_n <= t, t < _x.len), And(_x[t].re == 0, _x[t].im == 0))))')
# the stream still to be consumed at entry: pending samples of earlier calls, then the new input
P = 'If({t} < old._nx, old._x[{t}], x[{t} - old._nx])'
# a default-constructed filter (FftFilter() = default) holds no coefficients: every member empty / zero
FF_EMPTY = 'And(_m == 0, _n == 0, _nx == 0, _x.len == 0, _h.len == 0, _olap.len == 0)'

fn('dsplib::FftFilter::process', F, sig='(const dsplib::arr_cmplx &)', key='FftFilter::process(cmplx)', serves=['C06', 'C07', 'C05'],
   extra_env=ENV, assigns=['this._x', 'this._olap', 'this._nx'],
   requires=[('invariant', 'Or(%s, %s)' % (FF_OK, FF_EMPTY)), ('size', 'x.len + _nx <= INT_MAX')],
   throws='_n == 0',      # an uninitialised filter is rejected
   ensures=[('invariant', FF_OK),
            ('length', 'result.len == tdiv(x.len + old._nx, _n) * _n'),
            ('fill', '_nx == tmod(old._nx + x.len, _n)'),
            ('pending', 'forall(lambda j: Implies(And(0 <= j, j < _nx), same(_x[j], ' + P.format(t='(result.len + j)') + ')))'),
            ('coefficients', 'And(_h.len == old._h.len, _m == old._m, _n == old._n)'),
            # a whole block of zeros on an aligned filter leaves no overlap tail behind (used by PreambleDetector::reset)
            ('flushed', 'Implies(And(old._nx == 0, x.len >= _n, forall(lambda k: Implies(And(0 <= k, k < x.len), And(x[k].re == 0, x[k].im == 0)))), forall(lambda t: Implies(And(0 <= t, t < _olap.len), And(_olap[t].re == 0, _olap[t].im == 0))))')],
   prop_of={'pending': ['C06', 'C07'], 'length': ['C07', 'C06'], 'fill': ['C06', 'C07']},
   asserts_on=[('call:fft', [('zero_block', 'Implies(And(old._nx == 0, forall(lambda k: Implies(And(0 <= k, k < x.len), And(x[k].re == 0, x[k].im == 0)))), forall(lambda t: Implies(And(0 <= t, t < _x.len), And(_x[t].re == 0, _x[t].im == 0))))')])],
   loops={1: {'facts': ['DIVMOD_UNIQUE(old._nx + val_idx, _n, tdiv(pr.off, _n), _nx)', 'DIV_STEP(old._nx + val_idx, _n)',
                        'DIV_MONO(old._nx + val_idx + 1, old._nx + x.len, _n)',
                        'MULMONO(tdiv(old._nx + x.len, _n), tdiv(pr.off, _n) + 1, _n)', 'DIVMUL(tdiv(pr.off, _n) + 1, _n)'],
              'inv': [('shape', FF_OK), ('coefficients', 'And(_h.len == old._h.len, _m == old._m, _n == old._n)'),
                      ('out', 'And(r.len == tdiv(x.len + old._nx, _n) * _n, pr.off >= 0, pr.off == tdiv(pr.off, _n) * _n, old._nx + val_idx == pr.off + _nx)'),
                      ('pending', 'forall(lambda j: Implies(And(0 <= j, j < _nx), same(_x[j], ' + P.format(t='(pr.off + j)') + ')))'),
                      ('flush', 'Implies(And(old._nx == 0, forall(lambda k: Implies(And(0 <= k, k < x.len), And(x[k].re == 0, x[k].im == 0))), pr.off >= _n), forall(lambda t: Implies(And(0 <= t, t < _olap.len), And(_olap[t].re == 0, _olap[t].im == 0))))')]},
          2: {'inv': [('len', 'And(r.len == tdiv(x.len + old._nx, _n) * _n, pr.off + _n <= r.len, pr.off >= 0)')]},
          3: {'inv': [('len', 'And(r.len == tdiv(x.len + old._nx, _n) * _n, pr.off + _n <= r.len, pr.off >= 0, _olap.len == _m - 1)'),
                      ('flush', 'Implies(forall(lambda k: Implies(And(0 <= k, k < ry.len), And(ry[k].re == 0, ry[k].im == 0))), '
                                'forall(lambda t: Implies(And(0 <= t, t < i), And(_olap[t].re == 0, _olap[t].im == 0))))')]}},
   post_facts=['DIVMOD_UNIQUE(old._nx + x.len, _n, tdiv(pr.off, _n), _nx)'])

fn('dsplib::FftFilter::FftFilter', F, sig='(const dsplib::arr_cmplx &)', key='FftFilter::FftFilter(cmplx)', serves=['C06', 'C07', 'C05'],
   extra_env=ENV, assigns=['this'],
   requires=[('taps', 'And(h.len >= 1, h.len <= 268435456)')],
   throws='False',
   ensures=[('invariant', FF_OK), ('empty', '_nx == 0'), ('taps', '_m == h.len'),
            ('block', 'exists(lambda k: And(0 <= k, k <= 30, _n + _m - 1 == pow2(k), pow2(k) >= 2 * _m))'),
            ('rest', 'And(forall(lambda t: Implies(And(0 <= t, t < _x.len), And(_x[t].re == 0, _x[t].im == 0))), '
                     'forall(lambda t: Implies(And(0 <= t, t < _olap.len), And(_olap[t].re == 0, _olap[t].im == 0))))')])

fn('dsplib::FftFilter::FftFilter', F, sig='(const dsplib::arr_real &)', key='FftFilter::FftFilter(real)', serves=['C06', 'C07', 'C05'],
   extra_env=ENV, assigns=['this'],
   requires=[('taps', 'And(h.len >= 1, h.len <= 268435456)')],
   throws='False',
   ensures=[('invariant', FF_OK), ('empty', '_nx == 0'), ('taps', '_m == h.len')])

fn('dsplib::FftFilter::process', F, sig='(const dsplib::arr_real &)', key='FftFilter::process(real)', serves=['C06', 'C07', 'C05'],
   extra_env=ENV, assigns=['this._x', 'this._olap', 'this._nx'],
   requires=[('invariant', 'Or(%s, %s)' % (FF_OK, FF_EMPTY)), ('size', 'x.len + _nx <= INT_MAX')],
   throws='_n == 0',
   ensures=[('invariant', FF_OK),
            ('length', 'result.len == tdiv(x.len + old._nx, _n) * _n'),
            ('fill', '_nx == tmod(old._nx + x.len, _n)'),
            ('pending', 'forall(lambda j: Implies(And(0 <= j, j < _nx), And(_x[j].re == If(result.len + j < old._nx, old._x[result.len + j].re, x[result.len + j - old._nx]), '
                        '_x[j].im == If(result.len + j < old._nx, old._x[result.len + j].im, 0))))'),
            ('flushed', 'Implies(And(old._nx == 0, x.len >= _n, forall(lambda k: Implies(And(0 <= k, k < x.len), x[k] == 0))), forall(lambda t: Implies(And(0 <= t, t < _olap.len), And(_olap[t].re == 0, _olap[t].im == 0))))')])
