"""C20 / C06 / C05: dynamics processors (include/dsplib/audio/*.h). Real algebra over the dB level xdb."""
from engine.spec import fn, inline_fn
from contracts.mathfun import LIBM

D = 'drivers/instantiate.cpp'
inline_fn('dsplib::Compressor::Result::Result', 'dsplib::Limiter::Result::Result', 'dsplib::NoiseGate::Result::Result')

fn('dsplib::abs2', 'lib/math.cpp', sig='dsplib::real_t (const dsplib::real_t &)', key='abs2(real)', serves=['C17'],
   pure=True, value='x * x')

# static characteristic as a function of the input level t (dB): documented curve of each processor
COMP_CURVE = ('If(t >= T_ + W_/2, T_ + (t - T_)/ToReal(R_) - t, '
              'If(And(t > T_ - W_/2, t < T_ + W_/2), (1/ToReal(R_) - 1) * ((t - T_ + W_/2)*(t - T_ + W_/2)) / (2*W_), 0))')
LIM_CURVE = ('If(t >= T_ + W_/2, T_ - t, '
             'If(And(t > T_ - W_/2, t < T_ + W_/2), -((t - T_ + W_/2)*(t - T_ + W_/2)) / (2*W_), 0))')

fn('dsplib::Compressor::_compute_gain', D, serves=['C20'], pure=True, extra_env=LIBM,
   requires=[('params', 'And(R_ >= 1, R_ <= 50, W_ >= 0, W_ <= 20)')],
   ensures=[('static_curve', 'exists_w(lambda t: result == %s, xdb)' % COMP_CURVE),
            ('never_amplifies', 'result <= 0')])
fn('dsplib::Limiter::_compute_gain', D, serves=['C20'], pure=True, extra_env=LIBM,
   requires=[('params', 'And(W_ >= 0, W_ <= 20)')],
   ensures=[('static_curve', 'exists_w(lambda t: result == %s, xdb)' % LIM_CURVE),
            ('never_amplifies', 'result <= 0'),
            ('ceiling', 'exists_w(lambda t: Implies(t >= T_ + W_/2, t + result == T_), xdb)')])

for cls in ('Compressor', 'Limiter'):
    fn('dsplib::%s::process' % cls, D, serves=['C20', 'C06', 'C05'], extra_env=LIBM, assigns=['this.gs_'],
       requires=[('params', 'And(W_ >= 0, W_ <= 20, 0 <= wA_, wA_ <= 1, 0 <= wR_, wR_ <= 1, gs_ <= 0)')] +
                ([('ratio', 'And(R_ >= 1, R_ <= 50)')] if cls == 'Compressor' else []),
       throws='False',
       ensures=[('lengths', 'And(result.out.len == x.len, result.gain.len == x.len)'),
                ('gain_in_unit_interval', 'forall(lambda k: Implies(And(0 <= k, k < x.len), And(result.gain[k] > 0, result.gain[k] <= 1)))'),
                ('output_is_scaled_input', 'forall(lambda k: Implies(And(0 <= k, k < x.len), result.out[k] == x[k] * result.gain[k]))'),
                ('state', 'gs_ <= 0')],
       loops={1: {'inv': [('shape', 'And(res.out.len == n, res.gain.len == n, n == x.len)'), ('state', 'gs_ <= 0'),
                          ('gains', 'forall(lambda k: Implies(And(0 <= k, k < i), And(res.gain[k] > 0, res.gain[k] <= 1)))'),
                          ('outs', 'forall(lambda k: Implies(And(0 <= k, k < i), res.out[k] == x[k] * res.gain[k]))')]}})

fn('dsplib::NoiseGate::_smooth_gain', D, serves=['C20', 'C05'], assigns=['this.cA_'],
   requires=[('params', 'And(0 <= wA_, wA_ <= 1, 0 <= wR_, wR_ <= 1, 0 <= lg_, lg_ <= 1, 0 <= gc, gc <= 1, tH_ >= 0, cA_ >= 0, cA_ <= tH_)')],
   ensures=[('between', 'And(result >= zmin_r(lg_, gc), result <= zmax_r(lg_, gc))'),
            ('hold', 'Implies(And(gc < lg_, old.cA_ < tH_), And(result == lg_, cA_ == old.cA_ + 1))'),
            ('attack', 'Implies(And(gc < lg_, old.cA_ >= tH_), result == wA_ * lg_ + (1 - wA_) * gc)'),
            ('release', 'Implies(gc > lg_, And(result == wR_ * lg_ + (1 - wR_) * gc, cA_ == 0))'),
            ('counter', 'And(cA_ >= 0, cA_ <= tH_)')],
   extra_env={'zmin_r': lambda a, b: __import__('z3').If(a <= b, a, b), 'zmax_r': lambda a, b: __import__('z3').If(a >= b, a, b)})

fn('dsplib::NoiseGate::process', D, serves=['C20', 'C06', 'C05'], assigns=['this.cA_', 'this.lg_'], extra_env=LIBM,
   requires=[('params', 'And(0 <= wA_, wA_ <= 1, 0 <= wR_, wR_ <= 1, 0 <= lg_, lg_ <= 1, tH_ >= 0, cA_ >= 0, cA_ <= tH_)')],
   throws='False',
   ensures=[('lengths', 'And(result.out.len == x.len, result.gain.len == x.len)'),
            ('gain_in_unit_interval', 'forall(lambda k: Implies(And(0 <= k, k < x.len), And(result.gain[k] >= 0, result.gain[k] <= 1)))'),
            ('output_is_scaled_input', 'forall(lambda k: Implies(And(0 <= k, k < x.len), result.out[k] == x[k] * result.gain[k]))'),
            ('state', 'And(0 <= lg_, lg_ <= 1, cA_ >= 0, cA_ <= tH_)')],
   loops={1: {'inv': [('shape', 'And(res.out.len == n, res.gain.len == n, n == x.len)'),
                      ('state', 'And(0 <= lg_, lg_ <= 1, cA_ >= 0, cA_ <= tH_)'),
                      ('gains', 'forall(lambda k: Implies(And(0 <= k, k < i), And(res.gain[k] >= 0, res.gain[k] <= 1)))'),
                      ('outs', 'forall(lambda k: Implies(And(0 <= k, k < i), res.out[k] == x[k] * res.gain[k]))')]}})

# ---------------------------------------------------------------------------------------------------
from contracts.fir import MA_OK, ENV as FENV   # noqa: E402
AG = 'lib/agc.cpp'
inline_fn('dsplib::MAFilter<double>::operator()')
AENV = dict(LIBM)
AENV.update(FENV)
MA_AGC = MA_OK.replace('_n', 'agc.maflt._n').replace('_buf', 'agc.maflt._buf').replace('_pos', 'agc.maflt._pos').replace('_accum', 'agc.maflt._accum')

for T, key in (('double', 'real'), ('dsplib::cmplx_t', 'cmplx')):
    fn('dsplib::_process', AG, sig='const base_array<%s> &)' % T, key='Agc::_process<%s>' % key, serves=['C20', 'C06', 'C05'],
       extra_env=AENV, assigns=['agc.gain', 'agc.maflt'],
       requires=[('moving_average', MA_AGC)], throws='False',
       ensures=[('lengths', 'And(result.out.len == x.len, result.gain.len == x.len)'),
                ('never_exceeds_max_gain', 'forall(lambda k: Implies(And(0 <= k, k < x.len), exists_real(lambda g: And(result.gain[k] == EXP(g), g <= agc.max_gain))))'),
                ('output_is_scaled_input', 'forall(lambda k: Implies(And(0 <= k, k < x.len), eqv(result.out[k], mul(x[k], result.gain[k]))))'),
                ('moving_average', MA_AGC), ('parameters_kept', 'And(agc.max_gain == old.agc.max_gain, agc.target == old.agc.target)')],
       loops={1: {'inv': [('shape', 'And(out.len == nx, gain.len == nx, nx == x.len)'), ('ma', MA_AGC),
                          ('gains', 'forall(lambda k: Implies(And(0 <= k, k < i), exists_real(lambda g: And(gain[k] == EXP(g), g <= agc.max_gain))))'),
                          ('outs', 'forall(lambda k: Implies(And(0 <= k, k < i), eqv(out[k], mul(x[k], gain[k]))))')]}})

fn('dsplib::abs2', 'lib/math.cpp', sig='dsplib::real_t (const dsplib::cmplx_t &)', key='abs2(cmplx scalar)', serves=['C17'],
   pure=True, value='x.re * x.re + x.im * x.im')

# constructors: time constants w = exp(-log(9) / (fs * t)) and documented parameter ranges
fn('dsplib::Compressor::Compressor', D, serves=['C20', 'C05'], extra_env=LIBM, assigns=['this'],
   throws='Or(threshold < -50, threshold > 0, ratio < 1, ratio > 50, knee_width < 0, knee_width > 20, attack_time < 0, attack_time > 4, release_time < 0, release_time > 4)',
   requires=[('rate', 'sample_rate >= 1')],
   ensures=[('parameters', 'And(T_ == threshold, R_ == ratio, W_ == knee_width, gs_ == 0)'),
            ('attack_time_constant', 'wA_ == EXP(-LOG(9) / (ToReal(sample_rate) * attack_time))'),
            ('release_time_constant', 'wR_ == EXP(-LOG(9) / (ToReal(sample_rate) * release_time))')])
fn('dsplib::Limiter::Limiter', D, serves=['C20', 'C05'], extra_env=LIBM, assigns=['this'],
   throws='Or(threshold < -50, threshold > 0, knee_width < 0, knee_width > 20, attack_time < 0, attack_time > 4, release_time < 0, release_time > 4)',
   requires=[('rate', 'sample_rate >= 1')],
   ensures=[('parameters', 'And(T_ == threshold, W_ == knee_width, gs_ == 0)'),
            ('attack_time_constant', 'wA_ == EXP(-LOG(9) / (ToReal(sample_rate) * attack_time))'),
            ('release_time_constant', 'wR_ == EXP(-LOG(9) / (ToReal(sample_rate) * release_time))')])
fn('dsplib::NoiseGate::NoiseGate', D, serves=['C20', 'C05'], extra_env=LIBM, assigns=['this'],
   throws='Or(threshold < -140, threshold > 0, attack_time < 0, attack_time > 4, release_time < 0, release_time > 4, hold_time < 0, hold_time > 4)',
   requires=[('rate', 'And(sample_rate >= 1, sample_rate <= 1000000)'), ('hold_range', 'And(hold_time > -1000, hold_time < 1000)')],
   ensures=[('threshold', 'tlin_ == POW(10, threshold / 20)'), ('state', 'And(cA_ == 0, lg_ == 0)'),
            ('hold_samples', 'And(ToReal(tH_) <= hold_time * ToReal(sample_rate), hold_time * ToReal(sample_rate) < ToReal(tH_) + 1)'),
            ('attack_time_constant', 'wA_ == EXP(-LOG(9) / (ToReal(sample_rate) * attack_time))'),
            ('release_time_constant', 'wR_ == EXP(-LOG(9) / (ToReal(sample_rate) * release_time))')])
