"""Native replay adapters: turn a verifier model into a C++ program calling the real code."""
from engine.replay import adapter

HDR = '#include <dsplib.h>\n#include <cstdio>\n#include <cstdlib>\n#include <cmath>\nusing namespace dsplib;\n'


def I(model, k, default=0):
    try:
        return int(model.get(k, default))
    except Exception:
        return default


@adapter(r'base_slice_t::base_slice_t')
def slice_ctor(o):
    m = o['model'] or {}
    n, i1, i2, st = I(m, 'n', 1), I(m, 'i1'), I(m, 'i2'), I(m, 'm', 1)
    if n > 1 << 20:
        return None
    return HDR + '''
// python reference of x[i1:i2:m] for the non-throwing cases
static bool py_slice(long n,long i1,long i2,long m,long& a,long& cnt){
  if(n==0||m==0) return false; long A=i1<0?n+i1:i1, B=i2<0?n+i2:i2;
  if(A<0||A>=n||B<0||B>n) return false; if(m<0&&A<B) return false; if(m>0&&A>B) return false;
  cnt=0; if(m>0){ for(long p=A;p<B;p+=m) ++cnt; } else { for(long p=A;p>B;p+=m) ++cnt; } a=A; return true; }
int main(){
  const int n=%d; int i1=(int)%dLL, i2=(int)%dLL, m=(int)%dLL;
  arr_real x(n); for(int i=0;i<n;++i) x[i]=i;
  long a=0,cnt=0; bool ok=py_slice(n,i1,i2,m,a,cnt); bool thrown=false; arr_real y;
  try { y = arr_real(x.slice(i1,i2,m)); } catch(const std::exception&) { thrown=true; }
  if(thrown==ok){ std::printf("throw mismatch: thrown=%%d expected_ok=%%d\\n",thrown,ok); return 1; }
  if(ok){ if(y.size()!=cnt){ std::printf("count %%d vs %%ld\\n",y.size(),cnt); return 1; }
    for(long k=0;k<cnt;++k) if(y[int(k)]!=double(a+k*m)){ std::printf("element %%ld\\n",k); return 1; } }
  return 0; }
''' % (n, i1, i2, st)


def vec_lit(m, key, cplx=False):
    els = m.get(key) or []
    if cplx:
        return '{' + ','.join('cmplx_t{%s,%s}' % (frac(e[0]), frac(e[1])) for e in els) + '}'
    return '{' + ','.join(frac(e[0]) for e in els) + '}'


def frac(s):
    s = str(s)
    if '/' in s:
        a, b = s.split('/')
        return '(%s.0/%s.0)' % (a, b)
    if s in ('True', 'False'):
        return s.lower()
    return s + ('.0' if s.lstrip('-').isdigit() else '')


@adapter(r'base_array::operator(>|<|==)\(array\)')
def arr_compare(o):
    m = o['model'] or {}
    n1, n2 = I(m, 'this._vec.len'), I(m, 'rhs._vec.len')
    if max(n1, n2) > 1 << 16:
        return None
    op = '>' if 'operator>' in o['name'] else ('<' if 'operator<' in o['name'] else '==')
    return HDR + '''
int main(){ arr_real a(%d), b(%d);
  try { auto r = (a %s b); if((int)r.size()!=a.size()) return 1; } catch(const std::exception&) {} return 0; }
''' % (n1, n2, op)


@adapter(r'base_array::operator\[\]\(vector<int>\)')
def arr_index_list(o):
    m = o['model'] or {}
    n = I(m, 'this._vec.len')
    idx = [e[0] for e in (m.get('idxs[]') or [])]
    if n > 1 << 16:
        return None
    return HDR + '''
int main(){ arr_real a(%d); for(int i=0;i<a.size();++i) a[i]=i+1; std::vector<int> ix = {%s};
  bool bad=false; for(int v: ix) if(v<0||v>=a.size()) bad=true; bool thrown=false;
  try { auto r = a[ix]; if(r.size()!=(int)ix.size()) return 1; for(size_t k=0;k<ix.size();++k) if(!bad && r[int(k)]!=a[ix[k]]) return 1; }
  catch(const std::exception&) { thrown=true; }
  if(thrown!=bad){ std::printf("thrown=%%d expected=%%d\\n",thrown,bad); return 1; } return 0; }
''' % (n, ','.join(idx))


@adapter(r'const_slice_t<\*>::const_slice_t\|\(const dsplib::const_slice_t')
def cslice_copy(o):
    m = o['model'] or {}
    n, i1, i2, st = I(m, 'rhs._n', 1), I(m, 'rhs._i1'), I(m, 'rhs._i2'), I(m, 'rhs._m', 1)
    if n > 1 << 16:
        return None
    return HDR + '''
int main(){ arr_real x0(%d); for(int i=0;i<x0.size();++i) x0[i]=i+1; const arr_real& x=x0;
  try { const_slice_t<real_t> s = x.slice(%d,%d,%d); const_slice_t<real_t> c(s);
        arr_real a(s), b(c); if(a.size()!=b.size()) { std::printf("size %%d vs %%d\\n",a.size(),b.size()); return 1; }
        for(int k=0;k<a.size();++k) if(a[k]!=b[k]) return 1; }
  catch(const std::exception& e) { std::printf("copy threw: %%s\\n", e.what()); return 1; }
  return 0; }
''' % (n, i1, i2, st)


def py_count(i1, i2, m):
    return len(range(i1, i2, m))


@adapter(r'slice_t::operator=\(list\)')
def slice_list(o):
    m = o['model'] or {}
    n, i1, i2, st, ln = I(m, 'this._n', 1), I(m, 'this._i1'), I(m, 'this._i2'), I(m, 'this._m', 1), I(m, 'rhs.len')
    if n > 1 << 16 or ln > 64:
        return None
    nc = py_count(i1, i2, st)
    return HDR + '''
int main(){ arr_real x(%d); bool thrown=false;
  try { x.slice(%d,%d,%d) = {%s}; } catch(const std::exception&) { thrown=true; }
  bool expect_throw = (%d != %d);
  if(thrown!=expect_throw){ std::printf("thrown=%%d expected=%%d\\n",thrown,expect_throw); return 1; } return 0; }
''' % (n, i1, i2, st, ','.join(str(k + 1) + '.0' for k in range(ln)), nc, ln)


@adapter(r'slice_t::operator=\(array\)')
def slice_array(o):
    m = o['model'] or {}
    n, i1, i2, st, ln = I(m, 'this._n', 1), I(m, 'this._i1'), I(m, 'this._i2'), I(m, 'this._m', 1), I(m, 'rhs._vec.len')
    if n > 1 << 16 or ln > 1 << 16:
        return None
    nc = py_count(i1, i2, st)
    return HDR + '''
int main(){ arr_real x(%d), r(%d); bool thrown=false;
  try { x.slice(%d,%d,%d) = r; } catch(const std::exception& e) { thrown=true; std::printf("%%s\\n", e.what()); }
  bool expect_throw = (%d != %d);
  if(thrown!=expect_throw){ std::printf("thrown=%%d expected=%%d\\n",thrown,expect_throw); return 1; } return 0; }
''' % (n, ln, i1, i2, st, nc, ln)


@adapter(r'base_array\((const_)?slice\)')
def materialise(o):
    m = o['model'] or {}
    n, i1, i2, st = I(m, 'rhs._n', 1), I(m, 'rhs._i1'), I(m, 'rhs._i2'), I(m, 'rhs._m', 1)
    if n > 1 << 16:
        return None
    nc = py_count(i1, i2, st)
    return HDR + '''
int main(){ arr_real x0(%d); for(int i=0;i<x0.size();++i) x0[i]=i+1; const arr_real& x=x0;
  try { arr_real y(x.slice(%d,%d,%d)); if(y.size()!=%d){ std::printf("size %%d\\n", y.size()); return 1; }
        for(int k=0;k<y.size();++k) if(y[k]!=x[%d + k*(%d)]) return 1; }
  catch(const std::exception& e) { std::printf("materialising the slice threw: %%s\\n", e.what()); return 1; }
  return 0; }
''' % (n, i1, i2, st, nc, i1, st)


@adapter(r'^rms\(')
def rms_replay(o):
    m = o['model'] or {}
    vals = [frac(e[0]) for e in (m.get('arr._vec[]') or [])] or ['3.0', '4.0']
    return HDR + '''
int main(){ arr_real x = {%s}; double s=0; for(int i=0;i<x.size();++i) s+=x[i]*x[i];
  double want = std::sqrt(s / x.size()); double got = rms(x);
  if(!(std::fabs(got-want) <= 1e-12*(1+std::fabs(want)))){ std::printf("rms=%%g expected sqrt(mean(x^2))=%%g\\n",got,want); return 1; } return 0; }
''' % ','.join(vals)


@adapter(r'^angle\(cmplx\)')
def angle_replay(o):
    m = o['model'] or {}
    return HDR + '''
int main(){ cmplx_t v{%s, %s}; double want = std::atan2(v.im, v.re); double got = angle(v);
  if(!(std::fabs(got-want) <= 1e-12)){ std::printf("angle=%%g expected principal argument %%g\\n",got,want); return 1; } return 0; }
''' % (frac(m.get('v.re', '-1')), frac(m.get('v.im', '0')))


@adapter(r'^arange\(int,int,int\)')
def arange_replay(o):
    m = o['model'] or {}
    a, b, s = I(m, 'start'), I(m, 'stop'), I(m, 'step', 1)
    want = list(range(a, b, s))
    if len(want) > 10000:
        return None
    return HDR + '''
int main(){ std::vector<double> want = {%s};
  try { arr_real r = arange(%d, %d, %d); if(r.size()!=(int)want.size()){ std::printf("count %%d expected %%zu\\n", r.size(), want.size()); return 1; }
        for(int k=0;k<r.size();++k) if(r[k]!=want[k]) return 1; }
  catch(const std::exception& e){ std::printf("threw: %%s\\n", e.what()); return 1; } return 0; }
''' % (','.join(str(v) for v in want), a, b, s)


@adapter(r'Compressor::_compute_gain')
def compressor_curve(o):
    m = o['model'] or {}
    T, R, W = frac(m.get('this.T_', '-10')), I(m, 'this.R_', 2), frac(m.get('this.W_', '4'))
    return HDR + '''
// zero attack/release: the output gain is the static curve; sweep the knee region and compare with the documented curve
int main(){ const double T=%s, W=%s; const int R=%d; Compressor c(48000, T, R, W, 0.0, 0.0); int bad=0;
  for(int s=-400; s<=400; ++s){ double lvl = T + (W>0? W:1.0)*s/300.0; double xin = std::pow(10.0, lvl/20.0);
    auto r = c.process(arr_real{xin}); double gdb = 20*std::log10(r.gain[0]);
    double want = 0; if(lvl >= T+W/2) want = T + (lvl-T)/R - lvl; else if(W>0 && lvl > T-W/2) want = (1.0/R-1)*(lvl-T+W/2)*(lvl-T+W/2)/(2*W);
    if(std::fabs(gdb-want) > 1e-6){ if(!bad) std::printf("level %%g dB: gain %%g dB, curve %%g dB\\n", lvl, gdb, want); ++bad; } }
  return bad?1:0; }
''' % (T, W, R)


# ---- native demonstrations of recorded findings (known_findings.txt, kind native=...) ----
def tuner_fractional():
    return HDR + '''
// C14: Tuner multiplies sample k of the stream by exp(2*pi*i*f*k/fs) for every k, integer f or not
int main(){ const int fs=8; const double f=0.5; Tuner t(fs, f); arr_cmplx x(3*fs); for(int i=0;i<x.size();++i) x[i]=cmplx_t{1,0};
  auto y=t.process(x); int bad=0;
  for(int k=0;k<x.size();++k){ double ph=2*pi*f*k/fs; if(std::fabs(y[k].re-std::cos(ph))>1e-9||std::fabs(y[k].im-std::sin(ph))>1e-9){ if(!bad) std::printf("sample %d: (%g,%g) expected (%g,%g)\\n",k,y[k].re,y[k].im,std::cos(ph),std::sin(ph)); ++bad; } }
  return bad?1:0; }
'''


@adapter(r'_kendall_corr')
def kendall_replay(o):
    m = o['model'] or {}
    xs = [frac(e[0]) for e in (m.get('x._vec[]') or [])] or ['2.0', '1.0', '3.0']
    ys = [frac(e[0]) for e in (m.get('y._vec[]') or [])] or ['1.0', '2.0', '3.0']
    return HDR + '''
int main(){ arr_real x = {%s}, y = {%s}; int n=x.size(); int nc=0, nd=0;
  for(int i=0;i<n;++i) for(int k=i+1;k<n;++k){ double s=(x[i]-x[k])*(y[i]-y[k]); if(s>0) ++nc; else if(s<0) ++nd; }
  if(nc+nd==0) return 0; double want = double(nc-nd)/(nc+nd); double got = corr(x, y, Correlation::Kendall); double sym = corr(y, x, Correlation::Kendall);
  if(std::fabs(got-want)>1e-12 || std::fabs(sym-want)>1e-12){ std::printf("tau=%%g (swapped %%g) expected %%g\\n",got,sym,want); return 1; } return 0; }
''' % (','.join(xs), ','.join(ys))


@adapter(r'_irfft_coeffs.*twiddles')
def irfft_coeffs_replay(o):
    m = o['model'] or {}
    n = I(m, 'n', 6)
    if n % 2 or n < 2 or n > 1 << 16:
        n = 6
    return HDR + '''
int main(){ const int n=%d; arr_real x(n); for(int i=0;i<n;++i) x[i]=std::sin(0.7*i)+0.1*i;
  arr_real y = irfft(rfft(x), n); double err=0; for(int i=0;i<n;++i) err=std::fmax(err,std::fabs(y[i]-x[i]));
  if(!(err<1e-9)){ std::printf("irfft(rfft(x),%%d) differs from x by %%g\\n",n,err); return 1; } return 0; }
''' % n


@adapter(r'IfftPlanR::IfftPlanR')
def irfft_ctor_replay(o):
    m = o['model'] or {}
    n = I(m, 'n', 1)
    return HDR + '''
int main(){ bool thrown=false; try { IfftPlanR p(%d); (void)p; } catch(const std::exception&) { thrown=true; }
  if(!thrown){ std::printf("odd size accepted\\n"); return 1; } return 0; }
''' % n


@adapter(r'istft\(.*guarded_normalisation')
def istft_guard(o):
    return HDR + '''
// C02: istft(stft(x)) contains only finite values (and reproduces x where the accumulated window weight is non-zero)
int main(){ const int nfft=16; auto win = window::hann(nfft, true);   // symmetric Hann: first and last weight are 0
  arr_real x(5*nfft); for(int i=0;i<x.size();++i) x[i]=std::sin(0.3*i)+1.5;
  auto X = stft(x, win, nfft/2, nfft, StftRange::Onesided); arr_real y = istft(X, win, nfft/2, nfft, StftRange::Onesided, OverlapMethod::Ola);
  int bad=0; for(int i=0;i<y.size();++i) if(!std::isfinite(y[i])){ if(!bad) std::printf("sample %d of %d is not finite\\n", i, y.size()); ++bad; }
  return bad?1:0; }
'''


@adapter(r'_welch<cmplx>.*label_matches_bin')
def welch_labels(o):
    return HDR + '''
// C13: for a pure complex tone the maximum lies at the entry whose listed frequency is nearest the tone
int main(){ const int nfft=64; int bad=0; double freqs[]={0.25,-0.25,0.109375,-0.4375};
  for(double f0: freqs){ arr_cmplx x(4096); for(int i=0;i<x.size();++i) x[i]=cmplx_t{std::cos(2*pi*f0*i), std::sin(2*pi*f0*i)};
    auto r = welch(x, window::hamming(nfft), nfft/2, nfft, SpectrumType::Psd); int k=argmax(r.pxx);
    if(std::fabs(r.f[k]-f0) > 0.5/nfft + 1e-12){ std::printf("tone %g: peak labelled %g\\n", f0, r.f[k]); ++bad; } }
  return bad?1:0; }
'''


@adapter(r'_welch<cmplx>.*dft_or_label_order')
def welch_third_order(o):
    return HDR + '''
// C13: for a pure complex tone at DFT bin b the maximum lies either at the entry labelled with the tone's frequency (the
// property) or at entry b mod nfft (DFT order, the recorded finding); any other position is a new violation
int main(){ const int nfft=64; int bad=0; int bins[]={16,-16,7,-28,1,31};
  for(int b: bins){ const double f0 = double(b)/nfft; arr_cmplx x(4096); for(int i=0;i<x.size();++i) x[i]=cmplx_t{std::cos(2*pi*f0*i), std::sin(2*pi*f0*i)};
    auto r = welch(x, window::hamming(nfft), nfft/2, nfft, SpectrumType::Psd); int k=argmax(r.pxx);
    const bool by_label = std::fabs(r.f[k]-f0) < 0.5/nfft; const bool dft = (k == ((b % nfft) + nfft) % nfft);
    if(!by_label && !dft){ std::printf("tone at bin %d: peak at entry %d labelled %g\\n", b, k, r.f[k]); ++bad; } }
  return bad?1:0; }
'''


@adapter(r'hilbert\(x\).*one_sided_weights')
def hilbert_weights(o):
    return HDR + '''
// C14: the real part of hilbert(x) equals x (including DC and Nyquist content)
int main(){ int bad=0; for(int n: {8, 9, 16}){ arr_real x(n); for(int i=0;i<n;++i) x[i] = 1.0 + ((i%2)?-0.5:0.5) + std::sin(0.9*i);
    arr_cmplx h = hilbert(x); for(int i=0;i<n;++i) if(std::fabs(h[i].re - x[i]) > 1e-9){ if(!bad) std::printf("n=%d sample %d: re %g, x %g\\n", n, i, h[i].re, x[i]); ++bad; } }
  return bad?1:0; }
'''


@adapter(r'awgn<cmplx>.*noise_power')
def awgn_power(o):
    return HDR + '''
// C19: awgn(x, snr) adds noise whose total power (both components) is power(x) / 10^(snr/10)
int main(){ rng(3); const int n=200000; arr_cmplx x(n); for(int i=0;i<n;++i) x[i]=cmplx_t{std::cos(0.1*i), std::sin(0.1*i)};
  int bad=0; for(double snr: {0.0, 10.0, 20.0}){ arr_cmplx y = awgn(x, snr); double pn=0, ps=0; for(int i=0;i<n;++i){ cmplx_t d=y[i]-x[i]; pn+=d.re*d.re+d.im*d.im; ps+=x[i].re*x[i].re+x[i].im*x[i].im; }
    double got = 10*std::log10(ps/pn); if(std::fabs(got-snr) > 0.2){ std::printf("requested %g dB, measured %g dB\\n", snr, got); ++bad; } }
  return bad?1:0; }
'''


@adapter(r'FactorFFTPlan::solve/frame:this\._px')
def shared_plan_race(o):
    return '#include <thread>\n#include <vector>\n#include <atomic>\n' + HDR + '''
// C09: a transform plan may be shared; concurrent const solve() calls return the single-threaded result
int main(){ const int n=3003; FftPlan plan(n); std::vector<arr_cmplx> in; std::vector<arr_cmplx> ref;
  for(int t=0;t<4;++t){ arr_cmplx x(n); for(int i=0;i<n;++i) x[i]=cmplx_t{std::sin(0.01*i*(t+1)), std::cos(0.02*i+t)}; in.push_back(x); ref.push_back(plan(x)); }
  std::atomic<int> bad{0}; std::vector<std::thread> th;
  for(int t=0;t<4;++t) th.emplace_back([&,t]{ for(int r=0;r<200;++r){ arr_cmplx y=plan(in[t]); for(int i=0;i<n;++i) if(y[i].re!=ref[t][i].re||y[i].im!=ref[t][i].im){ ++bad; break; } } });
  for(auto& t: th) t.join(); if(bad){ std::printf("%d of 800 concurrent solves differ from the single-threaded result\\n", bad.load()); return 1; } return 0; }
'''


@adapter(r'(Pow2FftPlan::solve|PrimesFftC::(solve|_dft))')
def plan_length(o):
    """a plan applied to an input of another length must be rejected (C05); run through the public FftPlan"""
    m = o['model'] or {}
    prime = 'Primes' in o['name']
    p = I(m, 'this.n_', 16)
    ln = I(m, 'x.len', I(m, 'n', p + 1))
    if prime:
        p = p if p in (5, 7, 11, 13, 17, 19, 23, 29, 31, 37, 41) else 7
    else:
        p = p if (p >= 16 and p & (p - 1) == 0 and p <= 1 << 16) else 64
    if ln == p or ln < 1 or ln > 1 << 17:
        ln = p + 4
    return HDR + '''
int main(){ FftPlan plan(%d); arr_cmplx x(%d); for(int i=0;i<x.size();++i) x[i]=cmplx_t{double(i),1.0};
  try { arr_cmplx y = plan(x); std::printf("plan of size %%d accepted %%d samples and returned %%d\\n", plan.size(), x.size(), y.size()); return 1; }
  catch(const std::exception&) { return 0; } }
''' % (p, ln)


@adapter(r'_gen_coeffs_table/overflow:mul')
def pow2_table_overflow(o):
    """3 * n / 4 in the twiddle table generator of the radix-2 plan: signed overflow for n = 2^30 (needs ~20 GB)"""
    return HDR + '''
int main(){ try { FftPlan plan(1 << 30); return plan.size() == (1 << 30) ? 0 : 1; } catch(const std::bad_alloc&) { return 0; } }
'''


@adapter(r'LRUCache<int, int>::(get|put|exists|size|LRUCache)')
def lru_differential(o):
    """the real LRUCache<int,int> against a reference recency list: the state of the counterexample (keys in recency order,
    capacity) is rebuilt with put(), the failing operation is applied, then a long pseudo-random run follows"""
    m = o['model'] or {}
    keys = []
    try:
        nodes = m.get('this.items_list_.nodes[]') or []
        for e in (m.get('this.items_list_.order[]') or []):
            i = int(e[0])
            keys.append(int(nodes[i][0]) if 0 <= i < len(nodes) else i)
    except Exception:
        keys = []
    keys = keys[:I(m, 'this.items_list_.order.len', len(keys))][:64]
    cap = I(m, 'this.max_size_', 4)
    if not (1 <= cap <= 64):
        cap = max(1, min(len(keys), 64)) or 4
    key = I(m, 'key', 1)
    op = 'get' if '::get' in o['name'] else 'put'
    return '#include <vector>\n#include <algorithm>\n' + HDR + '#include "lru-cache.h"\n' + '''
struct Ref { size_t cap; std::vector<std::pair<int,int>> v;   // front = most recent
  bool exists(int k) const { for (auto& e : v) if (e.first == k) return true; return false; }
  void put(int k, int x) { v.erase(std::remove_if(v.begin(), v.end(), [&](auto& e){ return e.first == k; }), v.end());
                           v.insert(v.begin(), {k, x}); if (v.size() > cap) v.pop_back(); }
  int get(int k) { for (size_t i = 0; i < v.size(); ++i) if (v[i].first == k) { auto e = v[i]; v.erase(v.begin() + i); v.insert(v.begin(), e); return e.second; } throw 1; } };
static int check(LRUCache<int,int>& c, Ref& r, const char* what) {
  if ((size_t)c.size() != r.v.size() || r.v.size() > r.cap) { std::printf("%%s: size %%d, reference %%zu (capacity %%zu)\\n", what, c.size(), r.v.size(), r.cap); return 1; }
  for (int k = -3; k < 80; ++k) if (c.exists(k) != r.exists(k)) { std::printf("%%s: key %%d cached=%%d, reference %%d\\n", what, k, (int)c.exists(k), (int)r.exists(k)); return 1; }
  return 0; }
// recency order is observable through evictions: fill with fresh keys and watch which old keys leave first
static int order_check(LRUCache<int,int> c, Ref r, const char* what) {
  for (int f = 1000; f < 1000 + (int)r.cap + 1; ++f) { c.put(f, f); r.put(f, f); if (check(c, r, what)) return 1; } return 0; }
int main() {
  const size_t cap = %d; LRUCache<int,int> c(cap); Ref r{cap, {}};
  const int init[] = {0%s}; const int ninit = %d;
  for (int i = ninit; i >= 1; --i) { c.put(init[i], 100 + i); r.put(init[i], 100 + i); }
  if (check(c, r, "rebuild") || order_check(c, r, "rebuild order")) return 1;
  try { %s } catch (...) { std::printf("unexpected exception\\n"); return 1; }
  if (check(c, r, "failing operation") || order_check(c, r, "order after the failing operation")) return 1;
  unsigned s = 12345;
  for (int it = 0; it < 20000; ++it) { s = s * 1664525u + 1013904223u; int k = (s >> 16) %% (2 * (int)cap + 3); int w = (s >> 8) & 3;
    if (w == 0) { c.put(k, it); r.put(k, it); }
    else if (w == 1) { bool e = r.exists(k); int a = -1, b = -1; bool thrown = false; try { a = c.get(k); } catch (const std::exception&) { thrown = true; }
                       if (e) b = r.get(k); if (thrown == e || (e && a != b)) { std::printf("get(%%d): thrown=%%d value %%d, reference cached=%%d value %%d\\n", k, thrown, a, e, b); return 1; } }
    if (check(c, r, "random run")) return 1;
    if ((it %% 97) == 0 && order_check(c, r, "random run order")) return 1; }
  return 0; }
''' % (cap, ''.join(', %d' % k for k in keys), len(keys),
       ('{ int k = %d; if (r.exists(k)) { if (c.get(k) != r.get(k)) { std::printf("get value\\n"); return 1; } } }' % key) if op == 'get'
       else ('c.put(%d, 7); r.put(%d, 7);' % (key, key)))


@adapter(r'dsplib::resample\|')
def resample_length(o):
    """resample(x, p, q[, h]) returns p'*ceil(len/q') samples and never throws for len >= 1 (C08). The solver's candidate is
    tried first; when it does not fail (non-linear arithmetic: the candidate comes from the quantifier-free part of the VC)
    the same claim is tried on the ratios and lengths next to it (p, q <= 8, len <= 24)."""
    m = o['model'] or {}
    n, p, q, hn = I(m, 'x._vec.len', 7), I(m, 'p_', 5), I(m, 'q_', 2), I(m, 'h._vec.len', 0)
    if not (1 <= n <= 1 << 16 and 1 <= p <= 1024 and 1 <= q <= 1024 and 0 <= hn <= 1 << 16):
        n, p, q, hn = 7, 5, 2, 0
    return '#include <numeric>\n' + HDR + '''
static int one(int n, int p, int q, int hn) {
  arr_real x(n); for (int i = 0; i < n; ++i) x[i] = std::sin(0.3 * i) + 1;
  const int g = std::gcd(p, q), p1 = p / g, q1 = q / g; const int want = p1 * ((n + q1 - 1) / q1);
  try { arr_real y = hn > 0 ? resample(x, p, q, ones(hn)) : resample(x, p, q);
        if (y.size() != want) { std::printf("resample(len=%%d, %%d, %%d): %%d samples, expected %%d\\n", n, p, q, y.size(), want); return 1; } }
  catch (const std::exception& e) { std::printf("resample(len=%%d, %%d, %%d) throws: %%s\\n", n, p, q, e.what()); return 1; }
  return 0; }
int main() {
  if (one(%d, %d, %d, %d)) return 1;
  for (int p = 1; p <= 8; ++p) for (int q = 1; q <= 8; ++q) for (int n = 1; n <= 24; ++n) { if (one(n, p, q, 0)) return 1; if (one(n, p, q, 2 * p * q + 1)) return 1; }
  return 0; }
''' % (n, p, q, hn)


@adapter(r'FftFilter::process\((cmplx|real)\)/(divzero|throws)')
def fftfilter_default(o):
    """a default-constructed FftFilter (no coefficients) must reject input with an exception, not divide by zero"""
    return HDR + '''
int main(){ FftFilter f; try { auto y = f.process(arr_cmplx(4)); std::printf("returned %d samples\\n", y.size()); return 1; }
  catch(const std::exception&) { return 0; } }
'''


@adapter(r'_(high|low|band)pass_fir/ensures:linear_phase|_bandstop_fir/ensures:linear_phase')
def fir1_symmetry(o):
    """fir1 designs are linear phase: h[k] == h[len-1-k] exactly (mirror construction), for the order of the counterexample
    and the orders next to it"""
    m = o['model'] or {}
    n = I(m, 'n', 6)
    if not (1 <= n <= 4096):
        n = 6
    kind = 'High' if 'high' in o['name'] else ('Low' if 'low' in o['name'] else ('Bandstop' if 'stop' in o['name'] else 'Bandpass'))
    call = 'fir1(n, 0.37, FilterType::%s)' % kind if kind in ('High', 'Low') else 'fir1(n, 0.21, 0.58, FilterType::%s)' % kind
    return HDR + '''
int main(){ for (int n = std::max(1, %d - 2); n <= %d + 3; ++n) { arr_real h = %s;
    for (int k = 0; k < h.size(); ++k) if (std::fabs(h[k] - h[h.size() - 1 - k]) > 1e-13) {
      std::printf("order %%d: h[%%d] = %%.6g but h[%%d] = %%.6g\\n", n, k, h[k], h.size() - 1 - k, h[h.size() - 1 - k]); return 1; } }
  return 0; }
''' % (n, n, call)


@adapter(r'create_r?fft_plan\(body\)/|_get_r?fft_plan/')
def plan_cache_history(o):
    """transform results must not depend on which lengths were requested before (C10): every length 2..130 is transformed
    right after its neighbours and compared with the defining sum"""
    real = 'rfft' in o['name']
    return HDR + '''
static double err(const arr_cmplx& X, const %s& x) { const int n = x.size(); double e = 0, s = 0;
  for (int k = 0; k < n; ++k) { cmplx_t a{0, 0}; for (int m = 0; m < n; ++m) { double ph = -2 * pi * double((long)m * k %% n) / n; a += cmplx_t{std::cos(ph), std::sin(ph)} * x[m]; }
    e += abs2(X[k] - a); s += abs2(a); } return std::sqrt(e / (s + 1e-300)); }
int main() { for (int n = 2; n <= 130; ++n) for (int d = -1; d <= 1; d += 2) { const int n2 = n + d; if (n2 < 1) continue;
    %s x(n), y(n2); for (int i = 0; i < n; ++i) x[i] = std::sin(0.7 * i) + 0.1 * i; for (int i = 0; i < n2; ++i) y[i] = std::cos(0.3 * i);
    try { (void)fft(y); arr_cmplx X = fft(x); if (X.size() != n || err(X, x) > 1e-9) { std::printf("fft of %%d samples after a transform of %%d samples: relative error %%g\\n", n, n2, err(X, x)); return 1; } }
    catch (const std::exception& e) { std::printf("fft of %%d samples after a transform of %%d samples throws: %%s\\n", n, n2, e.what()); return 1; } }
  return 0; }
''' % (('arr_real', 'arr_real') if real else ('arr_cmplx', 'arr_cmplx'))
