"""C17 / C05: remaining elementary and reduction functions of lib/math.cpp."""
from engine.spec import fn, inline_fn
from contracts.mathfun import LIBM, M, RA, CA, elementwise
from engine.specfun import NS as SF

ENV = dict(LIBM)
ENV.update(SF)

# unit conversions on arrays: one expression per element
for nm, e in (('deg2rad', 'x[k] / 180 * PI'), ('rad2deg', 'x[k] / PI * 180')):
    fn('dsplib::' + nm, M, sig='dsplib::arr_real ' + RA, key=nm + '(arr_real)', serves=['C17', 'C05'], pure=True, extra_env=ENV, throws='False',
       ensures=[('length', 'result.len == x.len'), ('definition', 'forall(lambda k: Implies(And(0 <= k, k < x.len), result[k] == %s))' % e)])
for nm, e in (('pow2db', '10 * LOG10(v[k])'), ('mag2db', '20 * LOG10(v[k])')):
    fn('dsplib::' + nm, M, sig='dsplib::arr_real ' + RA, key=nm + '(arr_real)', serves=['C17', 'C05'], pure=True, extra_env=ENV, throws='False',
       ensures=[('length', 'result.len == v.len'), ('definition', 'forall(lambda k: Implies(And(0 <= k, k < v.len), result[k] == %s))' % e)])
# hyperbolic tangent, in place on the by-value argument
fn('dsplib::tanh', M, sig='dsplib::arr_real (dsplib::arr_real)', key='tanh(arr_real)', serves=['C17', 'C05'], pure=True, extra_env=ENV, throws='False',
   ensures=[('length', 'result.len == x.len'),
            ('definition', 'forall(lambda k: Implies(And(0 <= k, k < x.len), result[k] == TANH(x[k])))')],
   loops={1: {'inv': [('len', 'x.len == old.x.len'),
                      ('done', 'forall(lambda k: Implies(And(0 <= k, k < i), x[k] == TANH(old.x[k])))'),
                      ('todo', 'forall(lambda k: Implies(And(i <= k, k < x.len), x[k] == old.x[k]))')]}})

# running sums
fn('dsplib::_cumsum', M, sig='(const base_array<double> &, bool)', key='_cumsum<real>', serves=['C17', 'C05'], pure=True, extra_env=ENV, throws='False',
   ensures=[('length', 'result.len == x.len'),
            ('forward', 'Implies(Not(reverse), forall(lambda k: Implies(And(0 <= k, k < x.len), result[k] == SUMR(data(x), k + 1))))'),
            ('reverse', 'Implies(reverse, forall(lambda k: Implies(And(0 <= k, k < x.len), result[k] == SUMR(data(x), x.len) - SUMR(data(x), k))))')],
   loops={1: {'facts': ['SUMR_BASE(data(x))', 'SUMR_STEP(data(x), 0)', 'SUMR_STEP(data(x), i)'],
              'inv': [('len', 'And(r.len == x.len, n == x.len)'),
                      ('done', 'forall(lambda k: Implies(And(0 <= k, k < i), r[k] == SUMR(data(x), k + 1)))'),
                      ('todo', 'forall(lambda k: Implies(And(i <= k, k < n), r[k] == x[k]))')]},
          2: {'facts': ['SUMR_STEP(data(x), i)', 'SUMR_STEP(data(x), i + 1)', 'SUMR_STEP(data(x), n - 1)'],
              'inv': [('len', 'And(r.len == x.len, n == x.len, i >= -2, i <= n - 2)'),
                      ('done', 'forall(lambda k: Implies(And(i < k, 0 <= k, k < n), r[k] == SUMR(data(x), n) - SUMR(data(x), k)))'),
                      ('todo', 'forall(lambda k: Implies(And(0 <= k, k <= i), r[k] == x[k]))')],
              'dec': 'i + 2'}})
fn('dsplib::cumsum', M, sig='dsplib::arr_real (const dsplib::arr_real &, dsplib::Direction)', key='cumsum(arr_real)', serves=['C17', 'C05'], pure=True, extra_env=ENV,
   requires=[('direction', 'Or(dir == 0, dir == 1)')], throws='False',
   ensures=[('length', 'result.len == x.len'),
            ('forward', 'Implies(dir == 1, forall(lambda k: Implies(And(0 <= k, k < x.len), result[k] == SUMR(data(x), k + 1))))'),
            ('reverse', 'Implies(dir == 0, forall(lambda k: Implies(And(0 <= k, k < x.len), result[k] == SUMR(data(x), x.len) - SUMR(data(x), k))))')])

# integer powers of a scalar: the special cases are exact, everything else is pow()
fn('dsplib::_power', M, sig='double (const double &, int)', key='_power(real,int)', serves=['C17', 'C05'], pure=True, extra_env=ENV, throws='False',
   ensures=[('special_cases', 'And(Implies(n == 2, result == x * x), Implies(n == -1, result == 1 / x), Implies(n == 0, result == 1), Implies(n == 1, result == x))'),
            ('general', 'Implies(And(n != 2, n != -1, n != 0, n != 1), result == POW(x, ToReal(n)))')])


