"""C01 / C05: matrix transposition step of the mixed-radix plan (lib/fft/fact-fft.cpp): x (n rows of m) becomes m rows of n."""
from engine.spec import fn
from contracts.fir import ENV as FIRENV
from contracts.resample import mulmono

FA = 'lib/fft/fact-fft.cpp'
ENV = {'DIVMOD_UNIQUE': FIRENV['DIVMOD_UNIQUE'], 'MULMONO': mulmono}

# (i0, j0) is an arbitrary (ghost) cell: what holds for it holds for every cell
fn('dsplib::(anon)::_transpose', FA, serves=['C01', 'C05'], assigns=['x', 'mem'], extra_env=ENV,
   lets={'i0': 'ghost_int("row")', 'j0': 'ghost_int("column")'},
   requires=[('buffers', 'And(x.off >= 0, mem.off == 0, n >= 0, m >= 0, n * m <= 134217727, x.target.len - x.off >= n * m, mem.target.len >= n * m)'),
             ('ghost', 'And(0 <= i0, i0 < n, 0 <= j0, j0 < m)')],
   throws='False',
   ensures=[('transposed', 'same(x[j0 * n + i0], old.x[i0 * m + j0])')],
   loops={1: {'facts': ['MULMONO(m - 1, j0, n)', 'MULMONO(n - 1, i0, m)'],
              'inv': [('row_done', 'Implies(i0 < i, same(mem[j0 * n + i0], x[i0 * m + j0]))'), ('src', 'forall(lambda t: Implies(And(0 <= t, t < n * m), same(x[t], old.x[t])))')]},
          2: {'facts': ['MULMONO(m - 1, j, n)', 'MULMONO(n - 1, i, m)', 'MULMONO(m - 1, j0, n)', 'DIVMOD_UNIQUE(j * n + i, n, j, i)', 'DIVMOD_UNIQUE(j0 * n + i0, n, j0, i0)'],
              'inv': [('cell_done', 'Implies(Or(i0 < i, And(i0 == i, j0 < j)), same(mem[j0 * n + i0], x[i0 * m + j0]))'),
                      ('src', 'forall(lambda t: Implies(And(0 <= t, t < n * m), same(x[t], old.x[t])))')]}})
