"""C11 (fir1 part): windowed-sinc designs (lib/fir.cpp) -- length, symmetry (linear phase), window-length rejection.

Decided: the shape facts (n+1 taps, n+2 for odd-order high-pass / band-stop), exact mirror symmetry h[k] == h[n-k] for every
order, which custom window lengths are rejected, memory safety. Not decided: pass-/stop-band masks (numerical analysis of the
windowed sinc), unit DC / Nyquist gain (needs sum(h) != 0, a property of the window values)."""
from engine.spec import fn, inline_fn
from contracts.mathfun import LIBM

F = 'lib/fir.cpp'
ENV = dict(LIBM)

fn('dsplib::_lowpass_fir', F, serves=['C11', 'C05'], pure=True, extra_env=ENV,
   lets={'k0': 'ghost_int("tap")'},
   requires=[('order', 'And(n >= 1, n <= 1000000)'), ('ghost', 'And(0 <= k0, k0 <= n)')],
   throws='win.len != n + 1',
   body_assumes=['INSLICE_AX()'],
   # the mirrored taps, before the normalisation by their sum
   asserts_on=[('call:sum', [('mirrored', 'And(h.len == n + 1, h[k0] == h[n - k0])')])],
   ensures=[('length', 'result.len == n + 1'),
            ('linear_phase', 'result[k0] == result[n - k0]')])

# spectral inversion: every other tap negated. N1 = n for even orders, n + 1 for odd ones (the order is raised by one)
fn('dsplib::_highpass_fir', F, serves=['C11', 'C05'], pure=True, extra_env=ENV,
   lets={'N1': 'If(tmod(n, 2) == 1, n + 1, n)', 'k0': 'ghost_int("tap")'},
   requires=[('order', 'And(n >= 1, n <= 999999)'), ('ghost', 'And(0 <= k0, k0 <= N1)')],
   throws='win.len != N1 + 1',
   body_assumes=['INSLICE_AX()'],
   # which taps the alternating slice covers, at the ghost tap and its mirror image (here n is already the raised order)
   facts_on=[('call:operator=', ['INSLICE_AT(t1, 2, tdiv(n + 2 - t1, 2), k0)', 'INSLICE_AT(t1, 2, tdiv(n + 2 - t1, 2), n - k0)'])],
   # the copy of the alternating taps holds the ghost tap and its mirror image at these positions
   asserts_on=[('call:operator-', [('copied', 'And(Implies(tmod(k0 - t1, 2) == 0, hh[tdiv(k0 - t1, 2)] == h[k0]), '
                                             'Implies(tmod(n - k0 - t1, 2) == 0, hh[tdiv(n - k0 - t1, 2)] == h[n - k0]))')])],
   ensures=[('length', 'result.len == N1 + 1'),
            # index of the ghost tap (and of its mirror image) inside the alternating slice, when it is in it
            ('hint:slice_position', 'And(Implies(tmod(k0 - t1, 2) == 0, k0 == t1 + tdiv(k0 - t1, 2) * 2), '
                                    'Implies(tmod(n - k0 - t1, 2) == 0, n - k0 == t1 + tdiv(n - k0 - t1, 2) * 2))'),
            ('linear_phase', 'result[k0] == result[N1 - k0]')])


def cos_even(x):
    """cos(-x) == cos(x) (A2)"""
    from engine.prelude import COS
    x = getattr(x, 'z', x)
    return COS(-x) == COS(x)


ENV['COS_EVEN'] = cos_even

# modulation of the low-pass prototype by cos(2*pi*wc*(k - n/2)): the carrier is even about the centre tap
fn('dsplib::_bandpass_fir', F, serves=['C11', 'C05'], pure=True, extra_env=ENV,
   lets={'k0': 'ghost_int("tap")'},
   requires=[('order', 'And(n >= 1, n <= 999999)'), ('ghost', 'And(0 <= k0, k0 <= n)')],
   throws='win.len != n + 1',
   post_facts=['COS_EVEN(2 * PI * wc * (ToReal(k0) - ToReal(n) / 2))', 'ToReal(n - k0) - ToReal(n) / 2 == -(ToReal(k0) - ToReal(n) / 2)'],
   ensures=[('length', 'result.len == n + 1'),
            ('linear_phase', 'result[k0] == result[n - k0]')])

fn('dsplib::_bandstop_fir', F, serves=['C11', 'C05'], pure=True, extra_env=ENV,
   lets={'N1': 'If(tmod(n, 2) == 1, n + 1, n)', 'k0': 'ghost_int("tap")'},
   requires=[('order', 'And(n >= 1, n <= 999998)'), ('ghost', 'And(0 <= k0, k0 <= N1)')],
   throws='win.len != N1 + 1',
   ensures=[('length', 'result.len == N1 + 1'),
            ('linear_phase', 'result[k0] == result[N1 - k0]')])

# public entry points. FilterType: Low = 0, High = 1, Bandpass = 2, Bandstop = 3
FT = 'Or(ftype == 0, ftype == 1, ftype == 2, ftype == 3)'
fn('dsplib::fir1', F, sig='(int, dsplib::real_t, dsplib::FilterType, const dsplib::arr_real &)', key='fir1(n,wn,type,win)', serves=['C11', 'C05'], pure=True, extra_env=ENV,
   lets={'LEN': 'If(And(ftype == 1, tmod(n, 2) == 1), n + 2, n + 1)', 'k0': 'ghost_int("tap")'},
   requires=[('order', 'And(n >= 1, n <= 999998)'), ('type', FT), ('ghost', 'And(0 <= k0, k0 < LEN)')],
   throws='Or(ftype >= 2, win.len != LEN)',
   ensures=[('length', 'result.len == LEN'), ('linear_phase', 'result[k0] == result[LEN - 1 - k0]')])
fn('dsplib::fir1', F, sig='(int, dsplib::real_t, dsplib::real_t, dsplib::FilterType, const dsplib::arr_real &)', key='fir1(n,wn1,wn2,type,win)', serves=['C11', 'C05'], pure=True, extra_env=ENV,
   lets={'LEN': 'If(And(ftype == 3, tmod(n, 2) == 1), n + 2, n + 1)', 'k0': 'ghost_int("tap")'},
   requires=[('order', 'And(n >= 1, n <= 999998)'), ('type', FT), ('ghost', 'And(0 <= k0, k0 < LEN)')],
   throws='Or(ftype <= 1, win.len != LEN)',
   ensures=[('length', 'result.len == LEN'), ('linear_phase', 'result[k0] == result[LEN - 1 - k0]')])
fn('dsplib::fir1', F, sig='(int, dsplib::real_t, dsplib::FilterType)', key='fir1(n,wn,type)', serves=['C11', 'C05'], pure=True, extra_env=ENV,
   lets={'LEN': 'If(And(ftype == 1, tmod(n, 2) == 1), n + 2, n + 1)', 'k0': 'ghost_int("tap")'},
   requires=[('order', 'And(n >= 2, n <= 999998)'), ('type', FT), ('ghost', 'And(0 <= k0, k0 < LEN)')],
   throws='ftype >= 2',
   ensures=[('length', 'result.len == LEN'), ('linear_phase', 'result[k0] == result[LEN - 1 - k0]')])
fn('dsplib::fir1', F, sig='(int, dsplib::real_t, dsplib::real_t, dsplib::FilterType)', key='fir1(n,wn1,wn2,type)', serves=['C11', 'C05'], pure=True, extra_env=ENV,
   lets={'LEN': 'If(And(ftype == 3, tmod(n, 2) == 1), n + 2, n + 1)', 'k0': 'ghost_int("tap")'},
   requires=[('order', 'And(n >= 2, n <= 999998)'), ('type', FT), ('ghost', 'And(0 <= k0, k0 < LEN)')],
   throws='ftype <= 1',
   ensures=[('length', 'result.len == LEN'), ('linear_phase', 'result[k0] == result[LEN - 1 - k0]')])
