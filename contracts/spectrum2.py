"""C13 / C05: public overloads of mscohere (lib/mscohere.cpp): defaults and forwarding."""
from engine.spec import fn
from contracts.spectrum import ENV, MS

SZ = 'And(win.len >= 1, win.len <= 1048576, nfft >= 2, nfft <= 1048576, x.len >= win.len, x.len <= 1073741824, noverlap >= 0)'
XY = 'const dsplib::arr_real &, const dsplib::arr_real &'
P2 = 'And(NF >= %s, Or(%s == 1, NF < 2 * %s), exists(lambda k: And(0 <= k, k <= 30, NF == pow2(k))))'

fn('dsplib::(anon)::_nextfft', MS, serves=['C13', 'C05'], pure=True, extra_env=ENV, throws='False',
   requires=[('size', 'And(n >= 1, n <= 1048576)')],
   ensures=[('next_power_of_two', 'And(result >= n, Or(n == 1, result < 2 * n), exists(lambda k: And(0 <= k, k <= 30, result == pow2(k))))')])
fn('dsplib::mscohere', MS, sig='(%s, const dsplib::arr_real &, int, int)' % XY, key='mscohere(x,y,win,noverlap,nfft)', serves=['C13', 'C05'], pure=True,
   extra_env=ENV, may_throw=True, requires=[('sizes', SZ)],
   ghost={'NOV': '-1', 'NF': '-1', 'WL': '-1', 'XL': '-1', 'YL': '-1'},
   ghost_on=[('call:_mscohere', None, {'NOV': 'arg3', 'NF': 'arg4', 'WL': 'arg2.len', 'XL': 'arg0.len', 'YL': 'arg1.len'})],
   ensures=[('forwards_unchanged', 'And(NOV == noverlap, NF == nfft, WL == win.len, XL == x.len, YL == y.len)'),
            ('length', 'result.len == tdiv(nfft, 2) + 1')])
fn('dsplib::mscohere', MS, sig='(%s, const dsplib::arr_real &)' % XY, key='mscohere(x,y,win)', serves=['C13', 'C05'], pure=True,
   extra_env=ENV, may_throw=True,
   requires=[('sizes', 'And(win.len >= 2, win.len <= 524288, x.len >= win.len, x.len <= 1073741824)')],
   ghost={'NOV': '-1', 'NF': '-1'}, ghost_on=[('call:mscohere', None, {'NOV': 'arg3', 'NF': 'arg4'})],
   ensures=[('half_window_overlap', 'NOV == tdiv(win.len, 2)'),
            ('nfft_is_next_power_of_two', P2 % ('win.len', 'win.len', 'win.len')),
            ('length', 'result.len == tdiv(NF, 2) + 1')])
fn('dsplib::mscohere', MS, sig='(%s, int, int, int)' % XY, key='mscohere(x,y,winlen,noverlap,nfft)', serves=['C13', 'C05'], pure=True,
   extra_env=ENV, may_throw=True,
   requires=[('sizes', 'And(winlen >= 3, winlen <= 1048576, nfft >= 2, nfft <= 1048576, x.len >= winlen, x.len <= 1073741824, noverlap >= 0)')],
   ghost={'NOV': '-1', 'NF': '-1', 'WL': '-1'}, ghost_on=[('call:mscohere', None, {'NOV': 'arg3', 'NF': 'arg4', 'WL': 'arg2.len'})],
   ensures=[('forwards', 'And(NOV == noverlap, NF == nfft, WL == winlen)'), ('length', 'result.len == tdiv(nfft, 2) + 1')])
fn('dsplib::mscohere', MS, sig='(%s, int)' % XY, key='mscohere(x,y,winlen)', serves=['C13', 'C05'], pure=True,
   extra_env=ENV, may_throw=True,
   requires=[('sizes', 'And(winlen >= 3, winlen <= 524288, x.len >= winlen, x.len <= 1073741824)')],
   ghost={'NOV': '-1', 'NF': '-1', 'WL': '-1'}, ghost_on=[('call:mscohere', None, {'NOV': 'arg3', 'NF': 'arg4', 'WL': 'arg2.len'})],
   ensures=[('half_window_overlap', 'And(NOV == tdiv(winlen, 2), WL == winlen)'),
            ('nfft_is_next_power_of_two', P2 % ('winlen', 'winlen', 'winlen')),
            ('length', 'result.len == tdiv(NF, 2) + 1')])

