"""C12 / C06 / C05: adaptive filters (include/dsplib/lms.h, include/dsplib/rls.h)."""
from engine.spec import fn, inline_fn
from contracts.fir import cat, rev, ENV as FIRENV
import z3 as _z3

D = 'drivers/instantiate.cpp'
ENV = dict(FIRENV)

import z3 as _z3e
from engine.prelude import NEXTUP as _NEXTUP
EPSC = _NEXTUP(_z3e.RealVal(1)) - 1        # eps(): the spacing of doubles at 1.0


def EPSD(v):
    """eps(v): the spacing of doubles at v"""
    v = getattr(v, 'z', v)
    return _NEXTUP(v) - v


fn('dsplib::eps', 'lib/types.cpp', sig='double (double)', key='eps(double)', serves=['C12', 'C01'], pure=True, throws='False',
   extra_env={'EPSD': EPSD}, ensures=[('spacing', 'result == EPSD(v)'), ('positive', 'result > 0')])
fn('dsplib::eps', 'lib/types.cpp', sig='dsplib::real_t ()', key='eps()', serves=['C12'], pure=True, throws='False',
   extra_env={'EPSC': EPSC}, ensures=[('spacing_at_one', 'result == EPSC'), ('positive', 'result > 0')])

LMS_OK = 'And(_len >= 2, _u.len == _len - 1, _w.len == _len)'

fn('dsplib::LmsFilter<double>::process', D, serves=['C12', 'C06', 'C05'], extra_env=ENV,
   assigns=['this._u', 'this._w'],
   requires=[('invariant', LMS_OK), ('size', '_u.len + x.len <= INT_MAX - 1')],
   lets={'X': 'cat(_u, x)', 'nu': '_u.len'},
   throws='x.len != d.len',
   ensures=[('invariant', LMS_OK),
            ('lengths', 'And(result.y.len == x.len, result.e.len == x.len)'),
            ('error_is_d_minus_y', 'forall(lambda k: Implies(And(0 <= k, k < x.len), result.e[k] == d[k] - result.y[k]))'),
            ('history', 'forall(lambda t: Implies(And(0 <= t, t < nu), _u[t] == X[x.len + t]))'),
            ('lock_freezes_coefficients', 'Implies(old._locked, same(_w, old._w))'),
            ('locked_is_fixed_fir', 'Implies(old._locked, exists_w(lambda A: And(forall(lambda j: Implies(And(0 <= j, j < nu + x.len), A[j] == X[j])), '
                                    'forall(lambda k: Implies(And(0 <= k, k < x.len), result.y[k] == DOT(A, k, 1, data(old._w), _len)))), data(tu)))'),
            # a-priori output and one LMS update, pinned on single-sample frames (framing invariance extends it)
            ('apriori_single', 'Implies(And(x.len == 1, Not(old._locked)), exists_w(lambda A: And(forall(lambda j: Implies(And(0 <= j, j < nu + 1), A[j] == X[j])), '
                               'result.y[0] == DOT(A, 0, 1, data(old._w), _len)), data(tu)))'),
            ('lms_update_single', 'Implies(And(x.len == 1, Not(old._locked), _method == 0), forall(lambda i: Implies(And(0 <= i, i < _len), '
                                  '_w[i] == old._w[i] * _lk + _mu * result.e[0] * X[i])))')],
   prop_of={'history': ['C06', 'C12'], 'locked_is_fixed_fir': ['C12', 'C06']},
   loops={
       1: {'inv': [('shape', 'And(y.len == nx, e.len == nx, tu.len == nu + nx, _w.len == _len, nx == x.len)'),
                   ('tu', 'forall(lambda j: Implies(And(0 <= j, j < nu + nx), tu[j] == X[j]))'),
                   ('err', 'forall(lambda q: Implies(And(0 <= q, q < k), e[q] == d[q] - y[q]))'),
                   ('zero', 'forall(lambda q: Implies(And(k <= q, q < nx), y[q] == 0))'),
                   ('lock', 'Implies(_locked, same(_w, old._w))'),
                   ('fir', 'Implies(_locked, forall(lambda q: Implies(And(0 <= q, q < k), y[q] == DOT(data(tu), q, 1, data(old._w), _len))))'),
                   ('single_y', 'Implies(And(nx == 1, k == 1), y[0] == DOT(data(tu), 0, 1, data(old._w), _len))'),
                   ('single_w', 'Implies(And(nx == 1, k == 1, Not(_locked), _method == 0), forall(lambda i: Implies(And(0 <= i, i < _len), _w[i] == old._w[i] * _lk + _mu * e[0] * tu[i])))'),
                   ('single_w0', 'Implies(k == 0, same(_w, old._w))')]},
       2: {'facts': ['DOT_BASE(data(tu), k, 1, data(_w))', 'DOT_STEP(data(tu), k, 1, data(_w), i)'],
           'inv': [('shape', 'And(y.len == nx, e.len == nx)'),
                   ('acc', 'y[k] == DOT(data(tu), k, 1, data(_w), i)'),
                   ('others', 'forall(lambda q: Implies(And(0 <= q, q < nx, q != k), y[q] == pre.y[q]))')]},
       3: {'inv': [('shape', '_w.len == _len'),
                   ('done', 'forall(lambda t: Implies(And(0 <= t, t < i), _w[t] == pre._w[t] * _lk + _mu * e[k] * tu[t + k]))'),
                   ('todo', 'forall(lambda t: Implies(And(i <= t, t < _len), _w[t] == pre._w[t]))')]},
       4: {'inv': []},
       5: {'inv': [('shape', '_w.len == _len')]},
   })

RLS_OK = 'And(_n >= 1, _n <= 46340, _u.len == _n, _w.len == _n, _p.len == _n * _n)'
SHP = 'And(y.len == nx, e.len == nx, g.len == _n, Pu.len == _n, uTP.len == _n, guP.len == _n * _n, _u.len == _n, _w.len == _n, _p.len == _n * _n, nx == x.len)'

fn('dsplib::RlsFilter<double>::process', D, serves=['C12', 'C06', 'C05'], extra_env=ENV,
   assigns=['this._u', 'this._w', 'this._p'],
   requires=[('invariant', RLS_OK)],
   throws='x.len != d.len',
   ensures=[('invariant', RLS_OK),
            ('lengths', 'And(result.y.len == x.len, result.e.len == x.len)'),
            ('error_is_d_minus_y', 'forall(lambda k: Implies(And(0 <= k, k < x.len), result.e[k] == d[k] - result.y[k]))'),
            ('tap_delay_line', 'forall(lambda j: Implies(And(0 <= j, j < _n), _u[j] == If(j < x.len, x[x.len - 1 - j], old._u[j - x.len])))'),
            ('lock_freezes_coefficients', 'Implies(old._locked, And(same(_w, old._w), same(_p, old._p)))'),
            ('apriori_single', 'Implies(x.len == 1, result.y[0] == DOT(data(old._w), 0, 1, data(_u), _n))')],
   prop_of={'tap_delay_line': ['C06', 'C12']},
   loops={
       1: {'inv': [('shape', SHP),
                   ('err', 'forall(lambda q: Implies(And(0 <= q, q < idx), e[q] == d[q] - y[q]))'),
                   ('hist', 'forall(lambda j: Implies(And(0 <= j, j < _n), _u[j] == If(j < idx, x[idx - 1 - j], old._u[j - idx])))'),
                   ('lock', 'Implies(_locked, And(same(_w, old._w), same(_p, old._p)))'),
                   ('w0', 'Implies(idx == 0, same(_w, old._w))'),
                   ('single', 'Implies(And(nx == 1, idx == 1), y[0] == DOT(data(old._w), 0, 1, data(_u), _n))')]},
       2: {'inv': [('shape', SHP)]}, 3: {'inv': [('shape', SHP)]}, 4: {'inv': [('shape', SHP)]}, 5: {'inv': [('shape', SHP)]},
       6: {'inv': [('shape', SHP)]}, 7: {'inv': [('shape', SHP)]}, 8: {'inv': [('shape', SHP)]}, 9: {'inv': [('shape', SHP)]},
   })

CT = 'dsplib::cmplx_t'
fn('dsplib::LmsFilter<%s>::process' % CT, D, serves=['C12', 'C06', 'C05'], extra_env=ENV,
   assigns=['this._u', 'this._w'],
   requires=[('invariant', LMS_OK), ('size', '_u.len + x.len <= INT_MAX - 1')],
   lets={'nu': '_u.len'},
   throws='x.len != d.len',
   ensures=[('invariant', LMS_OK),
            ('lengths', 'And(result.y.len == x.len, result.e.len == x.len)'),
            ('error_is_d_minus_y', 'forall(lambda k: Implies(And(0 <= k, k < x.len), result.e[k] == d[k] - result.y[k]))'),
            ('history', 'forall(lambda t: Implies(And(0 <= t, t < nu), _u[t] == If(x.len + t < nu, old._u[x.len + t], x[x.len + t - nu])))'),
            ('lock_freezes_coefficients', 'Implies(old._locked, same(_w, old._w))')],
   prop_of={'history': ['C06', 'C12']},
   loops={
       1: {'inv': [('shape', 'And(y.len == nx, e.len == nx, tu.len == nu + nx, _w.len == _len, nx == x.len, Implies(_method == 1, tu2.len == nu + nx))'),
                   ('err', 'forall(lambda q: Implies(And(0 <= q, q < k), e[q] == d[q] - y[q]))'),
                   ('lock', 'Implies(_locked, same(_w, old._w))')]},
       2: {'inv': [('shape', 'And(y.len == nx, e.len == nx)'),
                   ('others', 'forall(lambda q: Implies(And(0 <= q, q < nx, q != k), y[q] == pre.y[q]))')]},
       3: {'inv': [('shape', '_w.len == _len')]}, 4: {'inv': []}, 5: {'inv': [('shape', '_w.len == _len')]},
   })

fn('dsplib::RlsFilter<%s>::process' % CT, D, serves=['C12', 'C06', 'C05'], extra_env=ENV,
   assigns=['this._u', 'this._w', 'this._p'],
   requires=[('invariant', RLS_OK)],
   throws='x.len != d.len',
   ensures=[('invariant', RLS_OK),
            ('lengths', 'And(result.y.len == x.len, result.e.len == x.len)'),
            ('error_is_d_minus_y', 'forall(lambda k: Implies(And(0 <= k, k < x.len), result.e[k] == d[k] - result.y[k]))'),
            ('tap_delay_line', 'forall(lambda j: Implies(And(0 <= j, j < _n), _u[j] == If(j < x.len, x[x.len - 1 - j], old._u[j - x.len])))'),
            ('lock_freezes_coefficients', 'Implies(old._locked, And(same(_w, old._w), same(_p, old._p)))')],
   prop_of={'tap_delay_line': ['C06', 'C12']},
   loops={
       1: {'inv': [('shape', SHP),
                   ('err', 'forall(lambda q: Implies(And(0 <= q, q < idx), e[q] == d[q] - y[q]))'),
                   ('hist', 'forall(lambda j: Implies(And(0 <= j, j < _n), _u[j] == If(j < idx, x[idx - 1 - j], old._u[j - idx])))'),
                   ('lock', 'Implies(_locked, And(same(_w, old._w), same(_p, old._p)))')]},
       2: {'inv': [('shape', SHP)]}, 3: {'inv': [('shape', SHP)]}, 4: {'inv': [('shape', SHP)]}, 5: {'inv': [('shape', SHP)]},
       6: {'inv': [('shape', SHP)]}, 7: {'inv': [('shape', SHP)]}, 8: {'inv': [('shape', SHP)]}, 9: {'inv': [('shape', SHP)]},
   })

fn('dsplib::RlsFilter<double>::RlsFilter', D, serves=['C12', 'C05'], extra_env=ENV, assigns=['this'],
   requires=[('size', 'And(filter_len >= 1, filter_len <= 46340)'), ('ghost', 'And(0 <= r0, r0 < filter_len, 0 <= c0, c0 < filter_len)')],
   lets={'r0': 'ghost_int("row")', 'c0': 'ghost_int("col")'}, throws='False',
   ensures=[('invariant', RLS_OK), ('parameters', 'And(_n == filter_len, _mu == forget_factor, Not(_locked))'),
            ('at_rest', 'And(forall(lambda k: Implies(And(0 <= k, k < _n), And(_u[k] == 0, _w[k] == 0))))'),
            # initial inverse-correlation matrix: diag_load on the diagonal, zero elsewhere (diagonal regularisation)
            # (r0, c0: arbitrary ghost row / column)
            ('initial_matrix', '_p[r0*_n + c0] == If(r0 == c0, diag_load, 0)')],
   loops={1: {'inv': [('shape', RLS_OK),
                      ('done', '_p[r0*_n + c0] == If(And(r0 == c0, r0 < i), diag_load, 0)')]}})

fn('dsplib::LmsFilter<double>::LmsFilter', D, serves=['C12', 'C05'], extra_env=ENV, assigns=['this'],
   requires=[('size', 'And(len >= 2, len <= 1048576)')], throws='False',
   ensures=[('invariant', LMS_OK), ('parameters', 'And(_len == len, _mu == step_size, _lk == leak, _method == method, Not(_locked))'),
            ('at_rest', 'And(forall(lambda k: Implies(And(0 <= k, k < _len - 1), _u[k] == 0)), forall(lambda k: Implies(And(0 <= k, k < _len), _w[k] == 0)))')])
