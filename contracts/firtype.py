"""C11 / C14: classification of linear-phase FIR types (lib/fir.cpp) -- replaces the trusted contract of firtype()."""
from engine.spec import fn
from contracts.mathfun import LIBM
from contracts.adaptive import EPSC

FI = 'lib/fir.cpp'
ENV = dict(LIBM)
ENV['EPSC'] = EPSC
NEAR = lambda a, b: 'fabs(%s - (%s)) < 2 * EPSC' % (a, b)
SYM = 'forall(lambda k: Implies(And(0 <= k, k < tdiv(h.len, 2)), %s))' % NEAR('h[k]', 'h[h.len - k - 1]')
ASYM = 'forall(lambda k: Implies(And(0 <= k, k < tdiv(h.len, 2)), %s))' % NEAR('h[k]', '-h[h.len - k - 1]')

fn('dsplib::_equal', FI, key='fir::_equal', serves=['C11', 'C14'], pure=True, extra_env=ENV, throws='False',
   ensures=[('tolerance', 'result == (%s)' % NEAR('x1', 'x2'))])
for nm, P, neg in (('_is_symmetric', SYM, ''), ('_is_antisymmetric', ASYM, '-')):
    fn('dsplib::' + nm, FI, key='fir::' + nm, serves=['C11', 'C14', 'C05'], pure=True, extra_env=ENV, throws='False',
       ensures=[('definition', 'result == %s' % P)],
       loops={1: {'inv': [('range', 'And(n == h.len, 0 <= i)'),
                          ('done', 'forall(lambda k: Implies(And(0 <= k, k < i), %s))' % NEAR('h[k]', neg + 'h[h.len - k - 1]'))]}})
fn('dsplib::firtype', FI, key='dsplib::firtype', serves=['C11', 'C14', 'C05'], pure=True, extra_env=ENV, throws='False',
   requires=[('nonempty', 'h.len >= 1')],
   ensures=[('classification', 'result == If(h.len == 1, 1, If(And(tmod(h.len, 2) == 1, {S}), 1, If(And(tmod(h.len, 2) == 0, {S}), 2, '
                               'If(And(tmod(h.len, 2) == 1, {A}, {Z}), 3, If(And(tmod(h.len, 2) == 0, {A}), 4, 0)))))'.format(S=SYM, A=ASYM, Z=NEAR('h[tdiv(h.len, 2)]', '0'))),
            ('antisymmetric_odd_length', 'Implies(result == 3, tmod(h.len, 2) == 1)')])
