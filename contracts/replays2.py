"""Native demonstrations by area. When a function-level obligation fails, the clause of the property it serves is checked
against the real library on a grid of small configurations next to the solver's counterexample (the solver's model fixes
lengths and parameters of one call; these programs also cover the multi-call histories that a state invariant speaks about).
Exit status 1 = the property is violated natively; the first line printed names the failing input."""
from engine.replay import adapter
from contracts.replays import HDR, I

FRAMING_BODY = '''
#include <vector>
#include <functional>
static unsigned S_ = 12345; static double rnd() { S_ = S_ * 1664525u + 1013904223u; return ((S_ >> 8) & 0xFFFF) / 32768.0 - 1.0; }
template<class A> static bool same(const A& a, const A& b, double tol) { if (a.size() != b.size()) return false;
  for (int i = 0; i < a.size(); ++i) if (abs(a[i] - b[i]) > tol * (1 + abs(b[i]))) return false; return true; }
// whole stream in one call vs the same stream cut into frames of g*[1..4] samples
template<class A, class Mk, class Run> static int framing(const char* what, Mk mk, Run run, int n, int g, double tol) {
  A x(n); for (int i = 0; i < n; ++i) x[i] = rnd();
  auto whole = mk(); A ref = run(whole, x);
  for (int trial = 0; trial < 6; ++trial) { auto p = mk(); A out; int pos = 0;
    while (pos < n) { int len = g * (1 + int((rnd() + 1) * 2)); if (pos + len > n) len = n - pos; A fr(x.slice(pos, pos + len)); out = out | run(p, fr); pos += len; }
    if (!same(out, ref, tol)) { std::printf("%s: output of %d samples depends on the framing (trial %d)\\n", what, n, trial); return 1; } }
  return 0; }
'''


@adapter(r'(FirFilter<double>|FIRDecimator|FIRInterpolator|FIRRateConverter|Delay<double>|MAFilter|MedianFilter|Tuner|Agc|LmsFilter<double>|FftFilter)::?(process|_process|FIRDecimator|FIRInterpolator|FIRRateConverter|MedianFilter|FftFilter)')
def framing_invariance(o):
    """C06/C07: the processor named by the failed obligation is fed one stream whole and in random framings; FIR-type
    processors are also compared with their defining sum"""
    nm = o['name']
    tests = []
    if 'FirFilter' in nm or 'FftFilter' in nm:
        tests.append('''  for (int nh : {2, 3, 5, 8, 33}) { arr_real h(nh); for (int i = 0; i < nh; ++i) h[i] = rnd();
    if (framing<arr_real>("FirFilter", [&]{ return FirFilter<real_t>(h); }, [](FirFilter<real_t>& f, const arr_real& x){ return f.process(x); }, 200, 1, 1e-9)) return 1;
    // defining sum y[i] = sum_k h[k] x[i-k]
    arr_real x(64); for (int i = 0; i < 64; ++i) x[i] = rnd(); FirFilter<real_t> f(h); arr_real y = f.process(x);
    for (int i = 0; i < 64; ++i) { double s = 0; for (int k = 0; k < nh && k <= i; ++k) s += h[k] * x[i - k]; if (std::fabs(s - y[i]) > 1e-9) { std::printf("FirFilter(%d taps): y[%d] = %g, defining sum %g\\n", nh, i, y[i], s); return 1; } }
    // the FFT-based filter emits the same sequence in multiples of its block size
    FftFilter ff(h); FirFilter<real_t> fd(h); const int B = ff.block_size(); arr_real a, b;
    for (int call = 0; call < 7; ++call) { int len = (call % 3 == 0) ? B : (1 + int((rnd() + 1) * B)); arr_real fr(len); for (int i = 0; i < len; ++i) fr[i] = rnd(); a = a | ff.process(fr); b = b | fd.process(fr); }
    if (a.size() % B != 0 || a.size() > b.size()) { std::printf("FftFilter(%d taps): emitted %d samples, block %d\\n", nh, a.size(), B); return 1; }
    for (int i = 0; i < a.size(); ++i) if (std::fabs(a[i] - b[i]) > 1e-7) { std::printf("FftFilter(%d taps): sample %d differs from the direct filter (%g vs %g)\\n", nh, i, a[i], b[i]); return 1; } }''')
    if 'FIRDecimator' in nm or 'FIRInterpolator' in nm or 'FIRRateConverter' in nm:
        tests.append('''  for (int L = 1; L <= 5; ++L) for (int M = 1; M <= 5; ++M) { if (L == 1 && M == 1) continue;
    if (L == 1) { if (framing<arr_real>("FIRDecimator", [&]{ return FIRDecimator(M); }, [](FIRDecimator& f, const arr_real& x){ return f.process(x); }, 60 * M, M, 1e-9)) return 1; }
    else if (M == 1) { if (framing<arr_real>("FIRInterpolator", [&]{ return FIRInterpolator(L); }, [](FIRInterpolator& f, const arr_real& x){ return f.process(x); }, 60, 1, 1e-9)) return 1; }
    else if (std::__gcd(L, M) == 1) { if (framing<arr_real>("FIRRateConverter", [&]{ return FIRRateConverter(L, M); }, [](FIRRateConverter& f, const arr_real& x){ return f.process(x); }, 60 * M, M, 1e-9)) return 1; } }''')
    if 'Delay' in nm:
        tests.append('''  for (int d : {1, 2, 7}) if (framing<arr_real>("Delay", [&]{ return Delay<real_t>(d); }, [](Delay<real_t>& f, const arr_real& x){ return f.process(x); }, 100, 1, 0)) return 1;''')
    if 'MedianFilter' in nm:
        tests.append('''  for (int k : {3, 4, 5, 9}) { if (framing<arr_real>("MedianFilter", [&]{ return MedianFilter(k, 0.25); }, [](MedianFilter& f, const arr_real& x){ return f.process(x); }, 120, 1, 0)) return 1;
    // window = last k samples (initial history = init value)
    MedianFilter f(k, 0.25); arr_real x(40); for (int i = 0; i < 40; ++i) x[i] = rnd(); arr_real y = f.process(x);
    for (int i = 0; i < 40; ++i) { std::vector<double> w; for (int j = 0; j < k; ++j) w.push_back(i - j >= 0 ? x[i - j] : 0.25); std::sort(w.begin(), w.end());
      double m = (k % 2) ? w[k / 2] : (w[k / 2 - 1] + w[k / 2]) / 2; if (std::fabs(m - y[i]) > 1e-12) { std::printf("MedianFilter(%d): y[%d] = %g, median of the window %g\\n", k, i, y[i], m); return 1; } } }''')
    if 'Tuner' in nm:
        tests.append('''  for (int fs : {8, 100}) for (double f : {1.0, 3.0, -2.0, 2.5, 0.3}) { if (framing<arr_cmplx>("Tuner", [&]{ return Tuner(fs, f); }, [](Tuner& t, const arr_cmplx& x){ return t.process(x); }, 5 * fs + 3, 1, 1e-9)) return 1; }
  // stream rotation y[k] = x[k] * exp(2*pi*i*f*k/fs) for integral f, over more than one second at an audio rate, in frames
  for (int fs : {100, 44100}) { const double f = 3; Tuner t(fs, f); long k = 0; const long total = 2L * fs + 77;
    while (k < total) { int len = int(std::min<long>(total - k, 4096 + (k % 5))); arr_cmplx x(len); for (int i = 0; i < len; ++i) x[i] = cmplx_t{1.0, 0.5};
      arr_cmplx y = t.process(x); for (int i = 0; i < len; ++i) { double ph = 2 * pi * f * double((k + i) % fs) / fs; cmplx_t e = x[i] * cmplx_t{std::cos(ph), std::sin(ph)};
        if (abs(y[i] - e) > 1e-6) { std::printf("Tuner(fs %d, f %g): stream sample %ld = (%g, %g), expected (%g, %g)\\n", fs, f, k + i, y[i].re, y[i].im, e.re, e.im); return 1; } }
      k += len; } }''')
    if 'Agc' in nm:
        tests.append('''  if (framing<arr_real>("Agc", [&]{ return Agc(1, 60, 10, 0.01, 0.02); }, [](Agc& a, const arr_real& x){ return a.process(x).out; }, 300, 1, 1e-9)) return 1;
  // the gain never exceeds max_gain, whatever gain the input level would need (levels 1..8 dB beyond the limit)
  for (double over = 1; over <= 8; over += 1) { const double maxdb = 20; Agc a(1, maxdb, 10, 0.01, 0.02); arr_real x(4000); for (int i = 0; i < 4000; ++i) x[i] = std::pow(10.0, -(maxdb + over) / 20) * ((i & 1) ? 1 : -1);
    auto r = a.process(x); for (int i = 0; i < 4000; ++i) if (r.gain[i] > std::pow(10.0, maxdb / 20) * (1 + 1e-9)) { std::printf("Agc(max_gain %g dB): gain %g dB at sample %d (input %g dB below target)\\n", maxdb, 20 * std::log10(r.gain[i]), i, maxdb + over); return 1; } }''')
    if 'LmsFilter' in nm:
        tests.append('''  for (double leak : {1.0, 0.98}) for (int nlms = 0; nlms < 2; ++nlms) { arr_real tr(80), td(80); for (int i = 0; i < 80; ++i) { tr[i] = rnd(); td[i] = rnd(); }
    auto mk = [&]{ LmsFilter<real_t> f(5, 0.05, nlms ? LmsType::NLMS : LmsType::LMS, leak); f.process(tr, td); f.set_lock_coeffs(true); return f; };   // adapted, then locked
    auto run = [&](LmsFilter<real_t>& f, const arr_real& x){ return f.process(x, x * 0.5).y; };
    if (framing<arr_real>("LmsFilter (adapted, then locked)", mk, run, 150, 1, 1e-9)) return 1;
    auto f = mk(); arr_real w0 = f.coeffs(); arr_real x(60); for (int i = 0; i < 60; ++i) x[i] = rnd(); f.process(x, x * 0.5); arr_real w1 = f.coeffs();
    for (int i = 0; i < w0.size(); ++i) if (w0[i] != w1[i]) { std::printf("LmsFilter(leak %g): locked coefficient %d changed from %g to %g\\n", leak, i, w0[i], w1[i]); return 1; }
    auto g = mk(); if (framing<arr_real>("LmsFilter (adapting)", [&]{ return LmsFilter<real_t>(5, 0.05, nlms ? LmsType::NLMS : LmsType::LMS, leak); }, run, 150, 1, 1e-9)) return 1; }''')
    if 'MAFilter' in nm:
        return None
    if not tests:
        return None
    return '#include <algorithm>\n' + HDR + FRAMING_BODY + 'int main() {\n' + '\n'.join(tests) + '\n  return 0; }\n'


@adapter(r'dsplib::(isprime|nextprime|nextpow2|ispow2|factor)/|PrimesGenerator')
def number_theory(o):
    """C15: against trial division / bit counting on 0..70000 and around 2^16, 2^31"""
    return '#include <vector>\n' + HDR + '''
static bool prime(long n) { if (n < 2) return false; for (long d = 2; d * d <= n; ++d) if (n % d == 0) return false; return true; }
int main() { std::vector<long> xs; for (long n = 0; n <= 70000; ++n) xs.push_back(n);
  for (long b : {65521L, 65536L, 1L << 20, (1L << 31) - 1}) for (long d = -40; d <= 40; ++d) if (b + d >= 0 && b + d < (1L << 31)) xs.push_back(b + d);
  for (long n : xs) { if (isprime((int)n) != prime(n)) { std::printf("isprime(%ld) = %d\\n", n, (int)isprime((int)n)); return 1; }
    if (n >= 1) { int p = nextpow2((int)n); if (!((1L << p) >= n && (p == 0 || (1L << (p - 1)) < n))) { std::printf("nextpow2(%ld) = %d\\n", n, p); return 1; }
      bool ip = (n & (n - 1)) == 0; if (ispow2((int)n) != ip) { std::printf("ispow2(%ld) = %d\\n", n, (int)ispow2((int)n)); return 1; } }
    if (n >= 2 && n < 70000) { long q = n; while (!prime(q)) ++q; if (nextprime((int)n) != q) { std::printf("nextprime(%ld) = %d, expected %ld\\n", n, nextprime((int)n), q); return 1; }
      auto f = factor((int)n); long prod = 1; for (int i = 0; i < (int)f.size(); ++i) { prod *= (long)f[i]; if (!prime((long)f[i]) || (i && f[i] < f[i - 1])) { std::printf("factor(%ld)[%d] = %d\\n", n, i, (int)f[i]); return 1; } }
      if (prod != n) { std::printf("factor(%ld): product %ld\\n", n, prod); return 1; } } }
  return 0; }
'''


@adapter(r'_fft_n[248]|_dft_n3|_dft_slow|SmallFftPow2|PrimesFftC|Pow2FftPlan|RealFftPlan|fft\((real|cmplx),n\)')
def dft_definition(o):
    """C01: fft of real and complex input against the defining sum for every length 1..96, and the padded/truncated form"""
    return HDR + '''
template<class A> static double err(const arr_cmplx& X, const A& x) { const int n = x.size(); double e = 0, s = 0;
  for (int k = 0; k < n; ++k) { cmplx_t a{0, 0}; for (int m = 0; m < n; ++m) { double ph = -2 * pi * double((long)m * k % n) / n; a += cmplx_t{std::cos(ph), std::sin(ph)} * x[m]; } e += abs2(X[k] - a); s += abs2(a); }
  return std::sqrt(e / (s + 1e-300)); }
int main() { for (int n = 1; n <= 96; ++n) { arr_real xr(n); arr_cmplx xc(n); for (int i = 0; i < n; ++i) { xr[i] = std::sin(0.37 * i * i) + 0.01 * i; xc[i] = cmplx_t{std::cos(1.3 * i), std::sin(0.11 * i * i)}; }
    if (fft(xr).size() != n || err(fft(xr), xr) > 1e-9) { std::printf("fft of %d real samples: relative error %g\\n", n, err(fft(xr), xr)); return 1; }
    if (fft(xc).size() != n || err(fft(xc), xc) > 1e-9) { std::printf("fft of %d complex samples: relative error %g\\n", n, err(fft(xc), xc)); return 1; }
    for (int m : {n - 1, n + 3}) { if (m < 1) continue; arr_real z = (m > n) ? zeropad(xr, m) : arr_real(xr.slice(0, m));
      arr_cmplx A = fft(xr, m), B = fft(z); if (A.size() != m) { std::printf("fft(x[%d], %d) has %d bins\\n", n, m, A.size()); return 1; }
      for (int k = 0; k < m; ++k) if (abs(A[k] - B[k]) > 1e-9 * (1 + abs(B[k]))) { std::printf("fft(x[%d], %d) differs from the transform of the padded/truncated input at bin %d\\n", n, m, k); return 1; } } }
  return 0; }
'''


@adapter(r'_tukeywin|window::(tukey|hann|hamming|blackman|blackmanharris|cosine|gauss|kaiser)|_sym_window|_(hann|hamming|blackman|blackmanharris|cosine|gauss)win')
def window_closed_forms(o):
    """C11: every window (hann, hamming, blackman, blackmanharris, cosine, gauss, tukey) against its closed form, symmetry, range and the
    periodic variant, lengths 3..64"""
    return HDR + '''
using namespace dsplib::window;
static int chk(const char* nm, const arr_real& w, const arr_real& wp, int n, double (*f)(int, int)) {
  if (w.size() != n || wp.size() != n) { std::printf("%s(%d): length %d / %d\\n", nm, n, w.size(), wp.size()); return 1; }
  for (int i = 0; i < n; ++i) { if (std::fabs(w[i] - f(n, i)) > 1e-12) { std::printf("%s(%d)[%d] = %.15g, closed form %.15g\\n", nm, n, i, w[i], f(n, i)); return 1; }
    if (std::fabs(w[i] - w[n - 1 - i]) > 1e-15 || w[i] < -1e-15 || w[i] > 1 + 1e-15) { std::printf("%s(%d)[%d] = %.17g: symmetry/range\\n", nm, n, i, w[i]); return 1; }
    if (std::fabs(wp[i] - f(n + 1, i)) > 1e-12) { std::printf("%s(%d, periodic)[%d] = %.15g, expected %.15g\\n", nm, n, i, wp[i], f(n + 1, i)); return 1; } }
  return 0; }
int main() { for (int n = 3; n <= 64; ++n) {
    if (chk("hann", hann(n), hann(n, false), n, [](int N, int i){ return 0.5 - 0.5 * std::cos(2 * pi * i / (N - 1)); })) return 1;
    if (chk("hamming", hamming(n), hamming(n, false), n, [](int N, int i){ return 0.54 - 0.46 * std::cos(2 * pi * i / (N - 1)); })) return 1;
    if (chk("blackman", blackman(n), blackman(n, false), n, [](int N, int i){ return 0.42 - 0.5 * std::cos(2 * pi * i / (N - 1)) + 0.08 * std::cos(4 * pi * i / (N - 1)); })) return 1;
    if (chk("blackmanharris", blackmanharris(n), blackmanharris(n, false), n, [](int N, int i){ return 0.35875 - 0.48829 * std::cos(2 * pi * i / (N - 1)) + 0.14128 * std::cos(4 * pi * i / (N - 1)) - 0.01168 * std::cos(6 * pi * i / (N - 1)); })) return 1;
    if (chk("cosine", cosine(n), cosine(n, false), n, [](int N, int i){ return std::sin(pi / N * (i + 0.5)); })) return 1;
    if (chk("gauss", gauss(n, 2.5), gauss(n, 2.5, false), n, [](int N, int i){ double h = (N - 1) / 2.0, t = 2.5 * (i - h) / h; return std::exp(-0.5 * t * t); })) return 1;
    for (double r : {0.0, 0.1, 0.25, 0.5, 0.77, 1.0}) { arr_real w = tukey(n, r); if (w.size() != n) return 1;
      for (int i = 0; i < n; ++i) { int d = std::min(i, n - 1 - i); double x = double(d) / (n - 1), per = r / 2;
        double e = (r <= 0) ? 1 : (r >= 1) ? 0.5 - 0.5 * std::cos(2 * pi * d / (n - 1)) : (x < per ? (1 + std::cos(pi / per * (x - per))) / 2 : 1);
        if (std::fabs(w[i] - e) > 1e-12) { std::printf("tukey(%d, %g)[%d] = %.15g, closed form %.15g\\n", n, r, i, w[i], e); return 1; } } } }
  return 0; }
'''


@adapter(r'_(low|high|band)pass_fir/|_bandstop_fir/|fir1\(')
def fir1_shape(o):
    """C11: tap count, symmetry and window-length rejection of fir1, orders 1..40"""
    return HDR + '''
int main() { for (int n = 1; n <= 40; ++n) for (int t = 0; t < 4; ++t) { FilterType ft = FilterType(t);
    const int len = ((t == 1 || t == 3) && (n % 2 == 1)) ? n + 2 : n + 1;
    for (int wl = len - 3; wl <= len + 4; ++wl) { if (wl < 1) continue; bool thrown = false; arr_real h;
      try { h = (t < 2) ? fir1(n, 0.37, ft, window::hamming(wl)) : fir1(n, 0.21, 0.58, ft, window::hamming(wl)); } catch (const std::exception&) { thrown = true; }
      if (thrown != (wl != len)) { std::printf("fir1(order %d, type %d) with a window of %d samples (expected %d): %s\\n", n, t, wl, len, thrown ? "rejected" : "accepted"); return 1; }
      if (!thrown) { if (h.size() != len) { std::printf("fir1(order %d, type %d): %d taps\\n", n, t, h.size()); return 1; }
        for (int k = 0; k < len; ++k) if (!(std::fabs(h[k] - h[len - 1 - k]) <= 1e-13)) { std::printf("fir1(order %d, type %d): h[%d] = %g, h[%d] = %g\\n", n, t, k, h[k], len - 1 - k, h[len - 1 - k]); return 1; } } } }
  return 0; }
'''


@adapter(r'delayseq|dsplib::round|round\((real|cmplx)\)|cumsum|peakloc')
def elementary(o):
    """C17/C18: delayseq, round, cumsum, peakloc against their definitions"""
    return HDR + '''
int main() { for (int n = 1; n <= 12; ++n) { arr_real x(n); for (int i = 0; i < n; ++i) x[i] = std::sin(1.7 * i) * 3 + 0.5 * (i % 3);
    for (int d = -n - 2; d <= n + 2; ++d) { arr_real y = delayseq(x, d); if (y.size() != n) return 1;
      for (int k = 0; k < n; ++k) { double e = (k - d >= 0 && k - d < n) ? x[k - d] : 0; if (y[k] != e) { std::printf("delayseq(x[%d], %d)[%d] = %g, expected %g\\n", n, d, k, y[k], e); return 1; } } }
    arr_real c = cumsum(x); double s = 0; for (int k = 0; k < n; ++k) { s += x[k]; if (std::fabs(c[k] - s) > 1e-12) { std::printf("cumsum(x[%d])[%d] = %g, expected %g\\n", n, k, c[k], s); return 1; } } }
  for (double v = -3.75; v <= 3.75; v += 0.25) { if (dsplib::round(v) != std::round(v)) { std::printf("round(%g) = %g\\n", v, dsplib::round(v)); return 1; }
    arr_real a(1); a[0] = v; if (dsplib::round(a)[0] != std::round(v)) { std::printf("round({%g}) = %g\\n", v, dsplib::round(a)[0]); return 1; } }
  { arr_real p = {0.0, 1.0, 4.0, 2.0, 0.5}; double v = peakloc(p, 2, false); // parabola through (1,1),(2,4),(3,2): vertex at 2 + (1-2)/(2*(1-8+2)) = 2.1
    if (std::fabs(v - 2.1) > 1e-12) { std::printf("peakloc({0,1,4,2,0.5}, 2) = %.15g, parabola vertex 2.1\\n", v); return 1; } }
  return 0; }
'''


@adapter(r'cmplx_t::operator|base_array[<:].*operator|concatenate|array_cast')
def array_arithmetic(o):
    """C03: element-wise operators and concatenation against plain loops, incl. self-aliasing and length mismatches"""
    return '#include <complex>\n' + HDR + '''
typedef std::complex<double> C;
static bool eq(cmplx_t a, C b) { return std::abs(C(a.re, a.im) - b) <= 1e-12 * (1 + std::abs(b)); }
int main() {
  // scalar complex: compound == binary, also when the right operand is the object itself
  for (int t = 0; t < 50; ++t) { cmplx_t a{std::sin(1.0 * t) * 3, std::cos(2.0 * t)}, b{0.5 + t, -1.25 * t + 1}; C ca(a.re, a.im), cb(b.re, b.im);
    cmplx_t x = a; x += b; if (!eq(x, ca + cb)) { std::printf("complex +=\\n"); return 1; } x = a; x -= b; if (!eq(x, ca - cb)) { std::printf("complex -=\\n"); return 1; }
    x = a; x *= b; if (!eq(x, ca * cb)) { std::printf("complex *=\\n"); return 1; } x = a; x /= b; if (!eq(x, ca / cb)) { std::printf("complex /=\\n"); return 1; }
    x = a; x *= x; if (!eq(x, ca * ca)) { std::printf("(%g%+gi) *= itself gives (%g%+gi)\\n", a.re, a.im, x.re, x.im); return 1; }
    x = a; x += x; if (!eq(x, ca + ca)) { std::printf("complex += itself\\n"); return 1; } x = a; x -= x; if (!eq(x, C(0, 0))) { std::printf("complex -= itself\\n"); return 1; }
    if (std::abs(ca) > 0.1) { x = a; x /= x; if (!eq(x, C(1, 0))) { std::printf("complex /= itself\\n"); return 1; } } }
  // arrays: results against loops; equal lengths required
  for (int n1 = 0; n1 <= 5; ++n1) for (int n2 = 0; n2 <= 5; ++n2) { arr_real a(n1), b(n2); arr_cmplx ac(n1), bc(n2);
    for (int i = 0; i < n1; ++i) { a[i] = i + 1.5; ac[i] = cmplx_t{a[i], -a[i] / 2}; } for (int i = 0; i < n2; ++i) { b[i] = 2.0 * i - 3; bc[i] = cmplx_t{b[i], 0.25}; }
    for (int op = 0; op < 4; ++op) { bool thrown = false; arr_real r; arr_cmplx rc, sq;
      try { r = op == 0 ? a + b : op == 1 ? a - b : op == 2 ? a * b : a / b; rc = op == 0 ? ac + bc : op == 1 ? ac - bc : op == 2 ? ac * bc : ac / bc; } catch (const std::exception&) { thrown = true; }
      if (thrown != (n1 != n2)) { std::printf("array op %d on lengths %d and %d: %s\\n", op, n1, n2, thrown ? "throws" : "accepted"); return 1; }
      if (!thrown) for (int i = 0; i < n1; ++i) { double e = op == 0 ? a[i] + b[i] : op == 1 ? a[i] - b[i] : op == 2 ? a[i] * b[i] : a[i] / b[i];
        C ce = op == 0 ? C(ac[i].re, ac[i].im) + C(bc[i].re, bc[i].im) : op == 1 ? C(ac[i].re, ac[i].im) - C(bc[i].re, bc[i].im) : op == 2 ? C(ac[i].re, ac[i].im) * C(bc[i].re, bc[i].im) : C(ac[i].re, ac[i].im) / C(bc[i].re, bc[i].im);
        if (r.size() != n1 || std::fabs(r[i] - e) > 1e-12 * (1 + std::fabs(e)) || !eq(rc[i], ce)) { std::printf("array op %d, length %d, element %d\\n", op, n1, i); return 1; } } }
    arr_cmplx sq = ac; sq *= sq; for (int i = 0; i < n1; ++i) if (!eq(sq[i], C(ac[i].re, ac[i].im) * C(ac[i].re, ac[i].im))) { std::printf("x *= x on a complex array: element %d is (%g%+gi)\\n", i, sq[i].re, sq[i].im); return 1; }
    // concatenation keeps every argument, empty ones included
    arr_real e0; arr_real c3 = concatenate(a, e0, b); arr_real c2 = a | b; if (c3.size() != n1 + n2 || c2.size() != n1 + n2) { std::printf("concatenate: length\\n"); return 1; }
    for (int i = 0; i < n1 + n2; ++i) { double e = i < n1 ? a[i] : b[i - n1]; if (c3[i] != e || c2[i] != e) { std::printf("concatenate(x[%d], {}, y[%d])[%d] = %g, expected %g\\n", n1, n2, i, c3[i], e); return 1; } } }
  return 0; }
'''


@adapter(r'slice_t::operator=|const_slice_t|base_slice_t|base_array\(const_slice|slice_t<')
def slice_semantics(o):
    """C04: x[i1:i2:m] = y[j1:j2:k] (same or different arrays, every sign of the steps) behaves like Python's list slicing"""
    return '#include <vector>\n' + HDR + '''
static bool idx(int n, int i1, int i2, int m, std::vector<int>& out) { out.clear(); if (n == 0 || m == 0) return false; int a = i1 < 0 ? n + i1 : i1, b = i2 < 0 ? n + i2 : i2;
  if (a < 0 || a >= n || b < 0 || b > n) return false; if ((m < 0 && a < b) || (m > 0 && a > b)) return false; if (m > 0) for (int p = a; p < b; p += m) out.push_back(p); else for (int p = a; p > b; p += m) out.push_back(p); return true; }
int main() { const int n = 7; std::vector<int> D, S;
  for (int i1 = 0; i1 < n; ++i1) for (int i2 = 0; i2 <= n; ++i2) for (int m : {-3, -2, -1, 1, 2, 3}) { if (!idx(n, i1, i2, m, D)) continue;
    for (int j1 = 0; j1 < n; ++j1) for (int j2 = 0; j2 <= n; ++j2) for (int k : {-2, -1, 1, 2}) { if (!idx(n, j1, j2, k, S)) continue;
      arr_real x(n), ref(n); for (int i = 0; i < n; ++i) { x[i] = i + 1; ref[i] = i + 1; }
      bool thrown = false; try { x.slice(i1, i2, m) = x.slice(j1, j2, k); } catch (const std::exception&) { thrown = true; }
      if (thrown != (D.size() != S.size())) { std::printf("x[%d:%d:%d] = x[%d:%d:%d]: %s (counts %zu, %zu)\\n", i1, i2, m, j1, j2, k, thrown ? "throws" : "accepted", D.size(), S.size()); return 1; }
      if (!thrown) { std::vector<double> tmp; for (int s : S) tmp.push_back(ref[s]); for (size_t t = 0; t < D.size(); ++t) ref[D[t]] = tmp[t];
        for (int i = 0; i < n; ++i) if (x[i] != ref[i]) { std::printf("x[%d:%d:%d] = x[%d:%d:%d]: element %d is %g, copy-first semantics gives %g\\n", i1, i2, m, j1, j2, k, i, x[i], ref[i]); return 1; } } } }
  return 0; }
'''


@adapter(r'IfftPlanR|_irfft_coeffs|irfft|istft|stft|IfftPlan::')
def inverse_transforms(o):
    """C02: irfft(rfft(x), n) == x for both accepted input forms, odd n rejected; ifft(fft(x)) == x; istft(stft(x)) == x with finite values"""
    return HDR + '''
int main() { for (int n = 1; n <= 64; ++n) { arr_real x(n); arr_cmplx xc(n); for (int i = 0; i < n; ++i) { x[i] = std::sin(0.9 * i) + 0.3 * (i % 4); xc[i] = cmplx_t{x[i], std::cos(1.7 * i)}; }
    arr_cmplx y = ifft(fft(xc)); for (int i = 0; i < n; ++i) if (abs(y[i] - xc[i]) > 1e-9) { std::printf("ifft(fft(x)) for %d samples: element %d off by %g\\n", n, i, abs(y[i] - xc[i])); return 1; }
    arr_cmplx X = fft(x); bool thrown = false; arr_real a, b;
    try { a = irfft(X, n); if (n % 2 == 0) b = irfft(arr_cmplx(X.slice(0, n / 2 + 1)), n); } catch (const std::exception&) { thrown = true; }
    if (thrown != (n % 2 == 1)) { std::printf("irfft(X, %d): %s\\n", n, thrown ? "throws" : "accepted (odd lengths must be rejected)"); return 1; }
    if (!thrown) for (int i = 0; i < n; ++i) if (std::fabs(a[i] - x[i]) > 1e-9 || std::fabs(b[i] - x[i]) > 1e-9) { std::printf("irfft(rfft(x), %d): sample %d = %g / %g (half spectrum), expected %g\\n", n, i, a[i], b[i], x[i]); return 1; } }
  for (int nfft : {16, 32}) for (int nwin : {8, 16}) { if (nwin > nfft) continue; const int hop = nwin / 2; arr_real x(nwin + 6 * hop); for (int i = 0; i < x.size(); ++i) x[i] = std::sin(0.31 * i) + 0.2;
    arr_real w = window::hann(nwin, false); auto S = stft(x, w, nwin - hop, nfft); arr_real r = istft(S, w, nwin - hop, nfft);
    if (r.size() != x.size()) { std::printf("istft(stft(x)): %d samples for %d (nwin %d, nfft %d)\\n", r.size(), x.size(), nwin, nfft); return 1; }
    for (int i = 0; i < r.size(); ++i) if (!(std::fabs(r[i]) < 1e300)) { std::printf("istft(stft(x))[%d] is not finite (nwin %d, nfft %d)\\n", i, nwin, nfft); return 1; }
    for (int i = hop; i + hop < r.size(); ++i) if (std::fabs(r[i] - x[i]) > 1e-9) { std::printf("istft(stft(x))[%d] = %g, expected %g (nwin %d, nfft %d)\\n", i, r[i], x[i], nwin, nfft); return 1; } }
  return 0; }
'''
