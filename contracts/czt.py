"""C01 / C05 / C09: chirp-z transform plan (lib/fft/czt.cpp). Proved: the three chirp tables the plan is built from and every
size; the solve() data path (multiply by the chirp, transform, multiply by the transformed inverse chirp, transform back,
take m samples, multiply by the chirp) with its frame. The convolution theorem that turns this into the chirp-z sum is
mathematics over the assumed FFT core (bounded stand-in in the thorough tier)."""
from engine.spec import fn
from contracts.mathfun3 import ENV as MENV, CPW_RE, CPW_IM
from contracts.adaptive import EPSC

CZ = 'lib/fft/czt.cpp'
ENV = dict(MENV)
ENV['EPSC'] = EPSC
WA = 'ATAN2(w.im, w.re)'
HALFSQ = lambda k: '(ToReal((%s) * (%s)) / 2)' % (k, k)


from contracts.plancache import PLAN_SIZE, handle
ENV.update({'PLAN_SIZE': PLAN_SIZE, 'handle': handle})
N2 = 'PLAN_SIZE(handle(_fft2.target._d))'
CZ_OK = 'And(_n >= 1, _m >= 1, _cp.len == _n, _rp.len == _m, _ich.len == %s, %s >= _m + _n - 1, %s <= 4194304)' % (N2, N2, N2)
fn('dsplib::FftPlan::size', CZ, key='FftPlan::size', serves=['C01'], trusted=True, pure=True, extra_env=ENV, value='PLAN_SIZE(handle(_d))',
   notes='ghost: the size reported by the plan object a FftPlan forwards to (virtual call)')
CM = lambda r, a, b: 'And({r}.re == {a}.re * {b}.re - {a}.im * {b}.im, {r}.im == {a}.re * {b}.im + {a}.im * {b}.re)'.format(r=r, a=a, b=b)
# A / B: what is handed to the forward / inverse transform; RA / RB: what they return (ghost copies taken at the calls)
fn('dsplib::CztPlanImpl::solve', CZ, serves=['C01', 'C05', 'C09'], pure=True, extra_env=ENV, pins_algorithm=True,
   requires=[('invariant', CZ_OK)], throws='x.len != _n',
   ghost={'A': 'x', 'B': 'x', 'RA': 'x', 'RB': 'x'},
   ghost_on=[('call:solve', None, {'B': 'arg0', 'A': 'B'}), ('ret:solve', None, {'RB': 'arg', 'RA': 'RB'})],
   ensures=[('length', 'result.len == _m'),
            ('chirp_premultiply', 'And(A.len == %s, forall(lambda k: Implies(And(0 <= k, k < _n), %s)), forall(lambda k: Implies(And(_n <= k, k < A.len), And(A[k].re == 0, A[k].im == 0))))' % (N2, CM('A[k]', 'x[k]', '_cp[k]'))),
            ('spectral_product', 'And(B.len == A.len, RA.len == A.len, forall(lambda k: Implies(And(0 <= k, k < A.len), %s)))' % CM('B[k]', 'RA[k]', '_ich[k]')),
            ('chirp_postmultiply', 'And(RB.len == A.len, forall(lambda j: Implies(And(0 <= j, j < _m), %s)))' % CM('result[j]', 'RB[_n - 1 + j]', '_rp[j]'))],
   loops={1: {'inv': [('len', 'xp.len == %s' % N2),
                      ('done', 'forall(lambda k: Implies(And(0 <= k, k < i), %s))' % CM('xp[k]', 'x[k]', '_cp[k]')),
                      ('rest', 'forall(lambda k: Implies(And(i <= k, k < xp.len), And(xp[k].re == 0, xp[k].im == 0)))')]}})

fn('dsplib::IfftPlan::IfftPlan', 'lib/fft/ifft.cpp', key='IfftPlan::IfftPlan', serves=['C02', 'C01', 'C05'], assigns=['this'], may_throw=True, extra_env=ENV,
   requires=[('size', 'And(n >= 1, n <= 1073741824)')])
import z3 as _z3
from contracts.adaptive import EPSD
ENV['EPSD'] = EPSD

CH = lambda k: ('COS(%s * %s)' % (WA, HALFSQ(k)), 'SIN(%s * %s)' % (WA, HALFSQ(k)))
TNEAR1 = 'SQRT((a.re - 1) * (a.re - 1) + a.im * a.im) > EPSD(a.re)'
PWK = ('CPW_RE(a.re, a.im, -ToReal(k0))', 'CPW_IM(a.re, a.im, -ToReal(k0))')
fn('dsplib::CztPlanImpl::CztPlanImpl', CZ, serves=['C01', 'C05'], assigns=['this'], may_throw=True, extra_env=ENV, pins_algorithm=True,
   requires=[('sizes', 'And(n >= 1, m >= 1, n <= 1000000, m <= 1000000)'), ('ghost', 'And(0 <= k0, k0 < n, 0 <= j0, j0 < m)')],
   lets={'k0': 'ghost_int("input index")', 'j0': 'ghost_int("output index")'},
   ensures=[('invariant', CZ_OK), ('sizes', 'And(_n == n, _m == m)'),
            # chirp[k] = w^(k^2/2) = exp(i * arg(w) * k^2 / 2): the output is multiplied by it ...
            ('output_chirp', 'And(_rp[j0].re == %s, _rp[j0].im == %s)' % CH('j0')),
            # ... and the input by chirp[k] * a^(-k) (the factor a^(-k) is skipped when a is 1 to within eps)
            ('input_chirp', 'If(%s, And(_cp[k0].re == %s * %s - %s * %s, _cp[k0].im == %s * %s + %s * %s), And(_cp[k0].re == %s, _cp[k0].im == %s))'
             % (TNEAR1, CH('k0')[0], PWK[0], CH('k0')[1], PWK[1], CH('k0')[0], PWK[1], CH('k0')[1], PWK[0], CH('k0')[0], CH('k0')[1]))],
   chain=True,
   asserts_on=[('call:nextpow2', [('index_shift', 'And((1 - n + (n - 1 + j0)) * (1 - n + (n - 1 + j0)) == j0 * j0, (1 - n + (n - 1 + k0)) * (1 - n + (n - 1 + k0)) == k0 * k0)'),
                                  ('chirp_at_shifted_indices', 'And(chirp[n - 1 + j0].re == %s, chirp[n - 1 + j0].im == %s, chirp[n - 1 + k0].re == %s, chirp[n - 1 + k0].im == %s)' % (CH('j0') + CH('k0')))]),
               ('call:solve', [('chirp_at_output_index', 'And(chirp[n - 1 + j0].re == %s, chirp[n - 1 + j0].im == %s)' % CH('j0')),
                               ('input_chirp_done', 'If(%s, And(_cp[k0].re == %s * %s - %s * %s, _cp[k0].im == %s * %s + %s * %s), And(_cp[k0].re == %s, _cp[k0].im == %s))'
                                % (TNEAR1, CH('k0')[0], PWK[0], CH('k0')[1], PWK[1], CH('k0')[0], PWK[1], CH('k0')[1], PWK[0], CH('k0')[0], CH('k0')[1]))]),
               ('call:operator*=', [('chirp_slice', 'And(_cp.len == n, _cp[k0].re == %s, _cp[k0].im == %s)' % CH('k0')),
                                     ('a_power', 'And(arg0.len == n, arg0[k0].re == %s, arg0[k0].im == %s)' % PWK)])],
   loops={1: {'inv': [('len', 'And(chirp.len == t.len, t.len == n - 1 + If(m > n, m, n))'),
                      ('squares', 'forall(lambda k: Implies(And(0 <= k, k < t.len), t[k] == ToReal((1 - n + k) * (1 - n + k)) / 2))'),
                      ('done', 'forall(lambda k: Implies(And(0 <= k, k < i), And(chirp[k].re == COS(w_a * t[k]), chirp[k].im == SIN(w_a * t[k]))))')]}})

# the public plan is a pointer to the implementation object (constness is shallow there: see contracts/frames.py for C09)
def at(prefix, e):
    import re as _re
    return _re.sub(r'\b(_n|_m|_cp|_rp|_ich|_fft2)\b', lambda mm: prefix + mm.group(1), e)


CZP_OK = at('_d.target.', CZ_OK)
fn('dsplib::CztPlan::CztPlan', CZ, key='CztPlan::CztPlan', only_tu=True, serves=['C01', 'C05'], assigns=['this'], may_throw=True, extra_env=ENV,
   requires=[('sizes', 'And(n >= 1, m >= 1, n <= 1000000, m <= 1000000)')],
   ensures=[('invariant', CZP_OK), ('sizes', 'And(_d.target._n == n, _d.target._m == m)')])
fn('dsplib::CztPlan::solve', CZ, key='CztPlan::solve', only_tu=True, serves=['C01', 'C05', 'C09'], pure=True, extra_env=ENV,
   requires=[('invariant', CZP_OK)], throws='x.len != _d.target._n',
   ensures=[('length', 'result.len == _d.target._m')])
fn('dsplib::CztPlan::size', CZ, key='CztPlan::size', only_tu=True, serves=['C01'], pure=True, extra_env=ENV, throws='False', value='_d.target._n')
fn('dsplib::czt', CZ, key='czt(x,m,w,a)', serves=['C01', 'C05'], pure=True, extra_env=ENV, may_throw=True,
   requires=[('sizes', 'And(x.len >= 1, m >= 1, x.len <= 1000000, m <= 1000000)')],
   ensures=[('length', 'result.len == m')])
