"""Session 5: the remaining deprecated range() forwards and the real-array x std::complex products."""
from engine.spec import fn
from contracts.mathfun3 import ENV as MENV

ENV = dict(MENV)
DRV = 'drivers/instantiate.cpp'

# range(stop) with a floating-point stop: the contract of arange(0, stop, 1), values 0, 1, ..., round(stop) - 1
fn('dsplib::range', DRV, sig='dsplib::arr_real (dsplib::real_t)', key='range(real)', serves=['C17', 'C05'], pure=True, extra_env=ENV,
   requires=[('count', 'And(stop >= 0, stop <= 1000000)')], throws='False',
   ensures=[('count', 'result.len == ToInt(rnd(stop))'), ('values', 'forall(lambda k: Implies(And(0 <= k, k < result.len), result[k] == ToReal(k)))')])
# range(start, stop, step) on integers: the contract of arange(int, int, int) (Python range)
fn('dsplib::range', DRV, sig='dsplib::arr_real (int, int, int)', key='range(int,int,int)', serves=['C17', 'C05'], pure=True,
   requires=[('step', 'step != 0'), ('span', 'And(start >= -1073741824, start <= 1073741824, stop >= -1073741824, stop <= 1073741824, step >= -1000000, step <= 1000000, stop - start <= 1073741824, start - stop <= 1073741824)')],
   lets={'cnt': 'If(step > 0, If(stop > start, tdiv(stop - start + step - 1, step), 0), If(stop < start, tdiv(start - stop - step - 1, -step), 0))'},
   throws='False',
   ensures=[('count', 'result.len == cnt'),
            ('values', 'forall(lambda k: Implies(And(0 <= k, k < result.len), result[k] == ToReal(start + k * step)))')])
