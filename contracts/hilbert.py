"""C14 / C06 / C05: analytic signal and Hilbert filter (lib/hilbert.cpp). FFT core assumed (contracts/fftabs.py)."""
from engine.spec import fn, inline_fn
from contracts.fftabs import ENV as FENV
from contracts.fir import ENV as FIRENV

H = 'lib/hilbert.cpp'
ENV = dict(FENV)
ENV.update(FIRENV)

# analytic signal: spectral weights 1 (DC, and Nyquist for even n), 2 (positive frequencies), 0 (negative frequencies)
fn('dsplib::hilbert', H, sig='(const dsplib::arr_real &)', key='hilbert(x)', serves=['C14', 'C05'], pure=True, extra_env=ENV,
   requires=[('length', 'And(x.len >= 3, x.len <= 1073741824)'), ('ghost', 'And(0 <= k0, k0 < x.len)')],
   lets={'n': 'x.len', 'k0': 'ghost_int("bin")'},
   ghost={'F': 'cplx_placeholder(x)', 'R': 'cplx_placeholder(x)'},
   ghost_on=[('ret:fft', None, {'F': 'arg'}), ('call:ifft', None, {'R': 'arg0'})],
   throws='False', body_assumes=['INSLICE_AX()'],
   ensures=[('length', 'result.len == n'),
            ('one_sided_weights', 'R[k0] == F[k0] * If(Or(k0 == 0, 2*k0 == n), 1, If(2*k0 < n, 2, 0))')])


def cplx_placeholder(x):
    """ghost initial value of complex-array type with the length of x"""
    from engine.values import SVal, VecVal
    import z3
    v = x.tree.f['_vec']
    d = SVal('dsplib::cmplx_t', {'re': z3.K(z3.IntSort(), z3.RealVal(0)), 'im': z3.K(z3.IntSort(), z3.RealVal(0))})
    from engine.spec import W
    return W(None, SVal('dsplib::base_array<dsplib::cmplx_t>', {'_vec': VecVal(v.len, d, ('struct', 'dsplib::cmplx_t', (('re', ('real',)), ('im', ('real',)))))}))


ENV['cplx_placeholder'] = cplx_placeholder

fn('dsplib::hilbert', H, sig='(const dsplib::arr_real &, int)', key='hilbert(x,n)', serves=['C14', 'C05'], pure=True, extra_env=ENV,
   requires=[('length', 'And(n >= 3, n <= 1073741824, x.len >= 1)')], throws='False',
   ghost={'A': 'x'}, ghost_on=[('call:hilbert', None, {'A': 'arg0'})],
   ensures=[('length', 'result.len == n'),
            # hilbert of x padded with zeros / truncated to n samples
            ('pad_or_truncate', 'And(A.len == n, forall(lambda k: Implies(And(0 <= k, k < n), A[k] == If(k < x.len, x[k], 0))))')])

# Hilbert filter: real path = input delayed by the group delay of the odd-length type-III FIR, imaginary path = FIR output
HF_OK = 'And(_fir._h.len >= 3, tmod(_fir._h.len, 2) == 1, _fir._d.len == _fir._h.len - 1, _d._buffer.len == tdiv(_fir._h.len, 2))'
inline_fn('dsplib::FirFilter<double>::FirFilter', 'dsplib::Delay<double>::Delay', 'dsplib::FirFilter<double>::coeffs')

fn('dsplib::HilbertFilter::design_fir', H, serves=['C14', 'C05'], pure=True, extra_env=ENV, may_throw=True,
   requires=[('size', 'And(flen >= 3, flen <= 10000)'), ('band', 'And(fs == 1, f1 > 0, f1 <= 0.2)')],
   ensures=[('length', 'result.len == If(tmod(flen, 2) == 0, flen + 1, flen)')])
fn('dsplib::(anon)::real_hilbert', H, serves=['C14', 'C05'], pure=True, ensures=[('length', 'result.len == h.len')])

fn('dsplib::HilbertFilter::HilbertFilter', H, sig='(const dsplib::arr_real &)', key='HilbertFilter(h)', serves=['C14', 'C06', 'C05'],
   extra_env=ENV, assigns=['this'], requires=[('size', 'And(h.len >= 3, h.len <= 2097152)')], may_throw=True,
   ensures=[('invariant', HF_OK), ('coeffs', 'same(_fir._h, h)')])
fn('dsplib::HilbertFilter::HilbertFilter', H, sig='(int, dsplib::real_t)', key='HilbertFilter(flen,tw)', serves=['C14', 'C06', 'C05'],
   extra_env=ENV, assigns=['this'], requires=[('size', 'And(flen >= 3, flen <= 10000)'), ('transition_width', 'And(tw > 0, tw <= 0.2)')], may_throw=True,
   ensures=[('invariant', HF_OK), ('length', '_fir._h.len == If(tmod(flen, 2) == 0, flen + 1, flen)')])

fn('dsplib::HilbertFilter::process', H, serves=['C14', 'C06', 'C05'], extra_env=ENV, assigns=['this._fir', 'this._d'],
   requires=[('invariant', HF_OK), ('size', 's.len <= 1073741824 - _fir._h.len')], throws='False',
   lets={'D': '_d._buffer.len'},
   ensures=[('invariant', HF_OK), ('length', 'result.len == s.len'),
            ('real_part_is_delayed_input', 'forall(lambda k: Implies(And(0 <= k, k < s.len), result[k].re == If(k < D, old._d._buffer[k], s[k - D])))')],
   loops={1: {'inv': [('len', 'r.len == n'), ('done', 'forall(lambda k: Implies(And(0 <= k, k < i), r[k].re == re[k]))')]},
          2: {'inv': [('len', 'r.len == n'), ('kept', 'forall(lambda k: Implies(And(0 <= k, k < n), r[k].re == re[k]))')]}})
