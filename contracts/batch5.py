"""Real-input wrappers of the prime / mixed-radix plans, element comparisons, small forwards."""
from engine.spec import fn
from contracts.fftkernels import PR_OK, ENV as KENV, F
from contracts.hilbert import cplx_placeholder
KENV = dict(KENV); KENV['cplx_placeholder'] = cplx_placeholder
import re as _re

pre = lambda inv, m: _re.sub(r'(?<![\w.])(\w+_|_\w+)\b', lambda k: m + '.' + k.group(1), inv)
PRR = pre(PR_OK, 'plan_')
fn('dsplib::PrimesFftR::solve', F, key='PrimesFftR::solve', serves=['C01', 'C05', 'C09'], pure=True, extra_env=KENV,
   requires=[('invariant', PRR)], throws='x.len != plan_.n_',
   ghost={'C': 'cplx_placeholder(x)'}, ghost_on=[('call:solve', None, {'C': 'arg0'})],
   ensures=[('length', 'result.len == plan_.n_'),
            ('same_values_as_complex_input', 'And(C.len == x.len, forall(lambda k: Implies(And(0 <= k, k < x.len), And(C[k].re == x[k], C[k].im == 0))))')])
fn('dsplib::PrimesFftR::PrimesFftR', F, key='PrimesFftR::PrimesFftR', serves=['C01', 'C05'], assigns=['this'], may_throw=True, extra_env=KENV,
   requires=[('size', 'And(n >= -1073741824, n <= 1073741824)')], ensures=[('invariant', PRR), ('size', 'plan_.n_ == n')])

A = 'dsplib::base_array<>::'
TU = 'drivers/instantiate.cpp'
for T, key in (('double', 'real'),):
    fn('dsplib::base_array<%s>::operator!=' % T, TU, sig='std::vector<bool> (%s) const' % T, key='base_array<%s>::operator!=(scalar)' % key, serves=['C03', 'C05'], pure=True, throws='False',
       ensures=[('length', 'result.len == this.len'), ('elementwise', 'forall(lambda k: Implies(And(0 <= k, k < this.len), result[k] == (this[k] != val)))')])

for T, key, eq in (('double', 'real', 'this[k] != rhs[k]'), ('dsplib::cmplx_t', 'cmplx', 'Not(And(this[k].re == rhs[k].re, this[k].im == rhs[k].im))')):
    fn('dsplib::base_array<%s>::operator!=' % T, TU, sig='std::vector<bool> (const base_array<%s> &) const' % T, key='base_array<%s>::operator!=(array)' % key, serves=['C03', 'C05'], pure=True,
       throws='this.len != rhs.len',
       ensures=[('length', 'result.len == this.len'), ('elementwise', 'forall(lambda k: Implies(And(0 <= k, k < this.len), result[k] == (%s)))' % eq)])
fn('dsplib::base_array<dsplib::cmplx_t>::operator==', TU, sig='std::vector<bool> (dsplib::cmplx_t) const', key='base_array<cmplx>::operator==(scalar)', serves=['C03', 'C05'], pure=True, throws='False',
   ensures=[('length', 'result.len == this.len'), ('elementwise', 'forall(lambda k: Implies(And(0 <= k, k < this.len), result[k] == And(this[k].re == val.re, this[k].im == val.im)))')],
   loops={1: {'inv': [('len', 'res.len == _vec.len'), ('done', 'forall(lambda k: Implies(And(0 <= k, k < i), res[k] == And(_vec[k].re == val.re, _vec[k].im == val.im)))')]}})

# FactorFFTPlanR: the mixed-radix plan on the same values as complex numbers
from contracts.fftplans import FA
fn('dsplib::FactorFFTPlanR::solve', F, key='FactorFFTPlanR::solve', serves=['C01', 'C05', 'C09'], pure=True, extra_env=KENV,
   requires=[('invariant', 'And(_plan._n >= 1, _plan._twiddle.len == _plan._n)')], throws='x.len != _plan._n',
   ghost={'C': 'cplx_placeholder(x)'}, ghost_on=[('call:solve', None, {'C': 'arg0'})],
   ensures=[('length', 'result.len == _plan._n'),
            ('same_values_as_complex_input', 'And(C.len == x.len, forall(lambda k: Implies(And(0 <= k, k < x.len), And(C[k].re == x[k], C[k].im == 0))))')])

# member forms of next_size / prev_size: the static forms at the object's own rates
RS_H = 'drivers/instantiate.cpp'
