"""C02 / C05: real inverse transform (lib/fft/ifft.cpp)."""
from engine.spec import fn, inline_fn
from contracts.mathfun import LIBM
from contracts.fftabs import ENV as FENV
import z3 as _z3

I = 'lib/fft/ifft.cpp'
ENV = dict(LIBM)
ENV.update(FENV)


def trig_facts(t):
    """reflection identities of cos/sin (A2) instantiated at t"""
    from engine.prelude import COS, SIN
    from engine.core import PI
    return _z3.And(COS(PI - t) == -COS(t), SIN(PI / 2 + t) == COS(t), SIN(PI / 2 - t) == COS(t),
                   COS(0) == 1, SIN(0) == 0, COS(PI / 2) == 0, SIN(PI / 2) == 1)


ENV['TRIG'] = trig_facts
ANG = '2*PI*ToReal(k)/ToReal(n)'

# every entry k < n/2 of the table is exp(+2*pi*i*k/n) for every even n >= 2
fn('dsplib::(anon)::_irfft_coeffs', I, serves=['C02', 'C05'], pure=True, extra_env=ENV,
   requires=[('size', 'n >= 2')],
   ensures=[('length', 'Implies(tmod(n, 2) == 0, result.len == tdiv(n, 2))'),
            ('twiddles', 'Implies(tmod(n, 2) == 0, forall(lambda k: Implies(And(0 <= k, k < tdiv(n, 2)), And(result[k].re == COS(%s), result[k].im == SIN(%s)))))' % (ANG, ANG))],
   loops={1: {'inv': [('len', 'res.len == n2'),
                      ('direct', 'forall(lambda k: Implies(And(0 <= k, k < i), And(res[k].re == COS(%s), res[k].im == SIN(%s))))' % (ANG, ANG))]},
          # quarter-wave construction: after i-1 steps the entries whose index is within i of 0, n/4 or n/2 are final
          2: {'facts': ['TRIG(2*PI*ToReal(i)/ToReal(n))',
                        'And(2*PI*ToReal(n2 - i)/ToReal(n) == PI - 2*PI*ToReal(i)/ToReal(n), 2*PI*ToReal(n4 + i)/ToReal(n) == PI/2 + 2*PI*ToReal(i)/ToReal(n), 2*PI*ToReal(n4 - i)/ToReal(n) == PI/2 - 2*PI*ToReal(i)/ToReal(n))'],
              'inv': [('len', 'And(res.len == n2, n == 4*n4, n2 == 2*n4, n4 >= 1)'),
                      ('axis', 'And(res[0].re == 1, res[0].im == 0, res[n4].re == 0, res[n4].im == 1)'),
                      ('re_low', 'forall(lambda k: Implies(And(1 <= k, k < i), res[k].re == COS(%s)))' % ANG),
                      ('re_high', 'forall(lambda k: Implies(And(n2 - i < k, k < n2), res[k].re == COS(%s)))' % ANG),
                      ('im_up', 'forall(lambda k: Implies(And(n4 < k, k < n4 + i), res[k].im == SIN(%s)))' % ANG),
                      ('im_down', 'forall(lambda k: Implies(And(n4 - i < k, k < n4), res[k].im == SIN(%s)))' % ANG)]}})

fn('dsplib::IfftPlanR::IfftPlanR', I, serves=['C02', 'C05'], extra_env=ENV, assigns=['this'],
   requires=[('size', 'n >= 2')],
   throws='tmod(n, 2) != 0',
   ensures=[('size', '_n == n'),
            ('twiddles', 'And(_w.len == tdiv(n, 2), forall(lambda k: Implies(And(0 <= k, k < tdiv(n, 2)), And(_w[k].re == COS(%s), _w[k].im == SIN(%s)))))' % (ANG, ANG))])

UNT = "(((x[K] + x[n2 - K].conj()) * (1 / ToReal(_n))) + cx(0, 1) * (((x[K] - x[n2 - K].conj()) * (1 / ToReal(_n))) * _w[K])).conj()"

# k0 is an arbitrary (ghost) bin index: a clause proved for it holds for every bin
fn('dsplib::IfftPlanR::solve', I, serves=['C02', 'C05'], pure=True, extra_env=ENV,
   requires=[('invariant', 'And(_n >= 2, tmod(_n, 2) == 0, _w.len == tdiv(_n, 2))'), ('ghost', 'And(0 <= k0, k0 < tdiv(_n, 2))')],
   lets={'n2': 'tdiv(_n, 2)', 'k0': 'ghost_int("bin")'},
   throws='And(x.len != _n, x.len != tdiv(_n, 2) + 1)',
   ensures=[('length', 'result.len == _n'),
            # untangling step written from the textbook identity: Z[k] = conj((X[k] + conj X[n/2-k])/n + i*w[k]*(X[k] - conj X[n/2-k])/n)
            ('untangle', 'exists_w(lambda ZR, ZI: cx(ZR[k0], ZI[k0]) == ' + UNT.replace('K', 'k0') + ', re_data(Z), im_data(Z))'),
            ('interleave', 'exists_w(lambda BR, BI: And(result[2*k0] == BR[k0], result[2*k0 + 1] == -BI[k0]), re_data(z), im_data(z))'),
            ('transform_of_untangled', 'exists_w(lambda ZR, ZI, BR, BI: And(same(BR, DFT_RE(ZR, ZI, n2)), same(BI, DFT_IM(ZR, ZI, n2))), re_data(Z), im_data(Z), re_data(z), im_data(z))')],
   loops={1: {'inv': [('len', 'Z.len == n2'), ('done', 'Implies(k0 < i, Z[k0] == ' + UNT.replace('K', 'k0') + ')')]},
          2: {'inv': [('len', 'And(r.len == _n, z.len == n2)'),
                      ('done', 'Implies(k0 < i, And(r[2*k0] == z[k0].re, r[2*k0 + 1] == -z[k0].im))')]}})

fn('dsplib::IfftPlanR::operator()', I, serves=['C02', 'C05'], pure=True, extra_env=ENV,
   requires=[('invariant', 'And(_n >= 2, tmod(_n, 2) == 0, _w.len == tdiv(_n, 2))')],
   throws='And(x.len != _n, x.len != tdiv(_n, 2) + 1)',
   ensures=[('length', 'result.len == _n')])
