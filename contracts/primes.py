"""C15 / C05: prime helpers (lib/primes.cpp) and power-of-two helpers (lib/math.cpp)."""
from engine.spec import fn, inline_fn
import z3 as _z3

TU = 'lib/primes.cpp'
G = 'dsplib::(anon)::PrimesGenerator::'
U32 = 2 ** 32

PRIMES54 = [2, 3, 5, 7, 11, 13, 17, 19, 23, 29, 31, 37, 41, 43, 47, 53, 59, 61, 67, 71, 73, 79, 83, 89, 97, 101, 103,
            107, 109, 113, 127, 131, 137, 139, 149, 151, 157, 163, 167, 173, 179, 181, 191, 193, 197, 199, 211, 223,
            227, 229, 233, 239, 241, 251]


def gen_ok(g):
    """representation invariant of the incremental generator: position valid, at least the 54 seed
    entries, every entry >= 2, list strictly increasing"""
    p = g._primes
    i = _z3.Int('i!gok')
    j = _z3.Int('j!gok')
    return _z3.And(p.len >= 54, 0 <= g._pos, g._pos < p.len,
                   _z3.ForAll([i], _z3.Implies(_z3.And(0 <= i, i < p.len), _z3.And(p[i] >= 2, p[i] < U32))),
                   _z3.ForAll([i, j], _z3.Implies(_z3.And(0 <= i, i < j, j < p.len), p[i] < p[j])))


def prefix_kept(g, old):
    i = _z3.Int('i!pk')
    return _z3.And(g._primes.len >= old._primes.len,
                   _z3.ForAll([i], _z3.Implies(_z3.And(0 <= i, i < old._primes.len), g._primes[i] == old._primes[i])))


def no_listed_divisor(p, upto, n):
    """no list entry with index < upto divides n"""
    i = _z3.Int('i!nd')
    from engine.spec import TDIV as D
    return _z3.ForAll([i], _z3.Implies(_z3.And(0 <= i, i < upto), n - p[i] * D(n, p[i]) != 0))


def div_lemmas():
    """integer-division facts used to read 'd <= n / d' as 'd*d <= n' (each proved from the definition
    of floor division by engine/selftest.py; stated here so that z3 need not do non-linear reasoning)"""
    from engine.spec import TDIV as D
    a, b, n = _z3.Ints('a!dl b!dl n!dl')
    return _z3.And(
        _z3.ForAll([a, b, n], _z3.Implies(_z3.And(1 <= a, a <= b, 0 <= n, a > D(n, a)), b > D(n, b))),
        _z3.ForAll([a, n], _z3.Implies(_z3.And(2 <= a, 1 <= n), D(n, a) < n)),
        _z3.ForAll([a, n], _z3.Implies(_z3.And(1 <= a, a <= D(n, a), n < U32), a < 65536)),
        _z3.ForAll([a, n], _z3.Implies(_z3.And(1 <= a, 0 <= n), _z3.And(D(n, a) <= n, D(n, a) >= 0))),
        _z3.ForAll([a, n], _z3.Implies(_z3.And(2 <= a, 1 <= n, n - a * D(n, a) == 0), _z3.And(a * D(n, a) == n, D(n, a) >= 1))))


ENV = {'DIV_LEMMAS': div_lemmas, 'gen_ok': gen_ok, 'prefix_kept': prefix_kept,
       'no_listed_divisor': no_listed_divisor, 'U32': U32}

inline_fn(G + 'current')

fn(G + 'PrimesGenerator', TU, serves=['C15', 'C05'], extra_env=ENV, assigns=['this'],
   ensures=[('invariant', 'gen_ok(this)'), ('start', 'And(_pos == 0, _primes.len == 54)'),
            ('seed', 'And(%s)' % ', '.join('_primes[%d] == %d' % (i, v) for i, v in enumerate(PRIMES54)))])

fn(G + '_is_prime', TU, serves=['C15', 'C05'], extra_env=ENV, pure=True, nowrap=True,
   requires=['gen_ok(this)', 'n >= 2'], body_assumes=['DIV_LEMMAS()'],
   ensures=[('trial_division_true', 'Implies(result, forall(lambda i: Implies(And(0 <= i, i < _primes.len, _primes[i] <= tdiv(n, _primes[i])), tmod(n, _primes[i]) != 0)))'),
            ('trial_division_false', 'Implies(Not(result), exists(lambda i: And(0 <= i, i < _primes.len, _primes[i] <= tdiv(n, _primes[i]), tmod(n, _primes[i]) == 0)))')],
   loops={1: {'inv': [('visited', 'forall(lambda i: Implies(And(0 <= i, i < d_idx), And(_primes[i] <= tdiv(n, _primes[i]), tmod(n, _primes[i]) != 0)))')]}})

fn(G + '_add_primes', TU, serves=['C15', 'C05'], extra_env=ENV, assigns=['this._primes'], nowrap=True,
   requires=['gen_ok(this)', '_pos == _primes.len - 1', '_primes[_pos] < U32 - 4'],
   ensures=[('invariant', 'gen_ok(this)'), ('prefix', 'prefix_kept(this, old.this)'),
            ('one_more', '_primes.len == old._primes.len + 1'),
            ('candidate', 'forall(lambda i: Implies(And(0 <= i, i < old._primes.len, old._primes[i] <= tdiv(_primes[_primes.len-1], old._primes[i])), tmod(_primes[_primes.len-1], old._primes[i]) != 0))')],
   loops={1: {'inv': [('above', 'val > _primes[_pos]')],
              'assume': ['val < U32 - 4'], 'no_termination': True}},
   notes='the candidate search is assumed to find a prime before the 32-bit range ends (trusted: L-EUCLID / prime gaps)')

fn(G + 'next', TU, serves=['C15', 'C05'], extra_env=ENV, assigns=['this._primes', 'this._pos'], nowrap=True,
   requires=['gen_ok(this)', '_primes[_primes.len - 1] < U32 - 4'],
   ensures=[('invariant', 'gen_ok(this)'), ('prefix', 'prefix_kept(this, old.this)'),
            ('advance', '_pos == old._pos + 1'),
            ('tail', 'Implies(old._pos == old._primes.len - 1, _pos == _primes.len - 1)'),
            ('same_len', 'Implies(old._pos < old._primes.len - 1, _primes.len == old._primes.len)'), ('value', 'result == _primes[_pos]'),
            ('increasing', 'result > old._primes[old._pos]'),
            ('grows_by_at_most_one', '_primes.len <= old._primes.len + 1')])

fn('dsplib::isprime', TU, serves=['C15', 'C05'], extra_env=ENV, pure=True, nowrap=True,
   body_assumes=['DIV_LEMMAS()'],
   ensures=[('small', 'Implies(n < 2, Not(result))'),
            ('table_exact', 'Implies(n <= 251, result == Or(%s))' % ', '.join('n == %d' % v for v in PRIMES54)),
            ('composite_witness', 'Implies(And(Not(result), n > 251), exists(lambda q, r: And(1 < q, q < n, n == q * r)))'),
            # a 'prime' answer above the table means: trial division by the generator's list reached sqrt(n)
            # (first entry d with d > n/d) and no earlier entry divides n  [+ L-TRIAL and list = all primes]
            ('prime_answer', 'when(And(result, n > 251), lambda: exists_w(lambda L, pos: And(0 <= pos, pos < L.len, L[pos] > tdiv(n, L[pos]), '
                             'forall(lambda i: Implies(And(0 <= i, i < pos), n - L[i] * tdiv(n, L[i]) != 0))), gen._primes, gen._pos))')],
   loops={1: {'inv': [('gen', 'gen_ok(gen)'), ('cur', 'd == gen._primes[gen._pos]'), ('big', 'n > 251'),
                      ('shape', 'Or(And(gen._primes.len == 54, gen._primes[53] == 251), gen._pos == gen._primes.len - 1)'),
                      ('visited', 'no_listed_divisor(gen._primes, gen._pos, n)')],
              'dec': 'n + 1 - d'}})

fn('dsplib::factor', TU, serves=['C15', 'C05'], extra_env=ENV, pure=True, nowrap=True,
   body_assumes=['DIV_LEMMAS()'],
   requires=[('representable', 'n <= INT_MAX')],
   ghost={'P': '1', 'last': '2'},
   ghost_on=[('push_back', 'res', {'P': 'P * arg', 'last': 'arg'})],
   ensures=[('nonempty', 'result.len >= 1'),
            ('product', 'Implies(old.n > 3, P == old.n)'),
            ('small', 'Implies(old.n <= 3, And(result.len == 1, result[0] == old.n))')],
   loops={1: {'inv': [('gen', 'gen_ok(gen)'), ('cur', 'd == gen._primes[gen._pos]'),
                      ('shape', 'Or(And(gen._primes.len == 54, gen._primes[53] == 251), gen._pos == gen._primes.len - 1)'),
                      ('range', 'And(1 <= n, n <= old.n)'), ('some', 'Or(n > 1, res.len >= 1)'),
                      ('product', 'n * P == old.n'), ('order', 'last <= d')],
              'dec': 'n + 1 - d'},
          2: {'inv': [('range', 'And(1 <= n, n <= pre.n, n <= old.n)'), ('some', 'Or(n > 1, res.len >= 1)'),
                      ('product', 'n * P == old.n'), ('order', 'last <= d')],
              'dec': 'n'}})

# power-of-two helpers: exact for every positive int
M = 'lib/math.cpp'
fn('dsplib::nextpow2', M, serves=['C15', 'C05'], pure=True,
   requires=['m >= 0'],
   ensures=[('range', 'And(0 <= result, result <= 31)'),
            ('ceil_log2', 'Implies(m >= 2, And(pow2(result) >= m, pow2(result - 1) < m))'),
            ('zero_one', 'Implies(m <= 1, result == 0)')],
   loops={1: {'inv': [('range', 'And(0 <= p, p <= 31, m >= 2)'), ('below', 'Implies(p >= 1, pow2(p - 1) <= m)')],
              'dec': '32 - p'}})
fn('dsplib::ispow2', M, serves=['C15', 'C05'], pure=True,
   requires=['m >= 1'],
   ensures=[('exact', 'result == exists(lambda k: And(0 <= k, k <= 30, m == pow2(k)))')])

SHAPE = 'Or(And(_primes.len == 54, _primes[53] == 251), _pos == _primes.len - 1)'
fn(G + 'next_prime', TU, serves=['C15', 'C05'], extra_env=ENV, assigns=['this._primes', 'this._pos'], nowrap=True,
   requires=['gen_ok(this)', SHAPE, 'n <= U32 - 5'],
   ensures=[('invariant', 'gen_ok(this)'), ('value', 'result == _primes[_pos]'), ('at_least', 'result >= n'),
            ('least_listed', 'forall(lambda i: Implies(And(0 <= i, i < _pos, i >= old._pos), _primes[i] < n))'),
            ('prefix', 'prefix_kept(this, old.this)')],
   loops={1: {'inv': [('gen', 'gen_ok(this)'), ('shape', SHAPE), ('pos', '_pos >= old._pos'), ('prefix', 'prefix_kept(this, old.this)'),
                      ('below', 'forall(lambda i: Implies(And(0 <= i, i < _pos, i >= old._pos), _primes[i] < n))')],
              'dec': 'n - _primes[_pos]'}})

fn('dsplib::nextprime', TU, serves=['C15', 'C05'], extra_env=ENV, pure=True,
   requires=[('representable', 'n <= U32 - 5')],
   ensures=[('at_least', 'result >= n'), ('at_least_two', 'result >= 2'),
            # up to the end of the built-in table the answer is exactly the smallest prime >= n (a prime maps to itself)
            ('table_exact', 'Implies(n <= 251, And(Or(%s), %s))' % (', '.join('result == %d' % v for v in PRIMES54),
                                                                    ', '.join('Implies(%d >= n, result <= %d)' % (v, v) for v in PRIMES54))),
            # above it: the first entry of the generator's strictly increasing list that is not below n
            ('local:first_listed', 'exists_w(lambda L, pos: And(0 <= pos, pos < L.len, result == L[pos], forall(lambda i: Implies(And(0 <= i, i < pos), L[i] < n))), gen._primes, gen._pos)')])

fn('dsplib::primes', TU, serves=['C15', 'C05'], extra_env=ENV, pure=True, nowrap=True,
   requires=[('representable', 'n <= INT_MAX - 4')],
   ensures=[('bounded', 'forall(lambda k: Implies(And(0 <= k, k < result.len), And(2 <= result[k], result[k] <= n)))'),
            ('increasing', 'forall(lambda k: Implies(And(0 <= k, k + 1 < result.len), result[k] < result[k + 1]))'),
            ('none_below_two', 'Implies(n < 2, result.len == 0)')],
   loops={1: {'inv': [('gen', 'gen_ok(gen)'),
                      ('shape', 'Or(And(gen._primes.len == 54, gen._primes[53] == 251), gen._pos == gen._primes.len - 1)'),
                      ('bounded', 'forall(lambda k: Implies(And(0 <= k, k < res.len), And(2 <= res[k], res[k] <= n)))'),
                      ('increasing', 'forall(lambda k: Implies(And(0 <= k, k + 1 < res.len), res[k] < res[k + 1]))'),
                      ('last', 'Implies(res.len > 0, res[res.len - 1] < gen._primes[gen._pos])')],
              'dec': 'n + 1 - gen._primes[gen._pos]'}})
