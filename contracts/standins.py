"""Bounded stand-ins (thorough tier only) for the parts of a property that no contract within reach decides: the clause is
checked natively on a stated finite grid. Labelled *bounded* in the evidence and never counted as proved; a failure is a real
failing input and is reported as a violation with the program as replay."""
from contracts.replays import HDR
from contracts import replays, replays2, replays3

CZT = HDR + '''
int main() { for (int n = 1; n <= 24; ++n) for (int m : {1, 2, n, n + 3, 2 * n + 1}) for (int c = 0; c < 4; ++c) {
    const double th = (c & 1) ? -2 * pi / (m + 0.5) : 2 * pi * 0.037; const cmplx_t w{std::cos(th), std::sin(th)};         // |w| = 1
    const double ar = (c & 2) ? 0.8 : 1.0, aa = 0.3 * c; const cmplx_t a{ar * std::cos(aa), ar * std::sin(aa)};               // spiral start, also |a| != 1
    arr_cmplx x(n); for (int i = 0; i < n; ++i) x[i] = cmplx_t{std::sin(0.9 * i + c), std::cos(0.4 * i * i)};
    arr_cmplx X = czt(x, m, w, a); if (X.size() != m) { std::printf("czt(x[%d], %d): %d points\\n", n, m, X.size()); return 1; }
    for (int k = 0; k < m; ++k) { std::complex<double> s(0, 0), A(a.re, a.im), W(w.re, w.im);
      for (int j = 0; j < n; ++j) s += std::complex<double>(x[j].re, x[j].im) * std::pow(A, -j) * std::pow(W, double(j) * k);
      if (std::abs(std::complex<double>(X[k].re, X[k].im) - s) > 1e-7 * (1 + std::abs(s))) { std::printf("czt(x[%d], m=%d, |a|=%g)[%d] = (%g, %g), defining sum (%g, %g)\\n", n, m, ar, k, X[k].re, X[k].im, s.real(), s.imag()); return 1; } } }
  return 0; }
'''

XCORR = HDR + '''
int main() { for (int n1 = 1; n1 <= 20; ++n1) for (int n2 = 1; n2 <= 20; ++n2) { arr_cmplx a(n1), b(n2); arr_real ar(n1), br(n2);
    for (int i = 0; i < n1; ++i) { ar[i] = std::sin(1.1 * i) + 0.2; a[i] = cmplx_t{ar[i], std::cos(0.7 * i * i)}; } for (int i = 0; i < n2; ++i) { br[i] = std::cos(0.6 * i) - 0.1 * i; b[i] = cmplx_t{br[i], std::sin(1.9 * i)}; }
    arr_cmplx r = xcorr(a, b); arr_real rr = xcorr(ar, br); if (r.size() != n1 + n2 - 1 || rr.size() != n1 + n2 - 1) { std::printf("xcorr(%d, %d): %d lags\\n", n1, n2, r.size()); return 1; }
    for (int k = 0; k < n1 + n2 - 1; ++k) { const int lag = k - (n2 - 1); std::complex<double> s(0, 0); double sr = 0;
      for (int n = 0; n < n2; ++n) { int i = n + lag; if (i < 0 || i >= n1) continue; s += std::complex<double>(a[i].re, a[i].im) * std::conj(std::complex<double>(b[n].re, b[n].im)); sr += ar[i] * br[n]; }
      if (std::abs(std::complex<double>(r[k].re, r[k].im) - s) > 1e-9 * (1 + std::abs(s)) || std::fabs(rr[k] - sr) > 1e-9 * (1 + std::fabs(sr))) {
        std::printf("xcorr(a[%d], b[%d]) at lag %d: (%g, %g), defining sum (%g, %g)\\n", n1, n2, lag, r[k].re, r[k].im, s.real(), s.imag()); return 1; } } }
  return 0; }
'''

DELAYS = HDR + '''
static unsigned S_ = 777; static double rnd() { S_ = S_ * 1664525u + 1013904223u; return ((S_ >> 8) & 0xFFFF) / 32768.0 - 1.0; }
int main() { for (int len : {128, 200, 1000}) { arr_real x(len); for (int i = 0; i < len; ++i) x[i] = rnd();
    for (int d = -len / 4; d <= len / 4; d += (len > 300 ? 37 : 1)) { arr_real y = delayseq(x, d);
      for (int i = 0; i < len; ++i) y[i] += 1e-3 * rnd();
      const int fd = finddelay(x, y); if (fd != d) { std::printf("finddelay(x, delayseq(x, %d)) = %d (len %d)\\n", d, fd, len); return 1; }
      for (int fs : {1, 8000}) { const double tau = gccphat(y, x, fs).tau; if (std::fabs(tau * fs - d) > 0.5) { std::printf("gccphat: shift %d at fs %d located at %g samples (len %d)\\n", d, fs, tau * fs, len); return 1; } } } }
  return 0; }
'''

# property -> [(name, stated bound, program)]
STANDINS = {
    'C01': [('fft against the defining sum', 'every length 1..96, real and complex input, fft(x, n) padded / truncated', replays2.dft_definition({'name': '', 'model': {}})),
            ('czt against its defining sum', 'n = 1..24, m in {1, 2, n, n+3, 2n+1}, four (w, a) pairs including |a| = 0.8', '#include <complex>\n' + CZT)],
    'C02': [('inverse transforms', 'n = 1..64 for ifft / irfft (both input forms, odd n rejected); istft(stft(x)) for nfft in {16, 32}, nwin in {8, 16}',
             replays2.inverse_transforms({'name': '', 'model': {}}))],
    'C07': [('FFT-based filter and correlation against their defining sums', 'FftFilter: 2..33 taps, seven calls of mixed lengths; xcorr: all length pairs 1..20, real and complex',
             replays2.framing_invariance({'name': 'FftFilter::process', 'model': {}})), ('xcorr against its defining sum', 'all length pairs 1..20', '#include <complex>\n' + XCORR)],
    'C10': [('transform results do not depend on the lengths requested before', 'every length 2..130 right after its neighbours, real and complex',
             replays.plan_cache_history({'name': 'create_rfft_plan', 'model': {}})), ('same, complex plans', 'lengths 2..130', replays.plan_cache_history({'name': 'create_fft_plan', 'model': {}}))],
    'C18': [('finddelay / gccphat recover an integer shift of white noise', 'len in {128, 200, 1000}, |d| <= len/4, noise 60 dB down, fs in {1, 8000}', DELAYS)],
}

_O = {'name': '', 'model': {}}
_LONG = replays2.dft_definition({'name': '', 'model': {}}).replace('for (int n = 1; n <= 96; ++n)', 'for (int n = 97; n <= 1536; ++n)')
assert 'n = 97; n <= 1536' in _LONG
STANDINS.setdefault('C01', []).append(('fft against the defining sum, longer lengths', 'every length 97..1536 (each its own factorisation tree / algorithm choice), real and complex input, padded / truncated form', _LONG))
for _p, _name, _bound, _f in (
        ('C08', 'FIRInterpolator / FIRDecimator against the zero-stuff, filter, decimate chain', 'rate 2..5, symmetric coefficient vectors of every length 2..4R+3, 40 input (output) frames', replays3.multirate_chain),
        ('C13', 'welch against the averaged windowed periodograms; mscohere of a scaled copy', 'real input, window lengths and overlaps of the program, levels 1..1e-6', replays3.spectral_estimates),
        ('C14', 'HilbertFilter / hilbert against the analytic-signal definition', 'a mid-band tone, odd and even filter lengths', replays3.analytic_signal),
        ('C16', 'sort / issorted / rank correlation against their definitions', 'every pattern of small inputs enumerated by the program', replays3.order_statistics),
        ('C17', 'norm, rms, mean, stddev against their sums', 'p = 1..5, mixed-sign data', replays3.reductions),
        ('C18', 'PreambleDetector after reset()', 'one 31-sample Zadoff-Chu preamble, a loud previous stream, a quiet stream and a stream with the preamble', replays3.detector_reset),
        ('C19', 'rng(seed) replays the stream on the real <random>, whatever was drawn before', 'odd and even block lengths, two threads', replays3.random_streams),
        ('C19', 'snr / sinad / thd do not depend on the scale of the signal', 'one tone set, levels 1..1e-9', replays3.snr_scale_invariance),
        ('C05', 'snr / sinad / thd of signals without power run into no undefined behaviour', 'all-zero and constant signals of 16, 64, 100 samples (outside the contracts: their precondition is a spectrum with a positive bin)', replays3.snr_degenerate_inputs),
        ('C20', 'compressor attack follows the configured time constant', 'fs = 1000, time constants including non-integer sample counts', replays3.dynamics_time_constants)):
    STANDINS.setdefault(_p, []).append((_name, _bound, _f(_O)))
