"""C03: complex scalar arithmetic (include/dsplib/types.h). The oracle is the textbook field formula,
implemented independently in engine.spec.W (__add__, __mul__, __truediv__, ...)."""
from engine.spec import fn, inline_fn

TU = 'drivers/instantiate.cpp'
C = 'dsplib::cmplx_t::'

# trivial constructors (member initialisers only) are executed as written
inline_fn('dsplib::cmplx_t::cmplx_t')

for op, sym in (('operator+', '+'), ('operator-', '-'), ('operator*', '*'), ('operator/', '/')):
    for rhs_t, tag in (('(const dsplib::cmplx_t &) const', 'c'), ('(const dsplib::real_t &) const', 'r')):
        fn(C + op, TU, sig=rhs_t, serves=['C03'], pure=True,
           body_assumes=['CDIV_DEF()'] if (sym == '/' and tag == 'c') else [],
           ensures=[('field_formula', 'result == this %s rhs' % sym)])
    for rhs_t, tag in (('&(const dsplib::cmplx_t &)', 'c'), ('&(const dsplib::real_t &)', 'r')):
        fn(C + op + '=', TU, sig=rhs_t, serves=['C03'], returns_ref='this', assigns=['this'],
           scenarios=[{'name': 'distinct'}] + ([{'name': 'alias', 'alias': {'rhs': 'this'}}] if tag == 'c' else []),
           ensures=[('compound_equals_binary', 'this == old.this %s old.rhs' % sym)])

fn(C + 'operator-', TU, sig='dsplib::cmplx_t () const', serves=['C03'], pure=True,
   ensures=[('negation', 'result == -this')])
fn(C + 'operator+', TU, sig='const dsplib::cmplx_t &() const', serves=['C03'], returns_ref='this',
   ensures=[('identity', 'result == this')])
fn(C + 'conj', TU, serves=['C03'], pure=True, ensures=[('conj', 'And(result.re == re, result.im == -im)')])
fn(C + 'abs2', TU, serves=['C03'], pure=True, ensures=[('abs2', 'result == re*re + im*im')])
fn(C + 'operator==', TU, serves=['C03'], pure=True, ensures=[('eq', 'result == And(re == rhs.re, im == rhs.im)')])
fn(C + 'operator!=', TU, serves=['C03'], pure=True, ensures=[('ne', 'result == Not(And(re == rhs.re, im == rhs.im))')])
fn(C + 'operator<', TU, serves=['C03'], pure=True,
   ensures=[('lt_by_modulus', 'result == (re*re + im*im < rhs.re*rhs.re + rhs.im*rhs.im)')])
fn(C + 'operator>', TU, serves=['C03'], pure=True,
   ensures=[('gt_by_modulus', 'result == (re*re + im*im > rhs.re*rhs.re + rhs.im*rhs.im)')])
# cmplx_t::operator= is compiler-generated: the executor copies the object memberwise (engine/calls.py)

# left-oriented scalar (op) cmplx_t
for op, sym in (('operator+', '+'), ('operator-', '-'), ('operator*', '*'), ('operator/', '/')):
    fn('dsplib::' + op, TU, sig='(const double &, const dsplib::cmplx_t &)', key='dsplib::%s|real,cmplx' % op,
       serves=['C03'], pure=True, ensures=[('field_formula', 'result == cx(lhs) %s rhs' % sym)])
    fn('dsplib::' + op, TU, sig='(const int &, const dsplib::cmplx_t &)', key='dsplib::%s|int,cmplx' % op,
       serves=['C03'], pure=True, ensures=[('field_formula', 'result == cx(lhs) %s rhs' % sym)])
