"""C01 / C05: fixed-size DFT kernels (lib/fft/small-fft.h, lib/fft/primes-fft.h): exact over the reals.
The oracle is the DFT definition y[k] = sum_m x[m] * W^(m*k mod n) with the n-th root of unity W taken from the code's own
literals; engine/selftest.py checks by exact rational arithmetic that the literals are within 1e-15 of cos/sin."""
from fractions import Fraction
from engine.spec import fn, inline_fn

F = 'lib/fft/fft.cpp'
R8 = Fraction(0.707106781186548)       # the literal used for cos(pi/4) = sin(pi/4)
D3 = Fraction(0.866025403784439)       # the literal used for sin(pi/3)


def fr(q):
    return 'Q(%d, %d)' % (q.numerator, q.denominator)


def roots(n):
    """W^j, j = 0..n-1, as (re, im) strings (W = exp(-2*pi*i/n))"""
    if n == 2:
        return [('1', '0'), ('-1', '0')]
    if n == 4:
        return [('1', '0'), ('0', '-1'), ('-1', '0'), ('0', '1')]
    if n == 8:
        c = fr(R8)
        return [('1', '0'), (c, '-' + c), ('0', '-1'), ('-' + c, '-' + c), ('-1', '0'), ('-' + c, c), ('0', '1'), (c, c)]
    if n == 3:
        d = fr(D3)
        return [('1', '0'), ('Q(-1,2)', '-' + d), ('Q(-1,2)', d)]
    raise ValueError(n)


def dft_post(n, real_input=False):
    w = roots(n)
    out = []
    for k in range(n):
        re, im = [], []
        for m in range(n):
            wr, wi = w[(m * k) % n]
            if real_input:
                re.append('(%s)*x[%d]' % (wr, m))
                im.append('(%s)*x[%d]' % (wi, m))
            else:
                re.append('((%s)*x[%d].re - (%s)*x[%d].im)' % (wr, m, wi, m))
                im.append('((%s)*x[%d].im + (%s)*x[%d].re)' % (wr, m, wi, m))
        out.append(('bin%d' % k, 'And(y[%d].re == %s, y[%d].im == %s)' % (k, ' + '.join(re), k, ' + '.join(im))))
    return out


for cls, real in (('SmallFftPow2C', False), ('SmallFftPow2R', True)):
    for n in (2, 4, 8):
        fn('dsplib::%s::_fft_n%d' % (cls, n), F, serves=['C01', 'C05'], assigns=['y'],
           requires=[('buffers', 'And(x.off == 0, y.off == 0, x.target.len >= %d, y.target.len >= %d)' % (n, n))],
           ensures=dft_post(n, real), loops={1: {'unroll': 5}})

fn('dsplib::PrimesFftC::_dft_n3', F, serves=['C01', 'C05'], assigns=['y'],
   requires=[('buffers', 'And(x.off == 0, y.off == 0, x.target.len >= 3, y.target.len >= 3)')],
   ensures=dft_post(3, False))
