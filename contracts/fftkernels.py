"""C01 / C05: fixed-size DFT kernels (lib/fft/small-fft.h, lib/fft/primes-fft.h): exact over the reals.
The oracle is the DFT definition y[k] = sum_m x[m] * W^(m*k mod n) with the n-th root of unity W taken from the code's own
literals; engine/selftest.py checks by exact rational arithmetic that the literals are within 1e-15 of cos/sin."""
from fractions import Fraction
from engine.spec import fn, inline_fn

F = 'lib/fft/fft.cpp'
R8 = Fraction(0.707106781186548)       # the literal used for cos(pi/4) = sin(pi/4)
D3 = Fraction(0.866025403784439)       # the literal used for sin(pi/3)


def fr(q):
    return 'Q(%d, %d)' % (q.numerator, q.denominator)


def roots(n):
    """W^j, j = 0..n-1, as (re, im) strings (W = exp(-2*pi*i/n))"""
    if n == 2:
        return [('1', '0'), ('-1', '0')]
    if n == 4:
        return [('1', '0'), ('0', '-1'), ('-1', '0'), ('0', '1')]
    if n == 8:
        c = fr(R8)
        return [('1', '0'), (c, '-' + c), ('0', '-1'), ('-' + c, '-' + c), ('-1', '0'), ('-' + c, c), ('0', '1'), (c, c)]
    if n == 3:
        d = fr(D3)
        return [('1', '0'), ('Q(-1,2)', '-' + d), ('Q(-1,2)', d)]
    raise ValueError(n)


def dft_post(n, real_input=False):
    w = roots(n)
    out = []
    for k in range(n):
        re, im = [], []
        for m in range(n):
            wr, wi = w[(m * k) % n]
            if real_input:
                re.append('(%s)*x[%d]' % (wr, m))
                im.append('(%s)*x[%d]' % (wi, m))
            else:
                re.append('((%s)*x[%d].re - (%s)*x[%d].im)' % (wr, m, wi, m))
                im.append('((%s)*x[%d].im + (%s)*x[%d].re)' % (wr, m, wi, m))
        out.append(('bin%d' % k, 'And(y[%d].re == %s, y[%d].im == %s)' % (k, ' + '.join(re), k, ' + '.join(im))))
    return out


for cls, real in (('SmallFftPow2C', False), ('SmallFftPow2R', True)):
    for n in (2, 4, 8):
        fn('dsplib::%s::_fft_n%d' % (cls, n), F, serves=['C01', 'C05'], assigns=['y'],
           requires=[('buffers', 'And(x.off == 0, y.off == 0, x.target.len >= %d, y.target.len >= %d)' % (n, n))],
           ensures=dft_post(n, real), loops={1: {'unroll': 5}})

fn('dsplib::PrimesFftC::_dft_n3', F, serves=['C01', 'C05'], assigns=['y'],
   requires=[('buffers', 'And(x.off == 0, y.off == 0, x.target.len >= 3, y.target.len >= 3)')],
   ensures=dft_post(3, False))

# ---------------------------------------------------------------------------------------------------
# direct DFT for small primes: y[k] = sum_i x[i] * tw[(i*k) mod n] for every n <= 41 (unbounded in the data, symbolic n)
import z3 as _z3
from engine.specfun import NS as _SF

ENV = dict(_SF)


def modadd(a, k, n):
    """(a + k) mod n from a mod n, for a >= 0, 0 <= k < n (lemma about the mathematical mod; engine/selftest.py)"""
    return _z3.Implies(_z3.And(a >= 0, 0 <= k, k < n), (a + k) % n == _z3.If(a % n + k < n, a % n + k, a % n + k - n))


ENV['MODADD'] = modadd
XR, XI, TR, TI = 're_data(x.target)', 'im_data(x.target)', 're_data(tw.target)', 'im_data(tw.target)'
CTWA = '%s, %s, %s, %s' % (XR, XI, TR, TI)
BIN0 = 'And(y[0].re == SUMR(%s, %%s), y[0].im == SUMR(%s, %%s))' % (XR, XI)
DONE = ('forall(lambda t: Implies(And(1 <= t, t < %%s), And(y[t].re == CTW_RE(%s, n, t, n), y[t].im == CTW_IM(%s, n, t, n))))'
        % (CTWA, CTWA))
ZERO = 'forall(lambda t: Implies(And(%s <= t, t < n), And(y[t].re == 0, y[t].im == 0)))'

fn('dsplib::PrimesFftC::_dft_slow', F, serves=['C01', 'C05'], assigns=['y'], extra_env=ENV,
   requires=[('buffers', 'And(x.off == 0, y.off == 0, tw.off == 0, n >= 1, n <= 41, x.target.len >= n, y.target.len >= n, tw.target.len >= n)')],
   ensures=[('bin0', BIN0 % ('n', 'n')), ('bins', DONE % 'n')],
   loops={1: {'facts': ['SUMR_BASE(%s)' % XR, 'SUMR_BASE(%s)' % XI, 'SUMR_STEP(%s, i)' % XR, 'SUMR_STEP(%s, i)' % XI],
              'inv': [('acc0', BIN0 % ('i', 'i')), ('rest0', ZERO % '1')]},
          2: {'inv': [('bin0', BIN0 % ('n', 'n')), ('done', DONE % 'k'), ('rest', ZERO % 'k')]},
          3: {'facts': ['CTW_BASE(%s, n, k)' % CTWA, 'CTW_STEP(%s, n, k, i)' % CTWA, 'MODADD(i * k, k, n)'],
              'inv': [('twiddle', 'And(iw == (i * k) % n, 0 <= iw, iw < n)'),
                      ('bin0', BIN0 % ('n', 'n')), ('done', DONE % 'k'),
                      ('acc', 'And(y[k].re == CTW_RE(%s, n, k, i), y[k].im == CTW_IM(%s, n, k, i))' % (CTWA, CTWA)),
                      ('rest', ZERO % 'k + 1')]}})

# ---------------------------------------------------------------------------------------------------
# prime-size plan: dispatch (3-point kernel / table DFT up to 41 / chirp-z above) and rejection of other lengths
fn('dsplib::CztPlan::solve', F, key='CztPlan::solve#outside-czt.cpp', serves=['C01'], trusted=True, pure=True,
   ensures=[('length', 'result.len == x.len')],
   notes='abstraction across translation units: CztPlanImpl is an incomplete type outside lib/fft/czt.cpp, so the invariant proved there (contracts/czt.py: a plan '
         'built as CztPlan(n, m, w) maps n samples to m points) is restated here for n = m as a length clause')
from contracts.mathfun import LIBM as _LIBM
ENV.update({k: v for k, v in _LIBM.items() if k not in ENV})
fn('dsplib::CztPlan::CztPlan', F, key='CztPlan::CztPlan#outside-czt.cpp', serves=['C01'], trusted=True, assigns=['this'], may_throw=True,
   notes='abstraction across translation units: outside lib/fft/czt.cpp the constructor is only known to touch nothing but the new object (proved there: contracts/czt.py)')
PR_OK = 'And(n_ >= 3, Implies(n_ <= 41, w_.len == n_))'
fn('dsplib::PrimesFftC::PrimesFftC', F, key='PrimesFftC::PrimesFftC', serves=['C10', 'C01', 'C05'], assigns=['this'], may_throw=True, extra_env=ENV,
   requires=[('size', 'And(n >= -1073741824, n <= 1073741824)')],
   ensures=[('invariant', PR_OK), ('size', 'n_ == n'), ('prime_at_least_3', 'n_ >= 3'),
            ('twiddle_table', 'Implies(n <= 41, And(w_.len == n, forall(lambda k: Implies(And(0 <= k, k < n), '
                              'And(w_[k].re == COS(-2 * PI * ToReal(k) / ToReal(n)), w_[k].im == SIN(-2 * PI * ToReal(k) / ToReal(n)))))))')])
WR, WI = 're_data(w_)', 'im_data(w_)'
CTWW = '%s, %s, %s, %s' % (XR, XI, WR, WI)
fn('dsplib::PrimesFftC::_dft', F, serves=['C01', 'C05'], assigns=['y'], extra_env=ENV,
   requires=[('invariant', PR_OK), ('buffers', 'And(x.off == 0, y.off == 0, n >= 0, x.target.len >= n, y.target.len >= n)')],
   throws='n != n_',
   ensures=[('table_dft', 'Implies(And(n_ > 3, n_ <= 41), And(' + (BIN0 % ('n', 'n')) + ', ' + (DONE % 'n').replace(CTWA, CTWW) + '))')]
   + [(nm, 'Implies(n_ == 3, %s)' % e) for nm, e in dft_post(3, False)])
fn('dsplib::PrimesFftC::solve', F, sig='(const dsplib::cmplx_t *', key='PrimesFftC::solve(ptr)', serves=['C01', 'C05'], assigns=['y'], extra_env=ENV,
   requires=[('invariant', PR_OK), ('buffers', 'And(x.off == 0, y.off == 0, n >= 0, x.target.len >= n, y.target.len >= n)')],
   throws='n != n_')
fn('dsplib::PrimesFftC::solve', F, sig='(const dsplib::arr_cmplx &) const', key='PrimesFftC::solve(arr)', serves=['C01', 'C05', 'C09'], pure=True, extra_env=ENV,
   requires=[('invariant', PR_OK)], throws='x.len != n_', ensures=[('length', 'result.len == n_')])

# ---------------------------------------------------------------------------------------------------
# small power-of-two plans: dispatch on the plan size, rejection of other input lengths
SIZES = 'Or(n_ == 1, n_ == 2, n_ == 4, n_ == 8)'


def small_post(real, out='y', inp='x'):
    post = [('bin_n1', 'Implies(n_ == 1, And(%s[0].re == %s, %s[0].im == %s))' % ((out, inp + '[0]', out, '0') if real else (out, inp + '[0].re', out, inp + '[0].im')))]
    for n in (2, 4, 8):
        for nm, e in dft_post(n, real):
            e = e.replace('y[', out + '[').replace('x[', inp + '[')
            post.append(('n%d_%s' % (n, nm), 'Implies(n_ == %d, %s)' % (n, e)))
    return post


for cls, real, et in (('SmallFftPow2C', False, 'cmplx_t'), ('SmallFftPow2R', True, 'real_t')):
    fn('dsplib::%s::%s' % (cls, cls), F, serves=['C01', 'C05'], assigns=['this'], throws='Not(And(n >= 1, n <= 8))', ensures=[('size', 'n_ == n')])
    fn('dsplib::%s::solve' % cls, F, sig='*, dsplib::cmplx_t *, int) const', key=cls + '::solve(ptr)', serves=['C01', 'C05'], assigns=['y'],
       requires=[('buffers', 'And(x.off == 0, y.off == 0, n >= 0, x.target.len >= n, y.target.len >= n)')],
       throws='Or(n != n_, Not(%s))' % SIZES, ensures=small_post(real))
    fn('dsplib::%s::solve' % cls, F, sig='&) const', key=cls + '::solve(arr)', serves=['C01', 'C05', 'C09'], pure=True,
       throws='Or(x.len != n_, Not(%s))' % SIZES, ensures=[('length', 'result.len == n_')] + small_post(real, 'result', 'x'))
