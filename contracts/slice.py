"""C04: slices (include/dsplib/slice.h, iterator.h)"""
from engine.spec import fn

TU = 'drivers/instantiate.cpp'

SLICE_LETS = {
    'a': 'If(i1 < 0, n + i1, i1)',
    'b': 'If(i2 < 0, n + i2, i2)',
}

fn('dsplib::base_slice_t::base_slice_t', TU, sig='(int, int, int, int)', serves=['C04', 'C05'],
   requires=['n >= 0'],
   lets=SLICE_LETS,
   throws='Or(n == 0, m == 0, a < 0, a >= n, b < 0, b > n, And(m < 0, a < b), And(m > 0, a > b))',
   ensures=[
       ('resolved', 'And(_i1 == a, _i2 == b, _m == m, _n == n)'),
       ('count_pos', 'Implies(m > 0, And(_nc >= 0, a + _nc*m >= b, Or(_nc == 0, a + (_nc-1)*m < b)))'),
       ('count_neg', 'Implies(m < 0, And(_nc >= 0, a + _nc*m <= b, Or(_nc == 0, a + (_nc-1)*m > b)))'),
       ('in_range', 'forall(lambda k: Implies(And(0 <= k, k < _nc), And(0 <= a + k*m, a + k*m < n)))'),
   ],
   assigns=['this'])

# ---------------------------------------------------------------------------------------------------
from engine.spec import inline_fn, BASE_NS
import z3 as _z3

SL = 'dsplib::slice_t<*>::'
CSL = 'dsplib::const_slice_t<*>::'
IT = 'dsplib::SliceIterator<*>::'

inline_fn(SL + 'size', SL + 'stride', SL + 'begin', SL + 'end', CSL + 'size', CSL + 'stride', CSL + 'begin',
          CSL + 'end', IT + 'SliceIterator', IT + 'operator*', IT + 'operator++', IT + 'operator->',
          'dsplib::operator==', 'dsplib::operator!=', 'dsplib::indexing::end_t::end_t')


def slice_ok(s, n):
    """representation invariant of a slice object over a base array of length n: what base_slice_t's
    constructor establishes (resolved indices in range, count = Python's len(range(a, b, m)))"""
    a, b, m, nc = s._i1, s._i2, s._m, s._nc
    k = _z3.Int('k!sok')
    return _z3.And(s._n == n, n > 0, m != 0, 0 <= a, a < n, 0 <= b, b <= n, nc >= 0,
                   _z3.Implies(m > 0, _z3.And(a <= b, a + nc * m >= b, _z3.Or(nc == 0, a + (nc - 1) * m < b))),
                   _z3.Implies(m < 0, _z3.And(a >= b, a + nc * m <= b, _z3.Or(nc == 0, a + (nc - 1) * m > b))),
                   _z3.ForAll([k], _z3.Implies(_z3.And(0 <= k, k < nc), _z3.And(0 <= a + k * m, a + k * m < n))))


def same_slice(s, r):
    return _z3.And(s._i1 == r._i1, s._m == r._m, s._nc == r._nc)


def written(s, j):
    """index j of the base array is one of the slice's positions"""
    from engine.spec import INSLICE
    return INSLICE(s._i1, s._m, s._nc, j)


ENV = {'slice_ok': slice_ok, 'same_slice': same_slice, 'written': written}

# constructors from an array: resolve through base_slice_t's contract, bind the array
for cls, arr in (('dsplib::slice_t<*>::slice_t', '(base_array<'), ('dsplib::const_slice_t<*>::const_slice_t', '(const base_array<')):
    fn(cls, TU, sig=arr, serves=['C04'], extra_env=ENV, lets={'n': 'arr.len', **SLICE_LETS},
       throws='Or(n == 0, m == 0, a < 0, a >= n, b < 0, b > n, And(m < 0, a < b), And(m > 0, a > b))',
       ensures=[('invariant', 'slice_ok(this, arr.len)'),
                ('resolved', 'And(_i1 == a, _i2 == b, _m == m)')],
       binds={'_base': 'arr'}, assigns=['this'])

# copies of a slice denote the same elements and never throw
for cls, sig in (('dsplib::slice_t<*>::slice_t', '(const dsplib::slice_t<'),
                 ('dsplib::const_slice_t<*>::const_slice_t', '(const dsplib::const_slice_t<'),
                 ('dsplib::const_slice_t<*>::const_slice_t', '(const slice_t<')):
    fn(cls, TU, sig=sig, serves=['C04'], extra_env=ENV,
       requires=['slice_ok(rhs, rhs._base.len)'],
       throws='False',
       ensures=[('same_elements', 'same_slice(this, rhs)'), ('invariant', 'slice_ok(this, _base.len)')],
       binds={'_base': 'rhs._base'}, assigns=['this'])

# ---------------------------------------------------------------------------------------------------
# assignments through a slice: exactly the slice's positions are written, nothing else, equal counts
# required, overlap inside one array behaves as if the source had been copied first
ASSIGN_POST = [
    ('length', '_base.len == old._base.len'),
    ('written', 'forall(lambda k: Implies(And(0 <= k, k < _nc), _base[_i1 + k*_m] == SRC(k)))'),
    # the same fact indexed by array position for unit stride (a consequence of 'written', stated because it is the form a
    # solver can instantiate by matching on _base[j])
    ('written_unit', 'Implies(_m == 1, forall(lambda j: Implies(And(_i1 <= j, j < _i1 + _nc), _base[j] == SRC((j - _i1)))))'),
    ('others', 'forall(lambda j: Implies(And(0 <= j, j < _base.len, Not(written(this, j))), _base[j] == old._base[j]))'),
    ('slice_unchanged', 'same_slice(this, old.this)'),
]


def _post(src):
    import re as _re
    srcj = _re.sub(r'\bk\b', '(j - _i1)', src)
    return [(lab, e.replace('SRC(k)', src).replace('SRC((j - _i1))', srcj)) for lab, e in ASSIGN_POST]


fn(SL + 'operator=', TU, sig='(const const_slice_t<', key='slice_t::operator=(const_slice)', serves=['C04', 'C05'],
   extra_env=ENV, returns_ref='this', assigns=['this._base'], body_assumes=['INSLICE_AX()'], chain=True,
   requires=['slice_ok(this, _base.len)', 'slice_ok(rhs, rhs._base.len)'],
   scenarios=[{'name': 'distinct'}, {'name': 'same_array', 'ref_alias': {'rhs._base': 'ext_this__base'}}],
   throws='_nc != rhs._nc',
   ensures=_post('old.rhs._base[rhs._i1 + k*rhs._m]'))

fn(SL + 'operator=', TU, sig='(const slice_t<', key='slice_t::operator=(slice)', serves=['C04', 'C05'],
   extra_env=ENV, returns_ref='this', assigns=['this._base'], body_assumes=['INSLICE_AX()'], chain=True,
   requires=['slice_ok(this, _base.len)', 'slice_ok(rhs, rhs._base.len)'],
   scenarios=[{'name': 'distinct'}, {'name': 'same_array', 'ref_alias': {'rhs._base': 'ext_this__base'}}],
   throws='_nc != rhs._nc',
   ensures=_post('old.rhs._base[rhs._i1 + k*rhs._m]'))

fn(SL + 'operator=', TU, sig='(const base_array<', key='slice_t::operator=(array)', serves=['C04', 'C05'],
   extra_env=ENV, returns_ref='this', assigns=['this._base'], body_assumes=['INSLICE_AX()'], chain=True,
   requires=['slice_ok(this, _base.len)'],
   scenarios=[{'name': 'distinct'}],
   throws='_nc != rhs.len',
   ensures=_post('rhs[k]'))

fn(SL + 'operator=', TU, sig='(const double &)', key='slice_t::operator=(real scalar)', serves=['C04', 'C05'],
   extra_env=ENV, returns_ref='this', assigns=['this._base'], body_assumes=['INSLICE_AX()'], chain=True,
   requires=['slice_ok(this, _base.len)'], throws='False',
   ensures=_post('value'))
fn(SL + 'operator=', TU, sig='(const dsplib::cmplx_t &)', key='slice_t::operator=(cmplx scalar)', serves=['C04', 'C05'],
   extra_env=ENV, returns_ref='this', assigns=['this._base'], body_assumes=['INSLICE_AX()'], chain=True,
   requires=['slice_ok(this, _base.len)'], throws='False',
   ensures=_post('value'))

fn(SL + 'operator=', TU, sig='(const std::initializer_list<', key='slice_t::operator=(list)', serves=['C04', 'C05'],
   extra_env=ENV, returns_ref='this', assigns=['this._base'], body_assumes=['INSLICE_AX()'], chain=True,
   requires=['slice_ok(this, _base.len)'],
   throws='_nc != rhs.len',
   ensures=_post('rhs[k]'))

# materialisation
for sig, nm in (('(const const_slice_t<', 'const_slice'), ('(const slice_t<', 'slice')):
    fn('dsplib::base_array<*>::base_array', TU, sig=sig, key='base_array(%s)' % nm, serves=['C04', 'C05'],
       extra_env=ENV, assigns=['this'],
       requires=['slice_ok(rhs, rhs._base.len)'], throws='False',
       ensures=[('length', 'this.len == rhs._nc'),
                ('elements', 'forall(lambda k: Implies(And(0 <= k, k < rhs._nc), this[k] == rhs._base[rhs._i1 + k*rhs._m]))')])

for cls in ('slice_t', 'const_slice_t'):
    fn('dsplib::%s<*>::operator*' % cls, TU, key=cls + '::operator*', serves=['C04'], extra_env=ENV, pure=True,
       requires=['slice_ok(this, _base.len)'], throws='False',
       ensures=[('length', 'result.len == _nc'),
                ('elements', 'forall(lambda k: Implies(And(0 <= k, k < _nc), result[k] == _base[_i1 + k*_m]))')])
