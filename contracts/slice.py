"""C04: slices (include/dsplib/slice.h, iterator.h)"""
from engine.spec import fn

TU = 'drivers/instantiate.cpp'

SLICE_LETS = {
    'a': 'If(i1 < 0, n + i1, i1)',
    'b': 'If(i2 < 0, n + i2, i2)',
}

fn('dsplib::base_slice_t::base_slice_t', TU, sig='(int, int, int, int)', serves=['C04', 'C05'],
   requires=['n >= 0'],
   lets=SLICE_LETS,
   throws='Or(n == 0, m == 0, a < 0, a >= n, b < 0, b > n, And(m < 0, a < b), And(m > 0, a > b))',
   ensures=[
       ('resolved', 'And(_i1 == a, _i2 == b, _m == m, _n == n)'),
       ('count_pos', 'Implies(m > 0, And(_nc >= 0, a + _nc*m >= b, Or(_nc == 0, a + (_nc-1)*m < b)))'),
       ('count_neg', 'Implies(m < 0, And(_nc >= 0, a + _nc*m <= b, Or(_nc == 0, a + (_nc-1)*m > b)))'),
       ('in_range', 'forall(lambda k: Implies(And(0 <= k, k < _nc), And(0 <= a + k*m, a + k*m < n)))'),
   ],
   assigns=['this'])
