// Names template instantiations only; contains no logic. It makes clang's AST contain the instantiated
// bodies of dsplib's header-only templates (the same code every user TU instantiates).
#include <dsplib.h>
#include "ma-filter.h"

namespace dsplib {
template class base_array<real_t>;
// base_array<cmplx_t> cannot be instantiated explicitly: its unary operator-() does not compile
// (base_array<T> r{_vec} selects the initializer_list constructor for T = cmplx_t); members are named below.
template class const_slice_t<real_t>;
template class slice_t<real_t>;
template class const_slice_t<cmplx_t>;
template class slice_t<cmplx_t>;
template struct SliceIterator<real_t>;
template struct SliceIterator<const real_t>;
template struct SliceIterator<cmplx_t>;
template struct SliceIterator<const cmplx_t>;
}   // namespace dsplib

namespace verif_driver {
using namespace dsplib;

// member-template operators: one use per (array type, operand type) combination
void ops_rr(arr_real& a, const arr_real& b, real_t s) {
    a += b; a -= b; a *= b; a /= b; a += s; a -= s; a *= s; a /= s;
    (void)(a + b); (void)(a - b); (void)(a * b); (void)(a / b);
    (void)(a + s); (void)(a - s); (void)(a * s); (void)(a / s);
    (void)(s + a); (void)(s - a); (void)(s * a); (void)(s / a);
    a |= b; (void)(a | b);
}
void ops_cc(arr_cmplx& a, const arr_cmplx& b, cmplx_t s) {
    a += b; a -= b; a *= b; a /= b; a += s; a -= s; a *= s; a /= s;
    (void)(a + b); (void)(a - b); (void)(a * b); (void)(a / b);
    (void)(a + s); (void)(a - s); (void)(a * s); (void)(a / s);
    (void)(s + a); (void)(s - a); (void)(s * a); (void)(s / a);
    a |= b; (void)(a | b);
}
void ops_cr(arr_cmplx& a, const arr_real& b, real_t s) {
    a += b; a -= b; a *= b; a /= b; a += s; a -= s; a *= s; a /= s;
    (void)(a + b); (void)(a - b); (void)(a * b); (void)(a / b);
    (void)(a + s); (void)(a - s); (void)(a * s); (void)(a / s);
    (void)(s + a); (void)(s - a); (void)(s * a); (void)(s / a);
    (void)(a | b);
}
void ops_rc(const arr_real& a, const arr_cmplx& b, cmplx_t s) {
    (void)(a + b); (void)(a - b); (void)(a * b); (void)(a / b);
    (void)(a + s); (void)(a - s); (void)(a * s); (void)(a / s);
    (void)(s + a); (void)(s - a); (void)(s * a); (void)(s / a);
    (void)(a | b);
}
void ops_int(const arr_real& a, const arr_cmplx& c, int k) {
    (void)(a + k); (void)(a * k); (void)(k * a); (void)(k - a); (void)(k / a); (void)(c * k); (void)(k * c);
}
void scalars(cmplx_t a, cmplx_t b, real_t s, int k) {
    (void)(s + a); (void)(s - a); (void)(s * a); (void)(s / a); (void)(k + a); (void)(k - a); (void)(k * a); (void)(k / a);
}
void members_c(arr_cmplx& a, const arr_cmplx& b, const std::vector<bool>& m, const std::vector<int>& ix) {
    (void)a[0]; (void)b[0]; (void)a[size_t(0)]; (void)b[size_t(0)]; (void)b[m]; (void)b[ix]; (void)a(0); (void)b(0);
    (void)a.slice(0, 1, 1); (void)b.slice(0, 1, 1); (void)a.slice(0, indexing::end); (void)b.slice(0, indexing::end);
    (void)a.size(); (void)a.data(); (void)b.data(); (void)a.empty(); (void)(b == b); (void)(b != b); (void)(b == cmplx_t{});
    arr_cmplx c(b.slice(0, 1)); arr_cmplx d(a.slice(0, 1)); arr_cmplx e(3); arr_cmplx f(b); f = b; f = std::move(e);
    (void)b.to_vec(); (void)+b;
}
void utils(const arr_real& a, const arr_cmplx& c) {
    (void)concatenate(a, a, a); (void)concatenate(c, c); (void)zeropad(a, 4); (void)zeropad(c, 4); (void)delayseq(a, 1);
    (void)arange(0, 10, 3); (void)arange(10); (void)arange(0.0, 1.0, 0.1);
}
void audio() {
    Compressor c; (void)c.process(arr_real(4)); Limiter l; (void)l.process(arr_real(4)); NoiseGate g; (void)g.process(arr_real(4));
}
void stateful() {
    LmsFilter<real_t> l1(4, 0.1); LmsFilter<cmplx_t> l2(4, 0.1);
    RlsFilter<real_t> r1(4); RlsFilter<cmplx_t> r2(4);
    (void)l1.process(arr_real(4), arr_real(4)); (void)l2.process(arr_cmplx(4), arr_cmplx(4));
    (void)r1.process(arr_real(4), arr_real(4)); (void)r2.process(arr_cmplx(4), arr_cmplx(4));
    FirFilter<real_t> f1(arr_real(4)); (void)f1.process(arr_real(4)); FirFilter<cmplx_t> f2(arr_cmplx(4)); (void)f2.process(arr_cmplx(4));
    MAFilter<real_t> m1(4); (void)m1.process(arr_real(4)); (void)m1.process(real_t(1)); MAFilter<cmplx_t> m2(4); (void)m2.process(arr_cmplx(4));
    Delay<real_t> d1(3); (void)d1.process(arr_real(4)); Delay<cmplx_t> d2(3); (void)d2.process(arr_cmplx(4));
}
}   // namespace verif_driver
