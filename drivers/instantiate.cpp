// Names template instantiations only; contains no logic. Used so that clang's AST contains the
// instantiated bodies of header-only templates of dsplib.
#include <dsplib.h>
