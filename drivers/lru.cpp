// Names one template instantiation only; contains no logic. LRUCache<Key, Value> never inspects a Value (it copies it in
// and hands out a reference), so the instantiation with Value = int runs the same statements as the two the library
// uses (Value = std::shared_ptr<BaseFftPlanC|R>); the contracts in contracts/lru.py are proved on this one.
#include <dsplib/assert.h>
#include "lru-cache.h"

namespace dsplib {
template class LRUCache<int, int>;
}   // namespace dsplib
