#!/bin/sh
exit 0
