#!/bin/sh
# offline setup: check tools, generate defs.h, warm the AST cache, build the sanitizer library used by replays
set -e
cd "$(dirname "$0")"
clang++ --version >/dev/null
python3-vt -c "import z3; print('z3', z3.get_version_string())"
python3-vt - <<'PY'
import sys
sys.path.insert(0, '.')
from engine import astdb, run
from engine import spec as S
run.load_contracts()
tus = sorted({S.REGISTRY[k].tu for k in S.ORDER if S.REGISTRY[k].tu})
import multiprocessing as mp
with mp.Pool(8) as p:
    p.map(astdb.load_tu_quiet, tus)
print('AST cache warmed for', len(tus), 'translation units')
PY
PYTHONHASHSEED=0 python3-vt engine/selftest.py | tail -1
