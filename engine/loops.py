"""Loops are cut by inductive invariants taken from the contract of the enclosing function (keyed by
loop ordinal in source order); canonical counting loops get their range invariant and variant inferred."""
import z3

from .values import (SVal, VecVal, PtrVal, RefVal, Opaque, Path, Unsupported, fresh, select, store, tmap)
from . import spec as S
from .core import ThrowSignal, ReturnSignal, BreakSignal, ContinueSignal, PathEnd, SpecError
from .calls import strip_casts, fresh_like, OldNS, callee_ref

LOOP_KINDS = ('ForStmt', 'WhileStmt', 'DoStmt', 'CXXForRangeStmt')
MUTATING_STD = {'push_back', 'emplace_back', 'reserve', 'assign', 'insert', 'resize', 'clear', 'swap', 'flip',
                'pop_back', 'erase', 'operator=', 'operator+=', 'operator-=', 'operator*=', 'operator/=',
                'operator|=', 'operator++', 'operator--', 'emplace', 'push_front', 'splice', 'put'}


def number_loops(fnode):
    out = {}

    def walk(n):
        if not isinstance(n, dict):
            return
        if n.get('kind') in LOOP_KINDS:
            out[n['id']] = len(out) + 1
        if n.get('kind') == 'LambdaExpr':
            return
        for c in n.get('inner', ()):
            walk(c)
    walk(fnode)
    return out


class Loops:
    def __init__(self):
        self.stack = []

    def enter_function(self, ex, fnode):
        self.stack.append(number_loops(fnode))

    def leave_function(self, ex):
        self.stack.pop()

    def ordinal(self, n):
        return self.stack[-1].get(n['id'])

    # ------------------------------------------------------------------------------------------
    def modified(self, ex, nodes):
        """syntactic over-approximation of what a loop may modify: list of (Path, elements_only)"""
        mods = []
        local_inits = {}

        def collect(n):
            if isinstance(n, dict):
                if n.get('kind') == 'VarDecl' and n.get('inner'):
                    local_inits[n['id']] = n['inner'][-1]
                for c in n.get('inner', ()):
                    collect(c)
        for nd in nodes:
            if nd:
                collect(nd)

        def base(e, elem=False):
            e = strip_casts(e)
            k = e.get('kind')
            if k == 'DeclRefExpr':
                rid = e['referencedDecl']['id']
                if rid in ex.bindings:
                    return ex.resolve(ex.bindings[rid]), elem
                if rid not in ex.store:
                    # declared inside the loop: pointers / references alias what they were initialised from
                    t = e.get('type', {}).get('qualType', '')
                    rt = e['referencedDecl'].get('type', {}).get('qualType', '')
                    if rid in local_inits and ('*' in rt or '&' in rt):
                        return base(local_inits[rid], elem or ('*' in rt))
                    return None, elem
                v = ex.store[rid]
                if isinstance(v, RefVal):
                    return ex.resolve(v.path), elem
                if isinstance(v, PtrVal) and elem:
                    return (v.path, True)
                return Path(rid), elem
            if k == 'MemberExpr':
                b = e['inner'][0]
                if strip_casts(b).get('kind') == 'CXXThisExpr':
                    return ex.resolve(ex.this_path.field(e['name'])), elem
                bp, el = base(b, elem)
                if bp is None:
                    return None, elem
                if el:
                    return bp, True
                return ex.resolve(bp.field(e['name'])), elem
            if k == 'ArraySubscriptExpr':
                return base(e['inner'][0], True)
            if k == 'UnaryOperator' and e.get('opcode') == '*':
                return base(e['inner'][0], True)
            if k == 'UnaryOperator' and e.get('opcode') in ('++', '--'):
                return base(e['inner'][0], elem)
            if k in ('CXXOperatorCallExpr',):
                r = callee_ref(e)
                if r.get('name') in ('operator[]', 'operator()'):
                    return base(e['inner'][1], True)
                if r.get('name') in ('operator*',):
                    return base(e['inner'][1], True)
                return base(e['inner'][1], elem) if len(e['inner']) > 1 else (None, elem)
            if k == 'CXXMemberCallExpr':
                m = strip_casts(e['inner'][0])
                if m.get('kind') == 'MemberExpr':
                    if m.get('name') in ('data', 'begin', 'end'):
                        return base(m['inner'][0], True)
                    return base(m['inner'][0], elem)
            if k == 'BinaryOperator' and e.get('opcode') in ('+', '-'):
                a, b = e['inner']
                if 'ptr' == ex.ctype(a)[0] or '*' in a.get('type', {}).get('qualType', ''):
                    return base(a, elem)
                return base(b, elem)
            if k == 'CXXThisExpr':
                return ex.this_path, elem
            if k in ('ConditionalOperator',):
                return None, elem
            return None, elem

        def add(e, elem=False):
            p, el = base(e, elem)
            if p is not None:
                mods.append((p, el))

        def is_const_method(decl, name):
            if name in ('data', 'begin', 'end', 'cbegin', 'cend', 'size', 'empty', 'operator[]', 'operator()',
                        'slice', 'to_vec', 'at', 'front', 'back', 'coeffs'):
                return True     # accessors: writes through what they return are tracked at the write
            if decl is not None:
                t = decl.get('type', {}).get('qualType', '')
                return t.rstrip().endswith('const') or ') const' in t
            return name not in MUTATING_STD

        def walk(n):
            if not isinstance(n, dict):
                return
            k = n.get('kind')
            if k == 'LambdaExpr':
                return
            if k == 'BinaryOperator' and n.get('opcode') == '=':
                add(n['inner'][0])
            elif k == 'CompoundAssignOperator':
                add(n['inner'][0])
            elif k == 'UnaryOperator' and n.get('opcode') in ('++', '--'):
                add(n['inner'][0])
            elif k == 'CXXOperatorCallExpr':
                r = callee_ref(n)
                nm = r.get('name', '')
                decl = ex.tu.decls.get(r.get('id'))
                if nm in ('operator=', 'operator+=', 'operator-=', 'operator*=', 'operator/=', 'operator|=',
                          'operator++', 'operator--'):
                    add(n['inner'][1])
                elif nm in ('operator[]', 'operator()', 'operator*', 'operator->'):
                    pass
                self_args(n, decl, n['inner'][1:] if r.get('kind') != 'CXXMethodDecl' else n['inner'][2:])
            elif k == 'CXXMemberCallExpr':
                m = strip_casts(n['inner'][0])
                if m.get('kind') == 'MemberExpr':
                    decl = ex.tu.decls.get(m.get('referencedMemberDecl'))
                    if not is_const_method(decl, m.get('name')):
                        c2 = S.lookup(decl['_qual'], decl['type']['qualType'], decl.get('_targs')) if decl is not None and decl.get('_qual') else None
                        objp, _ = base(m['inner'][0])
                        if c2 is not None and not c2.inline and objp is not None:
                            # the callee's frame clause says which parts of the object it may modify
                            for a in c2.assigns:
                                parts = a.rstrip('!').split('.')
                                if parts[0] == 'this':
                                    pp = objp
                                    for f_ in parts[1:]:
                                        pp = pp.field(f_)
                                    mods.append((ex.resolve(pp), False))
                        else:
                            add(m['inner'][0])
                    self_args(n, decl, n['inner'][1:])
            elif k == 'CallExpr':
                r = callee_ref(n)
                decl = ex.tu.decls.get(r.get('id'))
                self_args(n, decl, n['inner'][1:])
                nm_ = r.get('name')
                if nm_ in ('memcpy', 'memmove', 'memset', 'copy', 'fill', 'reverse', 'swap', 'advance', 'sort', 'nth_element'):
                    # which arguments designate what is written: the destination of the copies, the range of the in-place ones
                    args_ = n['inner'][1:]
                    written = {'memcpy': args_[:1], 'memmove': args_[:1], 'memset': args_[:1], 'copy': args_[2:3], 'fill': args_[:2],
                               'advance': args_[:1]}.get(nm_, args_)
                    if nm_ in ('reverse', 'sort', 'nth_element'):
                        written = args_[:3] if nm_ == 'nth_element' else args_[:2]
                    for a in written:
                        add(a, True)
            for c in n.get('inner', ()):
                walk(c)

        def self_args(n, decl, args):
            if decl is None:
                return
            from .calls import params_of
            ps = params_of(decl)
            for p, a in zip(ps, args):
                t = p['type']['qualType']
                if ('&' in t or '*' in t) and 'const' not in t.split('&')[0].split('*')[0]:
                    add(a, '*' in t)

        for nd in nodes:
            if nd:
                walk(nd)
        # ghost variables updated by hooks on operations occurring in the loop
        c = ex.cur_contract
        if c is not None and c.ghost_on and ex.cur_fnode is ex.fnode:
            text = []

            def names_in(n):
                if isinstance(n, dict):
                    if n.get('kind') == 'MemberExpr':
                        text.append(n.get('name'))
                    for ch in n.get('inner', ()):
                        names_in(ch)
            for nd in nodes:
                if nd:
                    names_in(nd)
            for meth, var, updates in c.ghost_on:
                if meth in text:
                    for g in updates:
                        mods.append((Path('ghost_' + g), False))
        # dedupe
        out = []
        for p, el in mods:
            dup = False
            for i, (q, e2) in enumerate(out):
                if p.same(q):
                    out[i] = (q, e2 and el)
                    dup = True
                    break
            if not dup:
                out.append((p, el))
        return out

    def havoc(self, ex, mods, tag):
        for p, elem_only in mods:
            try:
                cur = ex.read(p)
            except Unsupported:
                continue
            if isinstance(cur, PtrVal):
                if elem_only:
                    tgt = ex.read(cur.path)
                    ex.write(cur.path, self.havoc_elems(ex, tgt, tag))
                else:
                    ex.write(p, PtrVal(cur.path, z3.Int(ex.fresh_name(tag + '_off')), cur.el))
                continue
            if elem_only:
                ex.write(p, self.havoc_elems(ex, cur, tag))
            else:
                nv = fresh_like(ex, cur, tag)
                ex.write(p, nv)
                ex.calls.type_inv_tree(ex, nv)
                # machine range of havocked integer variables
                sh = ex.var_shapes.get(p.root) if not p.acc else None
                if sh is not None and sh[0] == 'int' and z3.is_expr(nv):
                    from .core import int_range
                    lo, hi = int_range(sh[1], sh[2])
                    ex.assume(z3.And(nv >= lo, nv <= hi))

    def havoc_elems(self, ex, cur, tag):
        if isinstance(cur, SVal) and set(cur.f) == {'_vec'}:
            return SVal(cur.cls, {'_vec': self.havoc_elems(ex, cur.f['_vec'], tag)})
        if isinstance(cur, VecVal):
            return VecVal(cur.len, self._hv_data(ex, cur.data, tag), cur.el)
        return fresh_like(ex, cur, tag)

    def _hv_data(self, ex, t, tag):
        # inner lengths of nested vectors are kept
        if isinstance(t, SVal):
            return SVal(t.cls, {k: self._hv_data(ex, v, tag) for k, v in t.f.items()})
        if isinstance(t, VecVal):
            return VecVal(t.len, self._hv_data(ex, t.data, tag), t.el)
        return z3.Const(ex.fresh_name(tag), t.sort())

    # ------------------------------------------------------------------------------------------
    def canonical(self, ex, init, cond, inc, body):
        """for (T v = a; v < b; ++v) with v unmodified in the body -> (var decl, cmp op, bound node, step)"""
        if init is None or cond is None or inc is None:
            return None
        if init.get('kind') != 'DeclStmt':
            return None
        vars_ = [d for d in init.get('inner', ()) if d.get('kind') == 'VarDecl']
        if not vars_:
            return None
        c = strip_casts(cond)
        if c.get('kind') != 'BinaryOperator' or c.get('opcode') not in ('<', '<=', '!='):
            return None
        lhs = strip_casts(c['inner'][0])
        if lhs.get('kind') != 'DeclRefExpr':
            return None
        vid = lhs['referencedDecl']['id']
        var = [d for d in vars_ if d['id'] == vid]
        if not var:
            return None
        # find increment of var among comma-separated incs
        incs = []

        def flat(e):
            e = strip_casts(e)
            if e.get('kind') == 'BinaryOperator' and e.get('opcode') == ',':
                flat(e['inner'][0])
                flat(e['inner'][1])
            else:
                incs.append(e)
        flat(inc)
        step = None
        for e in incs:
            if e.get('kind') == 'UnaryOperator' and e.get('opcode') == '++':
                t = strip_casts(e['inner'][0])
                if t.get('kind') == 'DeclRefExpr' and t['referencedDecl']['id'] == vid:
                    step = 1
            if e.get('kind') == 'CompoundAssignOperator' and e.get('opcode') == '+=':
                t = strip_casts(e['inner'][0])
                r = strip_casts(e['inner'][1])
                if t.get('kind') == 'DeclRefExpr' and t['referencedDecl']['id'] == vid and r.get('kind') == 'IntegerLiteral':
                    step = int(r['value'])
        if step is None or step < 1:
            return None
        if c.get('opcode') == '!=' and step != 1:
            return None
        # var must not be modified in the body
        for p, _ in self.modified(ex, [body]):
            if p.root == vid:
                return None
        return var[0], c.get('opcode'), c['inner'][1], step

    def loop(self, ex, n, cond, inc, body, init):
        ordn = self.ordinal(n)
        c = ex.cur_contract
        lspec = (c.loops.get(ordn) if c else None) or {}
        unroll = lspec.get('unroll')
        if unroll:
            return self.unrolled(ex, n, cond, inc, body, unroll)
        tag = 'L%d' % (ordn or 0)
        mods = self.modified(ex, [cond, inc, body])
        canon = self.canonical(ex, init, cond, inc, body)
        pre_store = dict(ex.store)
        names = dict(ex.names)
        env_pre = S.Env(ex, pre_store, names, ex.this_path, {})
        init_val = None
        if canon:
            var, op, boundn, step = canon
            init_val = ex.read(Path(var['id']))

        def invariants(kind):
            env = S.Env(ex, ex.store, dict(ex.names), ex.this_path, {})
            extra = {'pre': OldNS(env_pre), 'old': OldNS(ex.entry_env) if ex.entry_env else None}
            extra.update(ex.cur_contract.extra_env if ex.cur_contract else {})
            extra.update(ex.spec_lets)
            out = []
            for i, e in enumerate(lspec.get('inv', ())):
                lab, e = e if isinstance(e, tuple) else ('inv%d' % i, e)
                out.append((lab, S.spec_eval(e, env, extra)))
            return out

        def auto_inv():
            if not canon:
                return []
            v = ex.read(Path(var['id']))
            ver = ex.version
            b = ex.ev(boundn)
            if op == '<=':
                b = b + 1
            if z3.is_expr(b) and z3.is_int(b) and z3.is_int(v):
                hi = z3.If(init_val >= b, init_val, b + (step - 1))
                inv = [v >= init_val, v <= hi]
                if step != 1:
                    inv.append((v - init_val) % step == 0)
                return [z3.And(*inv)]
            return []

        def variant():
            if 'dec' in lspec:
                env = S.Env(ex, ex.store, dict(ex.names), ex.this_path, {})
                extra = {'pre': OldNS(env_pre), 'old': OldNS(ex.entry_env) if ex.entry_env else None}
                extra.update(ex.spec_lets)
                return S.spec_eval_term(lspec['dec'], env, extra)
            if canon:
                v = ex.read(Path(var['id']))
                b = ex.ev(boundn)
                if op == '<=':
                    b = b + 1
                return b - v
            return None

        def facts():
            if not lspec.get('facts'):
                return
            env = S.Env(ex, ex.store, dict(ex.names), ex.this_path, {})
            extra = {'pre': OldNS(env_pre), 'old': OldNS(ex.entry_env) if ex.entry_env else None}
            extra.update(ex.cur_contract.extra_env if ex.cur_contract else {})
            extra.update(ex.spec_lets)
            for e in lspec['facts']:
                ex.assume(S.spec_eval(e, env, extra))
                ex.assumed.add('unfolding of a spec-function definition: ' + e)

        # 1. invariants hold on entry
        facts()
        for lab, e in invariants('init'):
            ex.oblige('inv_init', '%s.%s' % (tag, lab), e, n, props=lspec.get('props'))
        # 2. havoc, assume invariants
        self.havoc(ex, mods, tag)
        for e in auto_inv():
            ex.assume(e)
        for lab, e in invariants('assume'):
            ex.assume(e)
        facts()
        if lspec.get('assume'):
            env = S.Env(ex, ex.store, dict(ex.names), ex.this_path, {})
            extra = {'pre': OldNS(env_pre), 'old': OldNS(ex.entry_env) if ex.entry_env else None}
            extra.update(ex.cur_contract.extra_env if ex.cur_contract else {})
            extra.update(ex.spec_lets)
            for e in lspec['assume']:
                ex.assume(S.spec_eval(e, env, extra))
                ex.assumed.add('assumed loop fact in %s %s: %s' % (ex.fname, tag, e))
        # 3. condition
        cv = ex.tobool(ex.ev(cond), None) if cond is not None else z3.BoolVal(True)
        if ex.decide(cv):
            v0 = variant()
            if v0 is None and not lspec.get('no_termination'):
                raise SpecError('loop %s of %s needs a decreases clause' % (tag, ex.fname))
            try:
                try:
                    ex.ex(body)
                except ContinueSignal:
                    pass
                if inc is not None:
                    ex.ev(inc)
            except BreakSignal:
                return
            for lab, e in invariants('step'):
                ex.oblige('inv_step', '%s.%s' % (tag, lab), e, n, props=lspec.get('props'))
            if v0 is not None:
                v1 = variant()
                ex.oblige('decreases', tag, z3.And(v0 >= 0, v1 < v0) if z3.is_int(v0) else z3.And(v0 >= 0, v1 <= v0 - 1), n)
            raise PathEnd()
        # exit: continue after the loop with invariant /\ !cond

    def unrolled(self, ex, n, cond, inc, body, k):
        for it in range(k + 1):
            cv = ex.tobool(ex.ev(cond), None) if cond is not None else z3.BoolVal(True)
            if not ex.decide(cv):
                return
            if it == k:
                ex.oblige('unwind', 'L%d' % self.ordinal(n), z3.BoolVal(False), n)
                raise PathEnd()
            try:
                try:
                    ex.ex(body)
                except ContinueSignal:
                    pass
                if inc is not None:
                    ex.ev(inc)
            except BreakSignal:
                return

    def range_for(self, ex, n):
        inner = n['inner']
        # [init, range decl, begin decl, end decl, cond, inc, loopvar decl, body]
        rng_decl = inner[1]
        loopvar = inner[-2]
        body = inner[-1]
        rv = rng_decl['inner'][0]
        rinit = [c for c in rv.get('inner', ())][0]
        cont = ex.lv(rinit)
        v = ex.read(cont)
        from .values import TupleVal
        if isinstance(v, TupleVal):
            # fixed-size array of pointers: the loop is unrolled completely (exact, no invariant needed)
            var = loopvar['inner'][0]
            for item in v.items:
                ex.store[var['id']] = item
                ex.names[var['name']] = Path(var['id'])
                try:
                    ex.ex(body)
                except ContinueSignal:
                    continue
                except BreakSignal:
                    break
            return
        if isinstance(v, SVal) and set(v.f) == {'_vec'}:
            cont = cont.field('_vec')
            v = v.f['_vec']
        if not isinstance(v, VecVal):
            raise Unsupported('range-for over %r' % (v,))
        var = loopvar['inner'][0]
        vsh = ex.shapes.of_node(var)
        ordn = self.ordinal(n)
        c = ex.cur_contract
        lspec = (c.loops.get(ordn) if c else None) or {}
        tag = 'L%d' % (ordn or 0)
        mods = self.modified(ex, [body])
        for p, el in mods:
            if p.same(cont) and not el:
                raise Unsupported('range-for container resized in body')
        kname = var.get('name', 'it') + '_idx'
        kroot = ex.new_root(kname, z3.IntVal(0))
        ex.names[kname] = kroot
        pre_store = dict(ex.store)
        env_pre = S.Env(ex, pre_store, dict(ex.names), ex.this_path, {})

        def invariants():
            env = S.Env(ex, ex.store, dict(ex.names), ex.this_path, {})
            extra = {'pre': OldNS(env_pre), 'old': OldNS(ex.entry_env) if ex.entry_env else None}
            extra.update(ex.spec_lets)
            out = []
            for i, e in enumerate(lspec.get('inv', ())):
                lab, e = e if isinstance(e, tuple) else ('inv%d' % i, e)
                out.append((lab, S.spec_eval(e, env, extra)))
            return out
        for lab, e in invariants():
            ex.oblige('inv_init', '%s.%s' % (tag, lab), e, n)
        self.havoc(ex, mods, tag)
        k = z3.Int(ex.fresh_name(kname))
        ex.write(kroot, k)
        ln = ex.read(cont).len
        ex.assume(z3.And(k >= 0, k <= ln))
        for lab, e in invariants():
            ex.assume(e)
        if lspec.get('facts'):
            env = S.Env(ex, ex.store, dict(ex.names), ex.this_path, {})
            extra = {'pre': OldNS(env_pre), 'old': OldNS(ex.entry_env) if ex.entry_env else None}
            extra.update(ex.cur_contract.extra_env if ex.cur_contract else {})
            extra.update(ex.spec_lets)
            for e in lspec['facts']:
                ex.assume(S.spec_eval(e, env, extra))
                ex.assumed.add('lemma instance: ' + e)
        if ex.decide(k < ln):
            if vsh[0] == 'ref':
                ex.store[var['id']] = RefVal(cont.index(k))
            else:
                ex.store[var['id']] = ex.read(cont.index(k))
            ex.names[var['name']] = Path(var['id'])
            try:
                try:
                    ex.ex(body)
                except ContinueSignal:
                    pass
                ex.write(kroot, k + 1)
            except BreakSignal:
                return
            for lab, e in invariants():
                ex.oblige('inv_step', '%s.%s' % (tag, lab), e, n)
            raise PathEnd()
