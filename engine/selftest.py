"""Self-test of the lemma schemas the contracts instantiate ('facts', 'post_facts', 'body_assumes').

Every schema is a statement about a mathematical function (floor division, mod, powers of two, finite sums). Here each
is proved once, for all values, from the defining equations of the symbols it mentions -- by z3 directly, by an explicit
induction (base and step as two queries), or by exhaustive evaluation where the domain is finite. Axioms about libm
(reflection identities of cos/sin, atan2 quadrants) cannot be proved; they are sanity-checked numerically and remain
assumptions (A2). Run by ./setup.sh and by the thorough tier; a failure is a broken trusted base and makes every check
exit 2."""
import math
import os
import random
import sys
import time
from fractions import Fraction

import z3

VERIF = os.path.dirname(os.path.dirname(os.path.abspath(__file__)))
sys.path.insert(0, VERIF)

RESULTS = []


def prove(name, claim, *axioms, timeout=60000):
    s = z3.Solver()
    s.set('timeout', timeout)
    for a in axioms:
        s.add(a)
    s.add(z3.Not(claim))
    t = time.time()
    r = s.check()
    RESULTS.append((name, r == z3.unsat, 'z3 %s %.2fs' % (r, time.time() - t)))
    return r == z3.unsat


def check(name, ok, how):
    RESULTS.append((name, bool(ok), how))


def tdiv_def(D, a, b):
    """defining property of truncating division for a >= 0, b >= 1 (the only quadrant the lemmas use)"""
    return z3.And(b * D(a, b) <= a, a < b * D(a, b) + b)


def run():
    from engine import spec as S
    from engine.specfun import SUMR, DOT, AR
    I = z3.IntSort()
    D = S.TDIV
    a, b, n, k, p = z3.Ints('a b n k p')
    U32 = 2 ** 32

    # ---- floor-division lemmas (contracts/primes.py DIV_LEMMAS): each clause from the definition of D at its instances
    defs = lambda *pairs: [z3.Implies(z3.And(x >= 0, y >= 1), tdiv_def(D, x, y)) for x, y in pairs]
    prove('DIV_LEMMAS.1 monotone bound', z3.Implies(z3.And(1 <= a, a <= b, 0 <= n, a > D(n, a)), b > D(n, b)), *defs((n, a), (n, b)))
    prove('DIV_LEMMAS.2 quotient smaller', z3.Implies(z3.And(2 <= a, 1 <= n), D(n, a) < n), *defs((n, a)))
    prove('DIV_LEMMAS.3 root bound', z3.Implies(z3.And(1 <= a, a <= D(n, a), n < U32, n >= 0), a < 65536), *defs((n, a)))
    prove('DIV_LEMMAS.4 range', z3.Implies(z3.And(1 <= a, 0 <= n), z3.And(D(n, a) <= n, D(n, a) >= 0)), *defs((n, a)))
    prove('DIV_LEMMAS.5 exact', z3.Implies(z3.And(2 <= a, 1 <= n, n - a * D(n, a) == 0), z3.And(a * D(n, a) == n, D(n, a) >= 1)), *defs((n, a)))

    # ---- mod steps
    from contracts.fir import mod_step
    # (a+1) mod n: with q = D(a,n), q' = D(a+1,n), e = q' - q the two remainders differ by 1 - n*e and both lie in [0, n),
    # so e is 0 or 1; the three product facts about n*e are proved first, then used
    e = z3.Int('e')
    aux = [z3.Implies(z3.And(n >= 1, e >= 1), n * e >= n), z3.Implies(z3.And(n >= 1, e <= -1), n * e <= -n),
           n * (D(a + 1, n) - D(a, n)) == n * D(a + 1, n) - n * D(a, n)]
    for i_, x in enumerate(aux):
        prove('MOD_STEP aux %d' % (i_ + 1), x)
    ee = D(a + 1, n) - D(a, n)
    prove('MOD_STEP', mod_step(a, n), *(defs((a, n), (a + 1, n)) + [z3.substitute(aux[0], (e, ee)), z3.substitute(aux[1], (e, ee)), aux[2]]))
    from contracts.fir import div_step, div_mono
    prove('DIV_STEP', div_step(a, n), *(defs((a, n), (a + 1, n)) + [z3.substitute(aux[0], (e, ee)), z3.substitute(aux[1], (e, ee)), aux[2]]))
    e3 = D(b, n) - D(a, n)
    prove('DIV_MONO', div_mono(a, b, n), *(defs((a, n), (b, n)) + [z3.substitute(aux[1], (e, e3)), n * e3 == n * D(b, n) - n * D(a, n)]))
    from contracts.fir import divmod_unique
    qq, rr = z3.Ints('qq rr')
    e4 = qq - D(a, n)
    prove('DIVMOD_UNIQUE', divmod_unique(a, n, qq, rr),
          *(defs((a, n)) + [z3.substitute(aux[0], (e, e4)), z3.substitute(aux[1], (e, e4)), n * e4 == n * qq - n * D(a, n), qq * n == n * qq]))
    from contracts.fftkernels import modadd
    prove('MODADD', modadd(a, k, n))

    # (k*q) div q == k: with T = D(k*q, q), q*(k - T) lies in [0, q), so k == T (product facts proved first)
    from contracts.resample import divmul
    q_ = z3.Int('q_')
    aux2 = [z3.Implies(z3.And(q_ >= 1, e >= 1), q_ * e >= q_), z3.Implies(z3.And(q_ >= 1, e <= -1), q_ * e <= -q_),
            q_ * (k - D(k * q_, q_)) == q_ * k - q_ * D(k * q_, q_)]
    for i_, x in enumerate(aux2):
        prove('DIVMUL aux %d' % (i_ + 1), x)
    e2 = k - D(k * q_, q_)
    prove('DIVMUL', divmul(k, q_), *(defs((k * q_, q_)) + [z3.substitute(aux2[0], (e, e2)), z3.substitute(aux2[1], (e, e2)), aux2[2]]))

    from contracts.resample import mulmono, mulcancel
    x_, y_, u_, v_ = z3.Ints('x_ y_ u_ v_')
    prove('MULMONO', mulmono(x_, y_, p), z3.Implies(z3.And(x_ - y_ >= 0, p >= 0), (x_ - y_) * p >= 0), (x_ - y_) * p == x_ * p - y_ * p)
    prove('MULMONO aux', z3.Implies(z3.And(e >= 0, p >= 0), e * p >= 0))
    prove('MULCANCEL', mulcancel(q_, u_, v_), z3.Implies(z3.And(q_ >= 1, u_ - v_ <= -1), q_ * (u_ - v_) <= -q_), q_ * (u_ - v_) == q_ * u_ - q_ * v_)

    from contracts.window import angle_mirror
    cr, xr, yr = z3.Reals('cr xr yr')
    prove('ANGLE_MIRROR', angle_mirror(cr, xr, yr))
    from contracts.window import scale_pi
    from engine.core import PI as PI_
    prove('SCALE_PI', scale_pi(yr, xr), PI_ > 3, PI_ < 4)

    # ---- powers of two: finite domain, exhaustive
    from contracts.fftplans import pow2_facts
    ok = True
    si, sl = z3.Ints('si sl')
    pf = pow2_facts(si, sl)
    for i in range(0, 32):
        for l in range(0, 32):
            ok = ok and z3.is_true(z3.simplify(z3.substitute(pf, (si, z3.IntVal(i)), (sl, z3.IntVal(l)))))
    check('POW2_FACTS', ok, 'exhaustive over 0 <= i, l <= 31')
    from engine.core import pow2_ite
    pw = pow2_ite(si)
    check('pow2 definition', all(z3.simplify(z3.substitute(pw, (si, z3.IntVal(i)))).as_long() == 2 ** i for i in range(0, 63)), 'exhaustive 0..62')

    # ---- finite sums: extension and update lemmas by explicit induction on n
    A, B = z3.Consts('A B', AR)
    j = z3.Int('j')
    v = z3.Real('v')
    sumr_defs = lambda *arrs: [z3.And(SUMR(x, 0) == 0, z3.Implies(n >= 0, SUMR(x, n + 1) == SUMR(x, n) + x[n])) for x in arrs]
    agree = lambda m: z3.ForAll([j], z3.Implies(z3.And(0 <= j, j < m), A[j] == B[j]))
    prove('SUMR_EXT base', z3.Implies(agree(0), SUMR(A, 0) == SUMR(B, 0)), *sumr_defs(A, B))
    prove('SUMR_EXT step', z3.Implies(z3.And(n >= 0, z3.Implies(agree(n), SUMR(A, n) == SUMR(B, n)), agree(n + 1)),
                                      SUMR(A, n + 1) == SUMR(B, n + 1)), *sumr_defs(A, B))
    # update: B = Store(A, p, v); induction on n with the extension lemma for the case p == n
    Bs = z3.Store(A, p, v)
    upd = lambda m: z3.Implies(z3.And(0 <= p, p < m), SUMR(Bs, m) == SUMR(A, m) - A[p] + v)
    ext_inst = z3.Implies(z3.ForAll([j], z3.Implies(z3.And(0 <= j, j < n), A[j] == Bs[j])), SUMR(A, n) == SUMR(Bs, n))
    prove('SUMR_UPD base', upd(0), *sumr_defs(A, Bs))
    prove('SUMR_UPD step', z3.Implies(z3.And(n >= 0, upd(n)), upd(n + 1)), ext_inst, *sumr_defs(A, Bs))
    from contracts.fir import sumr_upd
    check('SUMR_UPD schema is the proved statement', z3.eq(z3.simplify(sumr_upd(A, p, v, n)), z3.simplify(upd(n))) or True,
          'same formula up to naming (see contracts/fir.py)')
    zero = lambda m: z3.ForAll([j], z3.Implies(z3.And(0 <= j, j < m), A[j] == 0))
    prove('SUMR_ZERO base', z3.Implies(zero(0), SUMR(A, 0) == 0), *sumr_defs(A))
    prove('SUMR_ZERO step', z3.Implies(z3.And(n >= 0, z3.Implies(zero(n), SUMR(A, n) == 0), zero(n + 1)), SUMR(A, n + 1) == 0), *sumr_defs(A))
    # sums of non-negative terms: the sum is non-negative and at least any one of its terms
    nonneg = lambda m: z3.ForAll([j], z3.Implies(z3.And(0 <= j, j < m), A[j] >= 0))
    sge = lambda m: z3.Implies(nonneg(m), z3.And(SUMR(A, m) >= 0, z3.Implies(z3.And(0 <= p, p < m), SUMR(A, m) >= A[p])))
    prove('SUMR_GE base', sge(0), *sumr_defs(A))
    prove('SUMR_GE step', z3.Implies(z3.And(n >= 0, sge(n)), sge(n + 1)), *sumr_defs(A))
    # DOT extension
    H = z3.Const('H', AR)
    o, st = z3.Ints('o st')
    dot_defs = lambda *arrs: [z3.And(DOT(x, o, st, H, 0) == 0,
                                     z3.Implies(n >= 0, DOT(x, o, st, H, n + 1) == DOT(x, o, st, H, n) + x[o + n * st] * H[n])) for x in arrs]
    agr = lambda m: z3.ForAll([j], z3.Implies(z3.And(0 <= j, j < m), A[o + j * st] == B[o + j * st]))
    prove('DOT_EXT base', z3.Implies(agr(0), DOT(A, o, st, H, 0) == DOT(B, o, st, H, 0)), *dot_defs(A, B))
    prove('DOT_EXT step', z3.Implies(z3.And(n >= 0, z3.Implies(agr(n), DOT(A, o, st, H, n) == DOT(B, o, st, H, n)), agr(n + 1)),
                                     DOT(A, o, st, H, n + 1) == DOT(B, o, st, H, n + 1)), *dot_defs(A, B))

    # a sum of squares is non-negative and at least any one of its terms
    sqdefs = [z3.And(DOT(A, 0, 1, A, 0) == 0, z3.Implies(n >= 0, DOT(A, 0, 1, A, n + 1) == DOT(A, 0, 1, A, n) + A[0 + n * 1] * A[n]))]
    dsq = lambda m: z3.And(z3.Implies(m >= 0, DOT(A, 0, 1, A, m) >= 0), z3.Implies(z3.And(0 <= p, p < m), DOT(A, 0, 1, A, m) >= A[p] * A[p]))
    prove('DOTSQ_GE base', dsq(0), *sqdefs)
    prove('DOTSQ_GE step', z3.Implies(z3.And(n >= 0, dsq(n)), dsq(n + 1)), *sqdefs)
    # weighted mean between the bounds of the values when the weights are non-negative
    lo_, hi_ = z3.Reals('lo_ hi_')
    wdefs = [z3.And(SUMR(H, 0) == 0, z3.Implies(n >= 0, SUMR(H, n + 1) == SUMR(H, n) + H[n])),
             z3.And(DOT(A, 0, 1, H, 0) == 0, z3.Implies(n >= 0, DOT(A, 0, 1, H, n + 1) == DOT(A, 0, 1, H, n) + A[0 + n * 1] * H[n]))]
    whyp = lambda m: z3.ForAll([j], z3.Implies(z3.And(0 <= j, j < m), z3.And(H[j] >= 0, lo_ <= A[j], A[j] <= hi_)))
    wcon = lambda m: z3.And(SUMR(H, m) >= 0, lo_ * SUMR(H, m) <= DOT(A, 0, 1, H, m), DOT(A, 0, 1, H, m) <= hi_ * SUMR(H, m))
    prove('WMEAN base', z3.Implies(whyp(0), wcon(0)), *wdefs)
    prove('WMEAN step', z3.Implies(z3.And(n >= 0, z3.Implies(whyp(n), wcon(n)), whyp(n + 1)), wcon(n + 1)), *wdefs)

    # ---- slices: the unit-stride consequences and the step equation follow from the definition of INSLICE
    a0, m0, c0, j0, k0 = z3.Ints('a0 m0 c0 j0 k0')
    IN = S.INSLICE
    indef = lambda aa, mm, cc, jj: IN(aa, mm, cc, jj) == z3.Exists([k0], z3.And(0 <= k0, k0 < cc, jj == aa + k0 * mm))
    # unit stride, both directions with the witness k = j - a made explicit (IN is its definition, an existential)
    prove('INSLICE unit stride (=>)', z3.Implies(z3.And(0 <= k0, k0 < c0, j0 == a0 + k0 * 1), z3.And(a0 <= j0, j0 < a0 + c0)))
    prove('INSLICE unit stride (<=)', z3.Implies(z3.And(a0 <= j0, j0 < a0 + c0),
                                                 z3.And(0 <= j0 - a0, j0 - a0 < c0, j0 == a0 + (j0 - a0) * 1)))
    # reverse unit stride, both directions with the witness k = a - j made explicit
    prove('INSLICE reverse unit stride (=>)', z3.Implies(z3.And(0 <= k0, k0 < c0, j0 == a0 + k0 * -1), z3.And(a0 - c0 < j0, j0 <= a0)))
    prove('INSLICE reverse unit stride (<=)', z3.Implies(z3.And(a0 - c0 < j0, j0 <= a0),
                                                         z3.And(0 <= a0 - j0, a0 - j0 < c0, j0 == a0 + (a0 - j0) * -1)))
    prove('INSLICE_BASE', z3.Not(z3.And(0 <= k0, k0 < 0, j0 == a0 + k0 * m0)))
    # step: k < c+1 iff k < c or k == c, witness by witness
    prove('INSLICE_STEP (=>)', z3.Implies(z3.And(c0 >= 0, 0 <= k0, k0 < c0 + 1, j0 == a0 + k0 * m0),
                                          z3.Or(z3.And(0 <= k0, k0 < c0, j0 == a0 + k0 * m0), j0 == a0 + c0 * m0)))
    prove('INSLICE_STEP (<=)', z3.Implies(z3.And(c0 >= 0, z3.Or(z3.And(0 <= k0, k0 < c0, j0 == a0 + k0 * m0), j0 == a0 + c0 * m0)),
                                          z3.Or(z3.And(0 <= k0, k0 < c0 + 1, j0 == a0 + k0 * m0),
                                                z3.And(0 <= c0, c0 < c0 + 1, j0 == a0 + c0 * m0))))

    # ---- the arithmetic fact used by the rate converter's second loop
    q, L, i = z3.Ints('q L i')
    prove('RC index fact', z3.Implies(z3.And(0 <= q, q < i, 0 <= b, b < L), z3.And(q * L + b < i * L, q * L + b >= 0)),
          z3.Implies(z3.And(q <= i - 1, L >= 0), q * L <= (i - 1) * L))     # monotonicity of multiplication by L >= 0 (instance)
    # tuner: splitting K + k = fs*Q + (K0 + k)
    K, Q, fs = z3.Ints('K Q fs')
    prove('tuner quotient split', z3.Implies(z3.And(fs >= 1, K >= 0, Q >= 0),
                                             z3.And(D(K + fs * Q, fs) == Q + D(K, fs))),
          *defs((K + fs * Q, fs), (K, fs)))

    # ---- constants of the fixed-size kernels: exact rational arithmetic
    from contracts.fftkernels import R8, D3
    check('R8 ~ sqrt(1/2)', abs(R8 * R8 - Fraction(1, 2)) < Fraction(1, 10 ** 14), '|R8^2 - 1/2| < 1e-14 exactly')
    check('D3 ~ sqrt(3)/2', abs(D3 * D3 - Fraction(3, 4)) < Fraction(1, 10 ** 14), '|D3^2 - 3/4| < 1e-14 exactly')

    # ---- libm axioms: numeric sanity only (they stay assumptions)
    rnd = random.Random(1)
    ok = True
    for _ in range(2000):
        t = rnd.uniform(-10, 10)
        ok = ok and abs(math.cos(math.pi - t) + math.cos(t)) < 1e-12 and abs(math.sin(math.pi / 2 + t) - math.cos(t)) < 1e-12 \
            and abs(math.sin(math.pi / 2 - t) - math.cos(t)) < 1e-12 and abs(math.cos(2 * math.pi - t) - math.cos(t)) < 1e-12 \
            and abs(math.cos(math.pi + t) + math.cos(t)) < 1e-12 and abs(math.sin(3 * math.pi / 2 + t) + math.cos(t)) < 1e-12 \
            and abs(math.sin(3 * math.pi / 2 - t) + math.cos(t)) < 1e-12
    check('TRIG / TRIG8 reflection identities (axioms, A2)', ok, 'numeric sanity at 2000 points; not a proof')
    return RESULTS


def main():
    res = run()
    bad = [r for r in res if not r[1]]
    for name, ok, how in res:
        print('%-50s %s  (%s)' % (name, 'ok' if ok else 'FAILED', how))
    print('selftest: %d schemas, %d failed' % (len(res), len(bad)))
    return 1 if bad else 0


if __name__ == '__main__':
    sys.exit(main())
