"""Spec functions shared by the contracts: uninterpreted symbols fixed by two defining equations (base,
step). The executor never unfolds them by itself; a loop contract names the instances it needs ('facts'),
each of which is an instance of the definition below (listed as definitional unfoldings in the evidence).

  SUMR(A, n)                     = sum_{t<n} A[t]
  DOT(X, off, st, H, n)          = sum_{j<n} X[off + j*st] * H[j]
  BRSUM(X, base, st, HH, S, k)   = sum_{k'<k} DOT(X, base + k', st, HH[k'], S)
"""
import z3

R = z3.RealSort()
I = z3.IntSort()
AR = z3.ArraySort(I, R)
AAR = z3.ArraySort(I, AR)

SUMR = z3.Function('sumr', AR, I, R)
DOT = z3.Function('dot', AR, I, I, AR, I, R)
BRSUM = z3.Function('brsum', AR, I, I, AAR, I, I, R)


AB = z3.ArraySort(I, z3.BoolSort())
COUNT_TRUE = z3.Function('count_true', AB, I, I)      # number of true entries among the first n


def CT_BASE(A):
    return COUNT_TRUE(A, 0) == 0


def CT_STEP(A, n):
    return z3.Implies(n >= 0, COUNT_TRUE(A, n + 1) == COUNT_TRUE(A, n) + z3.If(A[n], 1, 0))


def SUMR_BASE(A):
    return SUMR(A, 0) == 0


def SUMR_STEP(A, n):
    return z3.Implies(n >= 0, SUMR(A, n + 1) == SUMR(A, n) + A[n])


def DOT_BASE(X, o, s, H):
    return DOT(X, o, s, H, 0) == 0


def DOT_STEP(X, o, s, H, n):
    return z3.Implies(n >= 0, DOT(X, o, s, H, n + 1) == DOT(X, o, s, H, n) + X[o + n * s] * H[n])


def BRSUM_BASE(X, b, s, HH, S):
    return BRSUM(X, b, s, HH, S, 0) == 0


def BRSUM_STEP(X, b, s, HH, S, k):
    return z3.Implies(k >= 0, BRSUM(X, b, s, HH, S, k + 1) == BRSUM(X, b, s, HH, S, k) + DOT(X, b + k, s, HH[k], S))


def DOT_EXT(A, B, o, s, H, n):
    """DOT reads only X[o + j*s], j < n (lemma; by induction on n from the two defining equations)"""
    j = z3.Int('j!dx')
    return z3.Implies(z3.ForAll([j], z3.Implies(z3.And(0 <= j, j < n), A[o + j * s] == B[o + j * s])),
                      DOT(A, o, s, H, n) == DOT(B, o, s, H, n))


def data(a):
    """element map of a base_array / vector spec value (Array(Int, T); struct elements: per-field arrays)"""
    if type(a).__name__ == 'Unbound':
        return a
    t = a.tree if hasattr(a, 'tree') else a
    from .values import SVal, VecVal
    if isinstance(t, SVal) and set(t.f) == {'_vec'}:
        t = t.f['_vec']
    return t.data


def re_data(a):
    d = data(a)
    return d if type(d).__name__ == 'Unbound' else d.f['re']


def im_data(a):
    d = data(a)
    return d if type(d).__name__ == 'Unbound' else d.f['im']


NS = {'COUNT_TRUE': COUNT_TRUE, 'CT_BASE': CT_BASE, 'CT_STEP': CT_STEP, 'SUMR': SUMR, 'DOT': DOT, 'BRSUM': BRSUM, 'SUMR_BASE': SUMR_BASE, 'SUMR_STEP': SUMR_STEP, 'DOT_BASE': DOT_BASE,
      'DOT_STEP': DOT_STEP, 'DOT_EXT': DOT_EXT, 'BRSUM_BASE': BRSUM_BASE, 'BRSUM_STEP': BRSUM_STEP, 'data': data, 're_data': re_data,
      'im_data': im_data}


# twiddle-table DFT partial sums: CTW(X, T, n, k, i) = sum_{j<i} X[j] * T[(j*k) mod n]   (complex, split in re / im)
CTW_RE = z3.Function('ctw_re', AR, AR, AR, AR, I, I, I, R)
CTW_IM = z3.Function('ctw_im', AR, AR, AR, AR, I, I, I, R)


def CTW_BASE(xr, xi, tr, ti, n, k):
    return z3.And(CTW_RE(xr, xi, tr, ti, n, k, 0) == 0, CTW_IM(xr, xi, tr, ti, n, k, 0) == 0)


def CTW_STEP(xr, xi, tr, ti, n, k, i):
    w = (i * k) % n
    return z3.Implies(z3.And(i >= 0, n >= 1, k >= 0), z3.And(
        CTW_RE(xr, xi, tr, ti, n, k, i + 1) == CTW_RE(xr, xi, tr, ti, n, k, i) + (xr[i] * tr[w] - xi[i] * ti[w]),
        CTW_IM(xr, xi, tr, ti, n, k, i + 1) == CTW_IM(xr, xi, tr, ti, n, k, i) + (xr[i] * ti[w] + xi[i] * tr[w])))


NS.update({'CTW_RE': CTW_RE, 'CTW_IM': CTW_IM, 'CTW_BASE': CTW_BASE, 'CTW_STEP': CTW_STEP})
