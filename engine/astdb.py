"""AST extraction: clang JSON dumps of the real translation units of /repo, cached by content hash.

The verified text is the code that runs: every run re-hashes the sources under /repo/include and
/repo/lib (and the driver TU); any edit invalidates the cache and clang is re-run on the edited tree.
"""
import hashlib
import json
import os
import pickle
import subprocess
import sys

REPO = os.environ.get('VERIF_REPO', '/repo')
VERIF = os.path.dirname(os.path.dirname(os.path.abspath(__file__)))
WORK = os.environ.get('VERIF_WORK') or os.path.join(VERIF, '.work')     # caches; a scratch evaluation uses its own (tools/run_seeded.py)
GEN = os.path.join(WORK, 'gen')

CLANG_ARGS = ['clang++', '-std=c++17', '-fsyntax-only', '-DNDEBUG', '-DDSPLIB_FFT_CACHE_SIZE=4',
              '-Wno-everything']


def _ensure_gen():
    """defs.h is generated from /repo/cmake/defs.h.in (never taken from /repo/_build)."""
    d = os.path.join(GEN, 'dsplib')
    os.makedirs(d, exist_ok=True)
    src = open(os.path.join(REPO, 'cmake', 'defs.h.in')).read()
    out = []
    for line in src.splitlines():
        if line.startswith('#cmakedefine'):
            out.append('/* #undef %s */' % line.split()[1])
        else:
            line = line.replace('@CMAKE_PROJECT_VERSION@', '0.0.0')
            for k in ('MAJOR', 'MINOR', 'PATCH'):
                line = line.replace('@CMAKE_PROJECT_VERSION_%s@' % k, '0')
            out.append(line)
    txt = '\n'.join(out) + '\n'
    p = os.path.join(d, 'defs.h')
    if not os.path.exists(p) or open(p).read() != txt:
        with open(p, 'w') as f:
            f.write(txt)


_src_hash = None


def source_hash():
    global _src_hash
    if _src_hash is not None:
        return _src_hash
    h = hashlib.sha256()
    for top in ('include', 'lib', 'cmake'):
        for root, dirs, files in sorted(os.walk(os.path.join(REPO, top))):
            dirs.sort()
            for fn in sorted(files):
                p = os.path.join(root, fn)
                h.update(p.encode())
                with open(p, 'rb') as f:
                    h.update(f.read())
    for fn in sorted(os.listdir(os.path.join(VERIF, 'drivers'))):
        p = os.path.join(VERIF, 'drivers', fn)
        h.update(p.encode())
        with open(p, 'rb') as f:
            h.update(f.read())
    h.update(open(os.path.abspath(__file__), 'rb').read())
    _src_hash = h.hexdigest()[:20]
    return _src_hash


def _parse_concat_json(s):
    dec = json.JSONDecoder()
    i = 0
    n = len(s)
    objs = []
    while i < n:
        while i < n and s[i] in ' \n\r\t':
            i += 1
        if i >= n:
            break
        if s.startswith('Dumping', i):
            i = s.index('\n', i)
            continue
        o, i = dec.raw_decode(s, i)
        objs.append(o)
    return objs


DROP_KEYS = ('range', 'isUsed', 'isReferenced', 'mangledName', 'isImplicit')


def _strip(n, curfile, curline):
    """drop bulky location info, keep file/line of each node (propagated as clang elides repeats)"""
    loc = n.get('loc')
    rng = n.get('range')
    b = None
    if isinstance(rng, dict):
        b = rng.get('begin', {})
        if 'expansionLoc' in b:
            b = b['expansionLoc']
    if isinstance(loc, dict) and 'expansionLoc' in loc:
        loc = loc['expansionLoc']
    for src in (loc, b):
        if isinstance(src, dict):
            if 'file' in src:
                curfile = src['file']
            if 'line' in src:
                curline = src['line']
    for k in DROP_KEYS:
        n.pop(k, None)
    n.pop('loc', None)
    n['_file'] = curfile
    n['_line'] = curline
    for c in n.get('inner', ()):
        if isinstance(c, dict):
            curfile, curline = _strip(c, curfile, curline)
    return curfile, curline


class TU:
    """Index of one translation unit (the dsplib namespace part of it)."""

    def __init__(self, path, objs):
        self.path = path
        self.decls = {}      # id -> node
        self.qual = {}       # id -> qualified name
        self.parent = {}     # id -> enclosing record node (for methods/fields)
        self.funcs = {}      # qualified name -> [node with body]
        self.records = {}    # qualified record name -> node (complete definition)
        self.roots = objs    # top-level nodes of the dump (for whole-TU scans)
        for o in objs:
            self._walk(o, '', None)

    def _targs(self, n):
        out = []
        for c in n.get('inner', ()):
            if c.get('kind') == 'TemplateArgument':
                if 'type' in c:
                    out.append(c['type'].get('qualType', '?'))
                elif 'value' in c:
                    out.append(str(c['value']))
                else:
                    out.append('?')
        return out

    def _walk(self, n, scope, rec, dep=False):
        k = n.get('kind')
        nid = n.get('id')
        name = n.get('name')
        if k == 'NamespaceDecl':
            sc = scope + (name or '(anon)') + '::'
            for c in n.get('inner', ()):
                self._walk(c, sc, None, dep)
            return
        if k in ('ClassTemplateDecl', 'FunctionTemplateDecl'):
            for c in n.get('inner', ()):
                ck = c.get('kind')
                if ck == 'CXXRecordDecl':
                    self._walk(c, scope, rec, True)
                elif ck == 'ClassTemplateSpecializationDecl':
                    self._walk(c, scope, rec, dep)
                elif ck in ('FunctionDecl', 'CXXMethodDecl', 'CXXConstructorDecl', 'CXXConversionDecl'):
                    isdep = dep or not any(x.get('kind') == 'TemplateArgument' for x in c.get('inner', ()))
                    self._walk(c, scope, rec, isdep)
            return
        if k in ('CXXRecordDecl', 'ClassTemplateSpecializationDecl'):
            nm = name or '(anon)'
            if k == 'ClassTemplateSpecializationDecl':
                nm = nm + '<' + ', '.join(self._targs(n)) + '>'
            q = scope + nm
            if nid:
                self.decls[nid] = n
                self.qual[nid] = q
            if n.get('completeDefinition') or any(c.get('kind') in ('FieldDecl', 'CXXMethodDecl')
                                                  for c in n.get('inner', ())):
                if not dep:
                    self.records.setdefault(q, n)
            for c in n.get('inner', ()):
                self._walk(c, q + '::', n, dep)
            return
        if k in ('FunctionDecl', 'CXXMethodDecl', 'CXXConstructorDecl', 'CXXConversionDecl', 'CXXDestructorDecl'):
            pid = n.get('parentDeclContextId')
            if pid and pid in self.qual and self.decls.get(pid, {}).get('kind') in (
                    'CXXRecordDecl', 'ClassTemplateSpecializationDecl'):
                scope = self.qual[pid] + '::'
                rec = self.decls[pid]
            q = scope + (name or '?')
            targs = self._targs(n)
            if nid:
                self.decls[nid] = n
                self.qual[nid] = q
                if rec is not None:
                    self.parent[nid] = rec
                n['_qual'] = q
                n['_targs'] = targs
            n['_dependent'] = dep
            if not dep and any(c.get('kind') in ('CompoundStmt',) for c in n.get('inner', ())):
                self.funcs.setdefault(q, []).append(n)
            # out-of-line definitions carry parentDeclContextId
            return
        if k in ('FieldDecl', 'VarDecl', 'EnumConstantDecl', 'TypeAliasDecl', 'TypedefDecl', 'EnumDecl'):
            if nid:
                self.decls[nid] = n
                self.qual[nid] = scope + (name or '?')
                if rec is not None:
                    self.parent[nid] = rec
            if k == 'EnumDecl':
                for c in n.get('inner', ()):
                    self._walk(c, scope + (name or '') + '::', rec)
            return

    @staticmethod
    def _is_dependent_record(n):
        # primary templates: fields of dependent type; we only use specializations for templates
        return False

    def find_funcs(self, qualname, sig=None, targs=None, sig_not=None):
        out = []
        for f in self.funcs.get(qualname, ()):
            t = f.get('type', {}).get('qualType', '')
            sg = (sig,) if isinstance(sig, str) else tuple(sig or ())
            sn = (sig_not,) if isinstance(sig_not, str) else tuple(sig_not or ())
            if not all(x in t for x in sg) or any(x in t for x in sn):
                continue
            if targs is not None and list(targs) != f.get('_targs'):
                continue
            out.append(f)
        return out


_tu_cache = {}


def load_tu(relpath):
    """relpath: path relative to /repo (e.g. lib/math.cpp) or 'drivers/x.cpp' relative to /verif."""
    if relpath in _tu_cache:
        return _tu_cache[relpath]
    _ensure_gen()
    if relpath.startswith('drivers/'):
        src = os.path.join(VERIF, relpath)
    else:
        src = os.path.join(REPO, relpath)
    key = source_hash() + '_' + relpath.replace('/', '_')
    cdir = os.path.join(WORK, 'ast')
    os.makedirs(cdir, exist_ok=True)
    cpath = os.path.join(cdir, key + '.pkl')
    if os.path.exists(cpath):
        try:
            with open(cpath, 'rb') as f:
                tu = pickle.load(f)
            _tu_cache[relpath] = tu
            return tu
        except Exception:
            pass
    cmd = CLANG_ARGS + ['-I' + os.path.join(REPO, 'include'), '-I' + GEN, '-I' + os.path.join(REPO, 'lib'),
                        '-Xclang', '-ast-dump=json', '-Xclang', '-ast-dump-filter=dsplib', src]
    r = subprocess.run(cmd, capture_output=True, text=True)
    if r.returncode != 0:
        raise RuntimeError('clang failed on %s:\n%s' % (src, r.stderr[-3000:]))
    objs = _parse_concat_json(r.stdout)
    f, l = None, None
    for o in objs:
        f, l = _strip(o, f, l)
    tu = TU(relpath, objs)
    sys.setrecursionlimit(100000)
    tmp = cpath + '.%d.tmp' % os.getpid()
    with open(tmp, 'wb') as fh:
        pickle.dump(tu, fh, protocol=pickle.HIGHEST_PROTOCOL)
    os.replace(tmp, cpath)
    # prune stale caches
    for fn in os.listdir(cdir):
        if not fn.startswith(source_hash()) and fn.endswith('.pkl'):
            try:
                os.remove(os.path.join(cdir, fn))
            except OSError:
                pass
    _tu_cache[relpath] = tu
    return tu


def load_tu_quiet(relpath):
    load_tu(relpath)
    return relpath
