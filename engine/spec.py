"""Contract objects and the expression environment in which spec strings are evaluated."""
import z3
from .values import SVal, VecVal, PtrVal, RefVal, Opaque, Path, select, tree_eq, vec_eq, Unsupported, leaves

INT_MIN, INT_MAX = -2 ** 31, 2 ** 31 - 1

SAFETY_ONLY = {'C05'}
REGISTRY = {}      # key -> Contract
ORDER = []


class Contract:
    def __init__(self, name, tu, sig=None, targs=None, key=None, serves=(), requires=(), lets=None, throws=None,
                 may_throw=False, ensures=(), ensures_exc=(), assigns=(), loops=None, scenarios=None,
                 inline=False, trusted=False, pure=False, auto=True, result_fresh=True,
                 prop_of=None, notes='', cls_targs=None, verify=True, terminates=True, unroll=None,
                 reads_only=False, this_shape=None, extra_env=None, body_assumes=(), max_paths=4000,
                 returns_ref=None, timeout_ms=None, sig_not=None, binds=None, ghost=None, ghost_on=(), nowrap=False, post_facts=(), value=None, ensures_after=(), globals=(), custom=None, facts_on=(), fn_params=None, ghost_fns=None, ghost_fn_args=None, asserts_on=(), chain=False, static_alias=None, only_tu=False, param_names=None, pins_algorithm=False):
        self.name = name
        self.tu = tu
        self.sig = sig
        self.targs = targs
        self.key = key or (name + (('|' + str(sig)) if sig else '') + (('|<' + ','.join(targs) + '>') if targs else ''))
        self.serves = tuple(serves)
        self.requires = list(requires)
        self.lets = dict(lets or {})
        self.throws = throws
        self.may_throw = may_throw
        self.ensures = [(e if isinstance(e, tuple) else ('post%d' % i, e)) for i, e in enumerate(ensures)]
        self.ensures_exc = [(e if isinstance(e, tuple) else ('exc%d' % i, e)) for i, e in enumerate(ensures_exc)]
        self.assigns = list(assigns)
        self.loops = dict(loops or {})
        self.scenarios = scenarios or [{}]
        self.inline = inline
        self.trusted = trusted
        self.pure = pure
        self.auto = auto
        self.prop_of = dict(prop_of or {})
        self.notes = notes
        self.verify = verify and not trusted
        self.unroll = unroll
        self.extra_env = extra_env or {}
        self.body_assumes = list(body_assumes)
        self.max_paths = max_paths
        self.returns_ref = returns_ref
        self.sig_not = sig_not
        self.binds = dict(binds or {})
        self.ghost = dict(ghost or {})
        self.ghost_on = list(ghost_on)
        self.nowrap = nowrap
        self.post_facts = list(post_facts)
        self.globals = list(globals)
        self.ensures += [(e if isinstance(e, tuple) else ('postb%d' % i, e)) for i, e in enumerate(ensures_after)]
        self.value = value
        if value is not None:
            self.ensures.append(('value', 'result == (%s)' % value))
        self.timeout_ms = timeout_ms
        # function-valued parameters: {param: {'args': [names], 'requires': expr, 'ensures': [(label, expr)]}} over ghost
        # functions ghost_fns = {name: ('Int', 'Int', ..., 'Real')}; a caller names them: ghost_fn_args = {callee: {name: 'lambda a, i: ...'}}
        self.fn_params = dict(fn_params or {})
        self.ghost_fns = dict(ghost_fns or {})
        self.ghost_fn_args = dict(ghost_fn_args or {})
        # the functional clauses of this contract describe HOW the result is computed (tables, data path over an assumed
        # transform), because the result itself cannot be stated over the assumed core: if one of them stops holding the
        # algorithm has changed, which is a violation only when a failing input is found natively, otherwise undecided
        self.pins_algorithm = pins_algorithm
        self.param_names = param_names   # the definition's parameter names, when callers in other TUs see a prototype that names them differently
        self.only_tu = only_tu     # internal linkage: the contract applies to the function of this name in c.tu only
        self.static_alias = dict(static_alias or {})   # static local name -> ghost global that stands for it
        self.chain = chain     # postconditions are proved in order, each one available for the next
        self.asserts_on = list(asserts_on)   # [(trigger, [(label, expr)])]: intermediate assertions (obligations) at a call point
        self.facts_on = list(facts_on)   # [(trigger 'call:<callee>' | 'ret:<callee>', [lemma instance, ...])]
        self.custom = custom       # callable(contract) -> [(label, kind, props, ok, detail, model)] (whole-TU frame scans)

    def props_for(self, label):
        if label in self.prop_of:
            return self.prop_of[label]
        # functional clauses do not serve the pure memory-safety/termination property C05
        if label in ('throws', 'frame', 'binds'):
            return self.serves
        return tuple(p for p in self.serves if p not in SAFETY_ONLY) or self.serves


def fn(name, tu, **kw):
    c = Contract(name, tu, **kw)
    if c.key in REGISTRY:
        raise RuntimeError('duplicate contract ' + c.key)
    REGISTRY[c.key] = c
    ORDER.append(c.key)
    return c


INLINE_PATTERNS = []
_INLINE = {}


def inline_fn(*patterns):
    INLINE_PATTERNS.extend(patterns)


_pat_cache = {}


def _tup(x):
    if x is None:
        return ()
    return (x,) if isinstance(x, str) else tuple(x)


def sig_ok(c, typestr):
    return all(x in typestr for x in _tup(c.sig)) and not any(x in typestr for x in _tup(c.sig_not))


def name_matches(pattern, qualname):
    """only the literal token <*> is a wildcard (template arguments); everything else is literal"""
    if pattern == qualname:
        return True
    if '<*>' not in pattern:
        return False
    import re as _re
    rx = _pat_cache.get(pattern)
    if rx is None:
        rx = _re.compile('^' + '<.*>'.join(_re.escape(x) for x in pattern.split('<*>')) + '$')
        _pat_cache[pattern] = rx
    return bool(rx.match(qualname))


CURRENT_TU = [None]


def lookup(qualname, typestr, targs=None):
    """contract matching a callee (qualified name + function type string)"""
    import fnmatch
    best = None
    for k in ORDER:
        c = REGISTRY[k]
        if not name_matches(c.name, qualname):
            continue
        if c.only_tu and CURRENT_TU[0] is not None and c.tu != CURRENT_TU[0]:
            continue
        if not sig_ok(c, typestr or ''):
            continue
        if c.targs is not None and targs is not None and list(c.targs) != list(targs):
            continue
        # a contract tied to this translation unit (the function's own TU) wins over the abstraction other TUs see
        if best is None or (c.sig and not best.sig) or (c.only_tu and not best.only_tu):
            best = c
    if best is None:
        for pat in INLINE_PATTERNS:
            if name_matches(pat, qualname):
                if pat not in _INLINE:
                    _INLINE[pat] = Contract(pat, None, inline=True, verify=False, key='inline:' + pat)
                return _INLINE[pat]
    return best


# ---------------------------------------------------------------------------------------------
_R = z3.RealSort()
# complex quotient (a+bi)/(c+di) as defined functions; the defining axiom CDIV_DEF is assumed only where
# the leaf operators of cmplx_t are verified against it (keeps non-linear division out of array-level VCs)
CDIV_RE = z3.Function('cdiv_re', _R, _R, _R, _R, _R)
CDIV_IM = z3.Function('cdiv_im', _R, _R, _R, _R, _R)


def cdiv_def():
    a, b, c, d = z3.Reals('a!cd b!cd c!cd d!cd')
    den = c * c + d * d
    return z3.ForAll([a, b, c, d], z3.And(CDIV_RE(a, b, c, d) == (a * c + b * d) / den,
                                          CDIV_IM(a, b, c, d) == (b * c - a * d) / den))


# j is one of the positions a + k*m, 0 <= k < nc (strided range membership). Used by the std::copy/fill
# models and by the slice contracts; INSLICE_AX() is its definition plus two unit-stride consequences
# (proved from the definition by engine/selftest.py).
INSLICE = z3.Function('in_slice', z3.IntSort(), z3.IntSort(), z3.IntSort(), z3.IntSort(), z3.BoolSort())


def inslice_def():
    a, m, nc, j, k = z3.Ints('a!is m!is nc!is j!is k!is')
    return z3.ForAll([a, m, nc, j], INSLICE(a, m, nc, j) == z3.Exists([k], z3.And(0 <= k, k < nc, j == a + k * m)))


def inslice_at(a, m, nc, j):
    """the definition of INSLICE at one position (a definitional unfolding, for strides other than +-1)"""
    _qcount[0] += 1
    a, m, nc, j = [getattr(t, 'z', t) for t in (a, m, nc, j)]
    k = z3.Int('k!ia%d' % _qcount[0])
    return INSLICE(a, m, nc, j) == z3.Exists([k], z3.And(0 <= k, k < nc, j == a + k * m))


def inslice_base(a, m):
    j = z3.Int('j!ib')
    return z3.ForAll([j], z3.Not(INSLICE(a, m, 0, j)))


def inslice_step(a, m, c):
    """positions of c+1 elements = positions of c elements plus a + c*m (from the definition, c >= 0)"""
    j = z3.Int('j!st')
    return z3.Implies(c >= 0, z3.ForAll([j], INSLICE(a, m, c + 1, j) == z3.Or(INSLICE(a, m, c, j), j == a + c * m)))


def inslice_ax():
    a, m, nc, j, k = z3.Ints('a!is m!is nc!is j!is k!is')
    return z3.And(
        z3.ForAll([a, nc, j], INSLICE(a, 1, nc, j) == z3.And(a <= j, j < a + nc)),
        z3.ForAll([a, nc, j], INSLICE(a, -1, nc, j) == z3.And(a - nc < j, j <= a)))


class W:
    """wrapper making value trees pleasant in spec expressions"""

    def __init__(self, env, tree):
        object.__setattr__(self, '_env', env)
        object.__setattr__(self, '_t', tree)

    def _vec(self):
        t = self._t
        if isinstance(t, SVal) and set(t.f) == {'_vec'}:
            t = t.f['_vec']
        return t

    def _w(self, t):
        if self._env is not None:
            return self._env.wrap(t)
        return t if (z3.is_expr(t) or isinstance(t, (int, bool)) or t is None) else W(None, t)

    def __getattr__(self, name):
        t = self._t
        if name == 'len':
            v = self._vec()
            if isinstance(v, VecVal):
                return v.len
        if name == 'tree':
            return t
        if name == 'off' and isinstance(t, PtrVal):
            return t.off
        if name == 'target' and isinstance(t, PtrVal):
            return self._env.wrap(self._env.read(t.path))
        if isinstance(t, SVal):
            if name in t.f:
                return self._w(t.f[name])
        raise AttributeError('spec: no field %s in %r' % (name, t))

    def __getitem__(self, i):
        if isinstance(i, int):
            i = z3.IntVal(i)
        t = self._t
        if isinstance(t, PtrVal):
            v = self._env.read(t.path)
            return self._w(select(v.data, t.off + i))
        v = self._vec()
        if isinstance(v, VecVal):
            return self._w(select(v.data, i))
        raise TypeError('spec: cannot index %r' % (t,))

    # complex field arithmetic (textbook formulas, the oracle for cmplx_t's operators)
    def _ri(self, o):
        if isinstance(o, W):
            t = o._t
            return t.f['re'], t.f['im']
        if isinstance(o, (int, float)):
            o = z3.RealVal(o)
        if z3.is_expr(o) and z3.is_int(o):
            o = z3.ToReal(o)
        return o, z3.RealVal(0)

    def _mk(self, re, im):
        return W(self._env, SVal('dsplib::cmplx_t', {'re': re, 'im': im}))

    def __add__(self, o):
        a, b = self._ri(self)
        c, d = self._ri(o)
        return self._mk(a + c, b + d)

    __radd__ = __add__

    def __sub__(self, o):
        a, b = self._ri(self)
        c, d = self._ri(o)
        return self._mk(a - c, b - d)

    def __rsub__(self, o):
        a, b = self._ri(self)
        c, d = self._ri(o)
        return self._mk(c - a, d - b)

    def __mul__(self, o):
        a, b = self._ri(self)
        c, d = self._ri(o)
        return self._mk(a * c - b * d, a * d + b * c)

    __rmul__ = __mul__

    def __truediv__(self, o):
        a, b = self._ri(self)
        c, d = self._ri(o)
        if not isinstance(o, W):
            return self._mk(a / c, b / c)
        return self._mk(CDIV_RE(a, b, c, d), CDIV_IM(a, b, c, d))

    def __rtruediv__(self, o):
        c, d = self._ri(self)
        a, b = self._ri(o)
        return self._mk(CDIV_RE(a, b, c, d), CDIV_IM(a, b, c, d))

    def __neg__(self):
        a, b = self._ri(self)
        return self._mk(-a, -b)

    def conj(self):
        a, b = self._ri(self)
        return self._mk(a, -b)

    def __eq__(self, other):
        o = other._t if isinstance(other, W) else other
        if isinstance(self._t, SVal) and set(self._t.f) == {'re', 'im'} and not isinstance(o, SVal):
            c, d = self._ri(other)
            return z3.And(self._t.f['re'] == c, self._t.f['im'] == d)
        a, b = self._t, o
        if isinstance(a, SVal) and set(a.f) == {'_vec'} and isinstance(b, SVal):
            return vec_eq(a.f['_vec'], b.f['_vec'])
        if isinstance(a, VecVal):
            return vec_eq(a, b)
        if isinstance(a, PtrVal) and isinstance(b, PtrVal):
            if a.path is None or b.path is None:
                return z3.BoolVal(a.path is None and b.path is None)
            return z3.And(z3.BoolVal(a.path.same(b.path)), a.off == b.off)
        return tree_eq(a, b)

    def __ne__(self, other):
        return z3.Not(self.__eq__(other))

    def __hash__(self):
        return id(self)


def same(a, b):
    """exact (extensional) equality of two values"""
    x = a._t if isinstance(a, W) else a
    y = b._t if isinstance(b, W) else b
    return tree_eq(x, y)


class Env:
    """evaluation environment for spec strings, bound to a store snapshot"""

    def __init__(self, ex, store, names, this_path=None, extra=None):
        self.ex = ex
        self.store = store
        self.names = names          # name -> Path (params, locals)
        self.this_path = this_path
        self.extra = extra or {}

    def read(self, path):
        return self.ex.read(path, self.store)

    def wrap(self, t):
        if isinstance(t, RefVal):
            t = self.read(t.path)
        if z3.is_expr(t) or isinstance(t, (int, bool)) or t is None:
            return t
        return W(self, t)

    def lookup(self, name):
        import keyword
        if name.endswith('_') and keyword.iskeyword(name[:-1]) and name[:-1] in self.names:
            name = name[:-1]      # C++ identifiers that are Python keywords are written with a trailing '_'
        if name in self.extra:
            return self.extra[name]
        if name in self.names:
            return self.wrap(self.read(self.names[name]))
        if name == 'this' and self.this_path is not None:
            return self.wrap(self.read(self.this_path))
        if self.this_path is not None:
            t = self.read(self.this_path)
            if isinstance(t, SVal) and name in t.f:
                return self.wrap(t.f[name])
        raise KeyError(name)


class _NS(dict):
    def __init__(self, env, base):
        super().__init__(base)
        self.env = env

    def __missing__(self, key):
        try:
            return self.env.lookup(key)
        except KeyError:
            raise NameError('spec name %r is not bound (renamed local / field?)' % key)


_qcount = [0]


def _real_q(kind, f):
    _qcount[0] += 1
    names = f.__code__.co_varnames[:f.__code__.co_argcount]
    vs = [z3.Real('%s!q%d' % (nm, _qcount[0])) for nm in names]
    body = f(*vs)
    return z3.ForAll(vs, body) if kind == 'A' else z3.Exists(vs, body)


class Unbound:
    """a name that is not in scope on the current path (e.g. a local declared after an early return, or a witness
    local seen from a call site). It absorbs every operation; using it where a value is needed is an error."""

    def __init__(self, name):
        object.__setattr__(self, '_name', name)

    def _absorb(self, *a, **k):
        return self

    def __getattr__(self, nm):
        if nm.startswith('__'):
            raise AttributeError(nm)
        return self

    __getitem__ = __call__ = __add__ = __radd__ = __sub__ = __rsub__ = __mul__ = __rmul__ = __truediv__ = _absorb
    __rtruediv__ = __neg__ = __eq__ = __ne__ = __lt__ = __le__ = __gt__ = __ge__ = _absorb

    def __bool__(self):
        raise NameError('spec name %r is not bound on this path' % self._name)

    def __hash__(self):
        return id(self)


def _when(cond, thunk):
    """Implies(cond, thunk()) where thunk may mention names that only exist on paths satisfying cond"""
    c = z3.simplify(cond) if z3.is_expr(cond) else cond
    if c is False or (z3.is_expr(c) and z3.is_false(c)):
        return z3.BoolVal(True)
    try:
        body = thunk()
        if isinstance(body, Unbound) or not (z3.is_expr(body) or isinstance(body, bool)):
            raise NameError('unbound')
    except (NameError, z3.Z3Exception, TypeError, AttributeError):
        body = z3.BoolVal(False)
    return z3.Implies(cond, body)


MODE = ['assume']     # 'prove' while a function's own postconditions are being established


def _exists_w(f, *witness):
    """existential with an explicit witness: proved by instantiating the witness (verify mode), assumed as a
    plain existential at call sites"""
    if MODE[0] == 'prove':
        if any(isinstance(w, Unbound) for w in witness):
            raise NameError('witness is not bound on this path')
        return f(*witness)
    _qcount[0] += 1
    names = f.__code__.co_varnames[:f.__code__.co_argcount]
    vs = []
    for nm, w in zip(names, witness):
        if z3.is_expr(w):
            srt = w.sort()
        elif nm[0] in 'ABZ':
            srt = z3.ArraySort(z3.IntSort(), z3.RealSort())     # convention: A.. = real sequence
        elif nm in ('pos', 'i', 'j', 'k', 'n', 'm'):
            srt = z3.IntSort()
        elif nm[0] == 'L':
            # convention: L.. = integer list (length + elements)
            ln = z3.Int('%s.len!q%d' % (nm, _qcount[0]))
            arr = z3.Const('%s!q%d' % (nm, _qcount[0]), z3.ArraySort(z3.IntSort(), z3.IntSort()))
            from .values import VecVal
            vs.append(('L', ln, arr))
            continue
        else:
            srt = z3.RealSort()
        vs.append(z3.Const('%s!q%d' % (nm, _qcount[0]), srt))
    bound, args = [], []
    for v in vs:
        if isinstance(v, tuple):
            from .values import VecVal
            bound += [v[1], v[2]]
            args.append(W(None, VecVal(v[1], v[2], ('int', 32, False))))
        else:
            bound.append(v)
            args.append(v)
    return z3.Exists(bound, f(*args))


def _bounded(kind, f, n=1):
    _qcount[0] += 1
    names = f.__code__.co_varnames[:f.__code__.co_argcount]
    vs = [z3.Int('%s!q%d' % (nm, _qcount[0])) for nm in names]
    body = f(*vs)
    return z3.ForAll(vs, body) if kind == 'A' else z3.Exists(vs, body)


TDIV = z3.Function('tdiv', z3.IntSort(), z3.IntSort(), z3.IntSort())
DIV_INSTANCES = []     # (a, b) pairs whose defining facts the executor adds to the path hypotheses


def div_facts(a, b):
    """defining facts of C's truncating division for one (a, b): a == b*q + r, |r| < |b|, sign(r) = sign(a)"""
    q = TDIV(a, b)
    r = a - b * q
    ab = z3.If(b >= 0, b, -b)
    return z3.Implies(b != 0, z3.And(z3.If(a >= 0, z3.And(r >= 0, r < ab), z3.And(r <= 0, -r < ab)),
                                     z3.Implies(z3.And(a >= 0, b > 0), z3.And(q >= 0, q <= a)),
                                     z3.Implies(z3.And(a >= 0, b > 0, a < b), q == 0)))


def tdiv(a, b):
    """C truncating division over mathematical integers. Constant positive divisors use z3's linear
    division; symbolic divisors use the function symbol TDIV with its defining facts added per instance
    (keeps z3 out of its non-linear division procedure)."""
    if isinstance(a, int):
        a = z3.IntVal(a)
    if isinstance(b, int):
        b = z3.IntVal(b)
    sa, sb = z3.simplify(a), z3.simplify(b)
    if z3.is_int_value(sb) and sb.as_long() > 0:
        if z3.is_int_value(sa):
            x, y = sa.as_long(), sb.as_long()
            return z3.IntVal(abs(x) // y * (1 if x >= 0 else -1))
        return z3.If(a >= 0, a / b, -((-a) / b))
    if z3.is_int_value(sb) and sb.as_long() < 0:
        return -tdiv(a, -b)
    if '!q' not in str(a) and '!q' not in str(b):
        DIV_INSTANCES.append((a, b))
    return TDIV(a, b)


def tmod(a, b):
    return a - b * tdiv(a, b)


def zabs(a):
    return z3.If(a >= 0, a, -a)


def zmax(a, b):
    return z3.If(a >= b, a, b)


def zmin(a, b):
    return z3.If(a <= b, a, b)


def cx(x, im=None):
    """lift a real (or a pair) to a complex spec value"""
    if isinstance(x, W):
        return x
    if isinstance(x, (int, float)):
        x = z3.RealVal(x)
    if z3.is_int(x):
        x = z3.ToReal(x)
    if im is None:
        im = z3.RealVal(0)
    elif isinstance(im, (int, float)):
        im = z3.RealVal(im)
    return W(None, SVal('dsplib::cmplx_t', {'re': x, 'im': im}))


def _arith(op):
    def f(a, b):
        if isinstance(a, W) and not isinstance(b, W) and op == '/':
            return a / b           # complex / real = (re/b, im/b)
        if isinstance(a, W) or isinstance(b, W):
            a, b = cx(a), cx(b)
        else:
            if isinstance(a, (int, float)):
                a = z3.RealVal(a)
            if isinstance(b, (int, float)):
                b = z3.RealVal(b)
            if z3.is_int(a) and z3.is_real(b):
                a = z3.ToReal(a)
            if z3.is_real(a) and z3.is_int(b):
                b = z3.ToReal(b)
        return {'+': lambda: a + b, '-': lambda: a - b, '*': lambda: a * b, '/': lambda: a / b}[op]()
    return f


def eqv(a, b):
    """equality with real -> complex promotion"""
    if isinstance(a, W) or isinstance(b, W):
        a, b = cx(a), cx(b)
        return a == b
    if isinstance(a, (int, float)):
        a = z3.RealVal(a)
    if isinstance(b, (int, float)):
        b = z3.RealVal(b)
    if z3.is_int(a) and z3.is_real(b):
        a = z3.ToReal(a)
    if z3.is_real(a) and z3.is_int(b):
        b = z3.ToReal(b)
    return a == b


def _pow2(y, bits=64):
    from .core import pow2_ite
    if isinstance(y, int):
        return z3.IntVal(1 << y)
    return pow2_ite(y, bits)


def _If(c, a, b):
    if isinstance(a, W) or isinstance(b, W):
        from .values import ite as _ite
        a, b = cx(a), cx(b)
        return W(a._env or b._env, _ite(c, a._t, b._t))
    return z3.If(c, a, b)


def _ghost_int(name):
    """a universally quantified ghost integer of a contract (free symbol; reported in counterexamples)"""
    return z3.Int('ghost.' + name)



def _is_int(x):
    """IsInt of a term that may already be of integer sort (a local whose C++ type changed from double to int keeps the meaning)"""
    x = getattr(x, 'z', x)
    if z3.is_expr(x) and x.sort() == z3.IntSort():
        return z3.BoolVal(True)
    return z3.IsInt(x)

BASE_NS = {
    'ghost_int': _ghost_int, 'IsInt': _is_int,
    'pow2': _pow2,
    'add': _arith('+'), 'sub': _arith('-'), 'mul': _arith('*'), 'div': _arith('/'), 'eqv': eqv,
    'cx': cx, 'CDIV_DEF': cdiv_def, 'INSLICE': INSLICE, 'INSLICE_AX': inslice_ax, 'INSLICE_AT': inslice_at, 'INSLICE_BASE': inslice_base, 'INSLICE_STEP': inslice_step,
    'And': z3.And, 'Or': z3.Or, 'Not': z3.Not, 'Implies': z3.Implies, 'If': _If, 'Xor': z3.Xor,
    'forall': lambda f: _bounded('A', f), 'exists': lambda f: _bounded('E', f),
    'exists_w': _exists_w, 'when': _when,
    'forall_real': lambda f: _real_q('A', f), 'exists_real': lambda f: _real_q('E', f),
    'INT_MIN': INT_MIN, 'INT_MAX': INT_MAX, 'tdiv': tdiv, 'tmod': tmod, 'absz': zabs, 'zmax': zmax, 'zmin': zmin,
    'ToReal': z3.ToReal, 'ToInt': z3.ToInt, 'IntVal': z3.IntVal, 'RealVal': z3.RealVal, 'BoolVal': z3.BoolVal,
    'same': same, 'True': True, 'False': False, 'Select': z3.Select, 'z3': z3, 'Q': z3.Q, 'Sum': z3.Sum,
}


_parse_cache = {}


def _names_of(expr):
    if expr in _parse_cache:
        return _parse_cache[expr]
    import ast
    tree = ast.parse(expr.strip(), mode='eval')
    bound = set()
    used = set()
    for n in ast.walk(tree):
        if isinstance(n, ast.Lambda):
            for a in n.args.args:
                bound.add(a.arg)
        elif isinstance(n, ast.Name):
            used.add(n.id)
    code = compile(tree, '<spec>', 'eval')
    _parse_cache[expr] = (code, used - bound)
    return _parse_cache[expr]


from . import specfun as _sf   # noqa: E402
BASE_NS.update(_sf.NS)


def _coprime(a, b):
    from .prelude import COPRIME
    return COPRIME(a, b)


BASE_NS['coprime'] = _coprime


def spec_eval_term(expr, env, extra=None):
    return spec_eval(expr, env, extra, term=True)


def spec_eval(expr, env, extra=None, term=False):
    if callable(expr):
        ns = _NS(env, BASE_NS)
        if extra:
            ns.update(extra)
        return expr(ns)
    code, used = _names_of(expr)
    g = {'__builtins__': {}}
    for nm in used:
        if extra and nm in extra:
            g[nm] = extra[nm]
            continue
        try:
            g[nm] = env.lookup(nm)      # program names (parameters, locals, fields) shadow spec helpers
            continue
        except KeyError:
            pass
        if nm in BASE_NS:
            g[nm] = BASE_NS[nm]
        else:
            if True:
                if 'when(' in expr or 'exists_w(' in expr:
                    g[nm] = Unbound(nm)
                else:
                    raise NameError('spec name %r is not bound (renamed local / field?) in: %s' % (nm, expr))
    r = eval(code, g)
    if term:
        if isinstance(r, int) and not isinstance(r, bool):
            r = z3.IntVal(r)
        return r
    if isinstance(r, bool):
        r = z3.BoolVal(r)
    if isinstance(r, W):
        raise Unsupported('spec expression is not boolean: ' + str(expr))
    return r
