"""Call handling: contracts at call sites, inlining of tiny accessors, models of the trusted standard
library (the prelude), constructors."""
import re
import z3

from .values import (SVal, VecVal, PtrVal, RefVal, Opaque, FuncRef, Path, Unsupported, fresh, default_value,
                     const_lifted, select, store, ite, tree_eq, vec_eq, tmap, leaves)
from . import spec as S
from .core import ThrowSignal, ReturnSignal, PathEnd, SpecError, int_range, PI
from . import prelude


class OldNS:
    def __init__(self, env):
        self._env = env

    def __getattr__(self, name):
        try:
            return self._env.lookup(name)
        except KeyError:
            raise AttributeError(name)


def fresh_like(ex, t, name):
    if isinstance(t, SVal):
        return SVal(t.cls, {k: fresh_like(ex, v, name + '.' + k) for k, v in t.f.items()})
    if isinstance(t, VecVal):
        return VecVal(fresh_like(ex, t.len, name + '.len'), fresh_like(ex, t.data, name + '[]'), t.el)
    if z3.is_expr(t):
        return z3.Const(ex.fresh_name(name), t.sort())
    if isinstance(t, PtrVal):
        return t
    if isinstance(t, RefVal):
        return t
    if isinstance(t, Opaque):
        return Opaque(ex.fresh_name(t.name))
    raise Unsupported('fresh_like %r' % (t,))


def strip_casts(n):
    while n.get('kind') in ('ImplicitCastExpr', 'ParenExpr', 'ExprWithCleanups', 'CXXBindTemporaryExpr',
                            'MaterializeTemporaryExpr', 'ConstantExpr', 'CXXFunctionalCastExpr',
                            'CXXStaticCastExpr') and n.get('inner'):
        if n.get('kind') in ('CXXFunctionalCastExpr', 'CXXStaticCastExpr') and n.get('castKind') not in ('NoOp', 'ConstructorConversion'):
            break
        n = n['inner'][0]
    return n


def callee_ref(n):
    c = n['inner'][0]
    c = strip_casts(c)
    if c.get('kind') == 'DeclRefExpr':
        return c['referencedDecl']
    if c.get('kind') == 'MemberExpr':
        return {'id': c.get('referencedMemberDecl'), 'name': c.get('name'), 'kind': 'CXXMethodDecl', 'member': c}
    if c.get('kind') == 'UnresolvedLookupExpr':
        raise Unsupported('unresolved (dependent) call %s' % c.get('name'))
    raise Unsupported('callee expression %s at line %s' % (c.get('kind'), n.get('_line')))


def params_of(decl):
    return [c for c in decl.get('inner', ()) if c.get('kind') == 'ParmVarDecl']


def body_of(decl):
    for c in decl.get('inner', ()):
        if c.get('kind') == 'CompoundStmt':
            return c
    return None


def ret_type(decl):
    t = decl['type']['qualType']
    # "R (args) quals"
    depth = 0
    for i, ch in enumerate(t):
        if ch == '<':
            depth += 1
        elif ch == '>':
            depth -= 1
        elif ch == '(' and depth == 0:
            return t[:i].strip()
    return t


class Calls:
    def __init__(self):
        self.inline_depth = 0

    # --------------------------------------------------------------------------------- entry points
    def call_expr(self, ex, n):
        r = callee_ref(n)
        args = n['inner'][1:]
        if r.get('kind') == 'CXXMethodDecl' and 'member' in r:
            return self.member_call(ex, n)
        decl = ex.tu.decls.get(r['id'])
        if decl is not None and decl.get('_qual'):
            return self.call_decl(ex, decl, None, args, n)
        return prelude.call_free(ex, r.get('name'), args, n)

    def member_call(self, ex, n):
        m = strip_casts(n['inner'][0])
        if m.get('kind') != 'MemberExpr':
            raise Unsupported('member call through %s' % m.get('kind'))
        args = n['inner'][1:]
        objn = m['inner'][0]
        name = m.get('name')
        decl = ex.tu.decls.get(m.get('referencedMemberDecl'))
        objtype = objn['type'].get('desugaredQualType') or objn['type']['qualType']
        if decl is not None and decl.get('_qual') and not prelude.is_modelled_method(ex, decl, objtype, name):
            if m.get('isArrow'):
                pv = ex.ev(objn)
                if isinstance(pv, PtrVal) and pv.path is None:
                    ex.oblige('bounds', 'null-dereference', z3.BoolVal(False), n)
                    raise PathEnd()
                if not isinstance(pv, PtrVal):
                    raise Unsupported('arrow call on %r' % (pv,))
                tp = pv.path if pv.off is None else pv.path
            else:
                tp = ex.lv(objn)
            decl = self.devirtualise(ex, decl, tp)
            return self.call_decl(ex, decl, tp, args, n)
        return prelude.call_method(ex, objtype, name, objn, m.get('isArrow', False), args, n, decl)

    def operator_call(self, ex, n):
        r = callee_ref(n)
        ops = n['inner'][1:]
        decl = ex.tu.decls.get(r['id'])
        name = r.get('name')
        if decl is not None and decl.get('_qual'):
            if decl.get('kind') == 'CXXMethodDecl':
                objn = ops[0]
                objtype = objn['type'].get('desugaredQualType') or objn['type']['qualType']
                if prelude.is_modelled_method(ex, decl, objtype, name):
                    return prelude.call_method(ex, objtype, name, objn, False, ops[1:], n, decl)
                tp = ex.lv(objn)
                return self.call_decl(ex, decl, tp, ops[1:], n)
            return self.call_decl(ex, decl, None, ops, n)
        # external operator: member or free
        if r.get('kind') == 'CXXMethodDecl':
            objn = ops[0]
            objtype = objn['type'].get('desugaredQualType') or objn['type']['qualType']
            return prelude.call_method(ex, objtype, name, objn, False, ops[1:], n, None)
        return prelude.call_free(ex, name, ops, n)

    def devirtualise(self, ex, decl, tp):
        """virtual call on an object whose dynamic class is known (created by make_shared in this function)"""
        if not decl.get('virtual'):
            return decl
        try:
            v = ex.read(tp)
        except Unsupported:
            return decl
        if not isinstance(v, SVal):
            return decl
        qual = v.cls + '::' + decl.get('name', '')
        if qual == decl.get('_qual'):
            return decl
        cands = [d for d in ex.tu.decls.values() if d.get('_qual') == qual and d.get('kind') == 'CXXMethodDecl'
                 and d['type']['qualType'].split(')')[0] == decl['type']['qualType'].split(')')[0]]
        if not cands:
            return decl     # not overridden: the base implementation runs
        cands.sort(key=lambda d: body_of(d) is None)
        return cands[0]

    # --------------------------------------------------------------------------------- binding
    def bind_args(self, ex, decl, args, n):
        """evaluate call arguments according to the callee's parameter kinds -> list of (name, Path)"""
        ps = params_of(decl)
        out = []
        for i, p in enumerate(ps):
            sh = ex.shapes.of_node(p)
            if i < len(args):
                a = args[i]
            else:
                a = {'kind': 'CXXDefaultArgExpr'}
            if a.get('kind') == 'CXXDefaultArgExpr':
                init = [c for c in p.get('inner', ()) if c.get('kind') not in ('TemplateArgument',) and 'Comment' not in c.get('kind', '')]
                if not init:
                    # default declared on the in-class declaration
                    init = self.default_from_prev(ex, decl, i)
                if not init:
                    raise Unsupported('default argument of %s not found' % p.get('name'))
                a = init[0]
            if sh[0] == 'ref':
                path = ex.lv(a)
            else:
                v = ex.ev(a)
                if isinstance(v, RefVal):
                    v = ex.read(v.path)
                v = ex.coerce(v, sh)
                path = ex.new_root('arg_' + p.get('name', 'p%d' % i), v)
            out.append((p.get('name', 'p%d' % i), path, p))
        return out

    def default_from_prev(self, ex, decl, i):
        prev = decl.get('previousDecl')
        while prev:
            d = ex.tu.decls.get(prev)
            if d is None:
                return None
            ps = params_of(d)
            if i < len(ps):
                init = [c for c in ps[i].get('inner', ()) if c.get('kind') not in ('TemplateArgument',)]
                if init:
                    return init
            prev = d.get('previousDecl')
        # search all decls with the same qualified name and type
        for did, d in ex.tu.decls.items():
            if d.get('_qual') == decl.get('_qual') and d is not decl and d.get('type') == decl.get('type'):
                ps = params_of(d)
                if i < len(ps):
                    init = [c for c in ps[i].get('inner', ()) if c.get('kind') not in ('TemplateArgument',)]
                    if init:
                        return init
        return None

    def definition_of(self, ex, decl):
        if body_of(decl) is not None:
            return decl
        for f in ex.tu.funcs.get(decl.get('_qual'), ()):
            if f.get('type') == decl.get('type') and f.get('_targs') == decl.get('_targs'):
                return f
        return None

    # --------------------------------------------------------------------------------- dispatch
    def call_decl(self, ex, decl, this_path, args, n):
        qual = decl['_qual']
        typestr = decl['type']['qualType']
        c = S.lookup(qual, typestr, decl.get('_targs'))
        if c is None and (decl.get('isImplicit') or decl.get('explicitlyDefaulted') == 'default') and qual.endswith('::operator=') and this_path is not None and len(args) == 1:
            # compiler-generated copy / move assignment: memberwise copy of the whole object
            src = ex.ev(args[0])
            if isinstance(src, RefVal):
                src = ex.read(src.path)
            if isinstance(src, SVal):
                ex.write(this_path, src)
                return RefVal(this_path)
        if c is None:
            m = prelude.model_for(qual)
            if m is not None:
                return m(ex, decl, this_path, args, n)
            raise Unsupported('no contract for callee %s : %s (line %s)' % (qual, typestr, n.get('_line')))
        bound = self.bind_args(ex, decl, args, n)
        if c.param_names and len(c.param_names) == len(bound):
            # the contract speaks in the definition's parameter names; this TU may only see a prototype with other names
            bound = [(nm, path, p) for nm, (_, path, p) in zip(c.param_names, bound)]
        if c.inline:
            d = self.definition_of(ex, decl)
            if d is None:
                raise Unsupported('inline callee %s has no body in this TU' % qual)
            return self.inline(ex, d, c, this_path, bound, n)
        return self.apply_contract(ex, c, decl, this_path, bound, n)

    def inline(self, ex, decl, c, this_path, bound, n):
        if self.inline_depth > 6:
            raise Unsupported('inline depth')
        self.inline_depth += 1
        saved = (ex.this_path, ex.names, ex.cur_contract, ex.cur_fnode)
        ex.names = dict()
        for name, path, p in bound:
            sh = ex.shapes.of_node(p)
            ex.store[p['id']] = RefVal(path) if True else None
            ex.names[name] = Path(p['id'])
        ex.this_path = this_path
        ex.cur_contract = c
        ex.cur_fnode = decl
        ex.loops.enter_function(ex, decl)
        rt = ex.shapes.of(ret_type(decl)) if decl.get('kind') != 'CXXConstructorDecl' else ('void',)
        isref = rt[0] == 'ref'
        if n is not None and n.get('kind') in ('CallExpr', 'CXXMemberCallExpr', 'CXXOperatorCallExpr'):
            isref = n.get('valueCategory') in ('lvalue', 'xvalue')
        ex.ret_is_ref.append(isref)
        try:
            try:
                if decl.get('kind') == 'CXXConstructorDecl':
                    self.run_ctor_inits(ex, decl)
                ex.ex(body_of(decl))
                rv = None
            except ReturnSignal as r:
                rv = r.val
        finally:
            ex.ret_is_ref.pop()
            ex.loops.leave_function(ex)
            ex.this_path, ex.names, ex.cur_contract, ex.cur_fnode = saved
            self.inline_depth -= 1
        return rv

    def apply_contract(self, ex, c, decl, this_path, bound, n, is_ctor=False):
        names = {name: path for name, path, p in bound}
        for g in c.globals:
            names[g] = ex.ensure_global(g)
        pre_store = dict(ex.store)
        env_pre = S.Env(ex, pre_store, names, this_path, dict(c.extra_env))
        extra = dict(c.extra_env)
        for k, e in c.lets.items():
            extra[k] = S.spec_eval_term(e, env_pre, extra)
            env_pre.extra[k] = extra[k]
        # ghost hooks of the *calling* function on this call's arguments (values at call time); they run before the callee's
        # preconditions are checked, so that lemma instances the caller attaches to this call can be used for them
        try:
            argvals = [ex.read(path) for _, path, _ in bound]
        except Unsupported:
            argvals = []
        ex.ghost_trigger('call:' + re.sub(r'<.*>', '', c.name).split('::')[-1], None, argvals)
        ghost_req = []
        for i, r in enumerate(c.requires):
            lab, e = r if isinstance(r, tuple) else ('req%d' % i, r)
            if lab.startswith('ghost'):
                # ranges of the callee's ghost (universally quantified) variables: not a caller obligation
                ghost_req.append(S.spec_eval(e, env_pre, extra))
                continue
            ex.oblige('pre', '%s.%s' % (c.name.split('::')[-1], lab), S.spec_eval(e, env_pre, extra), n,
                      props=None)
        ghosts = [v for v in extra.values() if z3.is_expr(v) and z3.is_const(v) and str(v).startswith('ghost.')]
        if c.trusted:
            ex.assumed.add('trusted contract: ' + c.key)
        if c.fn_params:
            self.check_fn_params(ex, c, bound, extra, n)
        if c.throws is not None:
            cond = S.spec_eval(c.throws, env_pre, extra)
            if ex.decide(cond):
                self.havoc_assigns(ex, c, this_path, names, exc=True)
                raise ThrowSignal()
        elif c.may_throw:
            b = z3.Bool(ex.fresh_name('maythrow_' + c.name.split('::')[-1]))
            if ex.decide(b):
                raise ThrowSignal()
        self.havoc_assigns(ex, c, this_path, names)
        if is_ctor and this_path is not None and 'this' in c.assigns:
            # a constructed object's owning / shared pointer members point to objects of their own (non-null, of their
            # static type), exactly as for a receiver whose construction is not seen (verify.bind_ref_fields)
            self.materialise_ptr_members(ex, this_path)
        for fld, tgt in c.binds.items():
            ex.write(this_path.field(fld), RefVal(self.bind_target(ex, tgt, names, this_path)))
        # result
        if decl.get('kind') == 'CXXConstructorDecl':
            result = None
        else:
            rt = ex.shapes.of(ret_type(decl))
            if n is not None and n.get('kind') in ('CallExpr', 'CXXMemberCallExpr', 'CXXOperatorCallExpr'):
                vsh = ex.shapes.of_node(n)
                if n.get('valueCategory') in ('lvalue', 'xvalue'):
                    rt = ('ref', vsh)
                elif vsh[0] != 'opaque':
                    rt = vsh
            if rt[0] == 'ref':
                rr = getattr(c, 'returns_ref', None) or c.extra_env.get('__returns_ref__')
                if rr is None:
                    raise SpecError('contract %s returns a reference: needs returns_ref' % c.key)
                if rr == 'fresh':
                    # a reference into state the contract keeps abstract: an unknown object of the referenced type
                    fv = fresh(rt[1], ex.fresh_name('ret_' + c.name.split('::')[-1]))
                    result = RefVal(ex.new_root('ref_' + c.name.split('::')[-1], fv))
                else:
                    result = RefVal(this_path if rr == 'this' else names[rr])
            elif rt[0] == 'void':
                result = None
            elif c.value is not None:
                # the contract fixes the result as a term of the arguments: substitute it (no fresh symbol)
                result = S.spec_eval_term(c.value, env_pre, extra)
                if rt[0] == 'real' and z3.is_expr(result) and z3.is_int(result):
                    result = z3.ToReal(result)
            else:
                result = fresh(rt, ex.fresh_name('ret_' + c.name.split('::')[-1]))
                self.type_inv(ex, result, rt)
        env_post = S.Env(ex, ex.store, names, this_path, extra)
        ex2 = dict(extra)
        for g, e in c.ghost.items():
            # ghost state of the callee is not visible to callers: an unknown value of the right sort
            v0 = S.spec_eval_term(e, env_pre, extra)
            if z3.is_expr(v0):
                ex2[g] = z3.Const(ex.fresh_name('ghost_' + g), v0.sort())
            elif isinstance(v0, S.W):
                # structured ghost (an array the callee builds on the way): an unknown value of the same shape
                fv = fresh_like(ex, v0.tree, ex.fresh_name('ghost_' + g))
                self.type_inv_tree(ex, fv)
                ex2[g] = env_post.wrap(fv)
            else:
                ex2[g] = v0
        ex2['old'] = OldNS(env_pre)
        if result is not None and not isinstance(result, RefVal):
            ex2['result'] = env_post.wrap(result)
        elif isinstance(result, RefVal):
            ex2['result'] = env_post.wrap(ex.read(result.path))
        S.MODE[0] = 'assume'
        for lab, e in c.ensures:
            if lab.startswith(('hint:', 'local:')):    # 'local:' clauses speak about the callee's own locals: proved there, not exported
                continue      # proof hints speak about the callee's own variables
            fe = S.spec_eval(e, env_post, ex2)
            if ghosts and any(str(g) in str(fe) for g in ghosts):
                # proved for arbitrary ghost values in their range: holds for all of them
                fe = z3.ForAll(ghosts, z3.Implies(z3.And(*ghost_req) if ghost_req else z3.BoolVal(True), fe))
            ex.assume(fe)
        if result is not None and not isinstance(result, RefVal):
            ex.ghost_trigger('ret:' + re.sub(r'<.*>', '', c.name).split('::')[-1], None, [result])
        if is_ctor and this_path is not None:
            self.propagate_constants(ex, this_path)
        return result

    def propagate_constants(self, ex, path):
        """integer members of a freshly constructed object whose value the contract fixes to a literal (a unit stride, a
        zero offset) are replaced by that literal: later formulas then contain k*1 instead of k*m with m == 1 as a side
        fact (keeps the quantified clauses of the slice contracts linear)"""
        try:
            v = ex.read(path)
        except Unsupported:
            return
        if not isinstance(v, SVal):
            return
        cands = [(k, x) for k, x in v.f.items() if z3.is_expr(x) and z3.is_int(x) and z3.is_const(x)
                 and x.decl().kind() == z3.Z3_OP_UNINTERPRETED]
        if not cands:
            return
        from .core import _has_quant
        s = ex.mk_solver(120000, seed=0, rlimit=200000)
        for h in ex.hyps:
            if not _has_quant(h):
                s.add(h)
        if s.check() != z3.sat:
            return
        m = s.model()
        nf = dict(v.f)
        changed = False
        for k, x in cands:
            val = m.eval(x, model_completion=False)
            if not z3.is_int_value(val) or abs(val.as_long()) > 4:
                continue
            s.push()
            s.add(x != val)
            r = s.check()
            s.pop()
            if r == z3.unsat:
                nf[k] = val
                changed = True
        if changed:
            ex.write(path, SVal(v.cls, nf))

    def check_fn_params(self, ex, c, bound, extra, n):
        """function-valued parameters of the callee: the caller's contract names the callee's ghost functions
        (ghost_fn_args); the actual argument is run on arbitrary arguments satisfying the parameter's precondition and must
        establish the parameter's postconditions; the ghost functions are then available to the callee's ensures"""
        from .values import LambdaVal, FuncRef
        short = re.sub(r'<.*>', '', c.name).split('::')[-1]
        given = (ex.cur_contract.ghost_fn_args.get(short) if ex.cur_contract else None) or {}
        env0 = S.Env(ex, ex.store, dict(ex.names), ex.this_path, {})
        for g, sorts in c.ghost_fns.items():
            if g not in given:
                raise S.SpecError('call of %s: ghost function %s is not named by the calling contract' % (short, g))
            extra[g] = S.spec_eval_term(given[g], env0, dict(ex.spec_lets, **(ex.cur_contract.extra_env if ex.cur_contract else {})))
        for pname, spec in c.fn_params.items():
            path = [pp for nm, pp, _ in bound if nm == pname]
            if not path:
                raise S.SpecError('no parameter %s' % pname)
            fv = ex.read(path[0])
            # arbitrary arguments
            avals = [z3.Int(ex.fresh_name('fa_' + a)) for a in spec['args']]
            for a_ in avals:
                ex.assume(z3.And(a_ >= S.INT_MIN, a_ <= S.INT_MAX))
            ex2 = dict(extra)
            ex2.update(dict(zip(spec['args'], avals)))
            envp = S.Env(ex, ex.store, {}, None, ex2)
            saved_hyps = len(ex.hyps)
            ex.assume(S.spec_eval(spec.get('requires', 'True'), envp, ex2))
            if isinstance(fv, FuncRef):
                decl = ex.tu.decls.get(fv.decl.get('id'))
                cf = S.lookup(decl['_qual'], decl['type']['qualType'], decl.get('_targs')) if decl is not None else None
                if cf is None:
                    raise Unsupported('function argument %s has no contract' % fv.decl.get('name'))
                ps = params_of(decl)
                b2 = []
                for p_, a_ in zip(ps, avals):
                    b2.append((p_.get('name'), ex.new_root('farg_' + p_.get('name', 'p'), a_), p_))
                res = self.apply_contract(ex, cf, decl, None, b2, n)
            elif isinstance(fv, LambdaVal):
                res = ex.call_lambda(fv, avals)
            else:
                raise Unsupported('function-valued argument %r' % (fv,))
            if isinstance(res, RefVal):
                res = ex.read(res.path)
            ex2['result'] = envp.wrap(res)
            for lab, e in spec['ensures']:
                ex.oblige('pre', '%s.%s.%s' % (short, pname, lab), S.spec_eval(e, envp, ex2), n)
            # the facts about the arbitrary arguments stay (they are fresh symbols); nothing to undo

    def bind_target(self, ex, tgt, names, this_path):
        parts = tgt.split('.')
        p = this_path if parts[0] == 'this' else names[parts[0]]
        for f in parts[1:]:
            p = p.field(f)
        return ex.resolve(p)

    def havoc_assigns(self, ex, c, this_path, names, exc=False):
        for a in c.assigns:
            if exc and not a.endswith('!'):
                # by default an exceptional exit leaves everything unchanged unless marked 'x!'
                continue
            a = a.rstrip('!')
            parts = a.split('.')
            if parts[0] == 'this':
                p = this_path
            elif parts[0] in names:
                p = names[parts[0]]
            else:
                raise SpecError('assigns target %s unknown in %s' % (a, c.key))
            for f in parts[1:]:
                p = p.field(f)
            p = ex.resolve(p)
            cur = ex.read(p)
            if isinstance(cur, PtrVal):
                # assigns through a pointer parameter: the pointee vector's elements
                tgt = ex.read(cur.path)
                ex.write(cur.path, fresh_like(ex, tgt, 'hv_' + a))
                # keep the length
                new = ex.read(cur.path)
                if isinstance(new, VecVal):
                    ex.write(cur.path, VecVal(tgt.len, new.data, new.el))
                elif isinstance(new, SVal) and set(new.f) == {'_vec'}:
                    ex.write(cur.path, SVal(new.cls, {'_vec': VecVal(tgt.f['_vec'].len, new.f['_vec'].data, new.f['_vec'].el)}))
                continue
            nv = fresh_like(ex, cur, 'hv_' + a)
            ex.write(p, nv)
            self.type_inv_tree(ex, nv)

    def type_inv(self, ex, v, sh):
        """type invariants of a fresh value (machine ranges, non-negative lengths)"""
        if sh[0] == 'int':
            lo, hi = int_range(sh[1], sh[2])
            ex.assume(z3.And(v >= lo, v <= hi))
        elif sh[0] == 'struct' and isinstance(v, SVal):
            if sh[1] in ('std::list', 'std::unordered_map'):
                from . import containers
                containers.type_inv(ex, v, sh)
            for fn_, fs in sh[2]:
                if fn_ in v.f:
                    self.type_inv(ex, v.f[fn_], fs)
        elif sh[0] == 'vec' and isinstance(v, VecVal):
            ex.assume(z3.And(v.len >= 0, v.len <= S.INT_MAX))
            if len(sh) == 3:
                ex.assume(v.len == sh[2])       # fixed extent (T[N], std::array<T, N>)
            if sh[1][0] == 'int':
                lo, hi = int_range(sh[1][1], sh[1][2])
                k = z3.Int(ex.fresh_name('k!ti'))
                ex.assume(z3.ForAll([k], z3.And(z3.Select(v.data, k) >= lo, z3.Select(v.data, k) <= hi)))
            elif sh[1][0] == 'struct' and any(fs[0] == 'vec' for _, fs in sh[1][2]):
                k = z3.Int(ex.fresh_name('k!ti'))
                el = select(v.data, k)
                for fn_, fs in sh[1][2]:
                    if fs[0] == 'vec':
                        ex.assume(z3.ForAll([k], z3.And(el.f[fn_].len >= 0, el.f[fn_].len <= S.INT_MAX)))

    def type_inv_tree(self, ex, v):
        if isinstance(v, SVal):
            for x in v.f.values():
                self.type_inv_tree(ex, x)
        elif isinstance(v, VecVal):
            if z3.is_int(v.len):
                ex.assume(z3.And(v.len >= 0, v.len <= S.INT_MAX))

    # --------------------------------------------------------------------------------- constructors
    def construct(self, ex, n):
        t = n['type'].get('desugaredQualType') or n['type']['qualType']
        sh = ex.shapes.of(t)
        args = list(n.get('inner', ()))
        ctype = n.get('ctorType', {}).get('qualType', '')
        if n.get('elidable') and len(args) == 1:
            return self._val(ex, args[0])
        if t.strip().startswith('(lambda at') or '(lambda at' in t:
            return self._val(ex, args[0]) if args else Opaque('lambda')
        m = prelude.ctor_model(ex, t, sh, ctype)
        if m is not None:
            return m(ex, t, sh, ctype, args, n)
        if sh[0] != 'struct':
            raise Unsupported('construct %s' % t)
        # copy / move construction of a known class
        if len(args) == 1 and self._is_copy_ctor(ex, sh, ctype):
            return self._val(ex, args[0])
        qual = sh[1]
        cname = re.sub(r'<.*>$', '', qual).split('::')[-1]
        cands = [f for f in ex.tu.decls.values() if f.get('kind') == 'CXXConstructorDecl'
                 and f.get('_qual') == qual + '::' + cname and not f.get('_dependent')
                 and (f['type']['qualType'] == ctype or self.sig_equiv(ex, f['type']['qualType'], ctype))]
        cands.sort(key=lambda f: (body_of(f) is None, f['type']['qualType'] != ctype))
        if not cands:
            if not args:
                return self.default_construct(ex, sh, n)
            raise Unsupported('constructor %s %s not found' % (qual, ctype))
        decl = cands[0]
        d = self.definition_of(ex, decl) or decl
        obj = ex.new_root('obj_' + cname, self.raw_object(ex, sh))
        c = S.lookup(d['_qual'], ctype, None)
        if c is not None and not c.inline:
            bound = self.bind_args(ex, d, args, n)
            self.apply_contract(ex, c, d, obj, bound, n, is_ctor=True)
        else:
            if body_of(d) is None:
                if d.get('explicitlyDefaulted') or decl.get('explicitlyDefaulted'):
                    return self.default_construct(ex, sh, n)
                raise Unsupported('constructor %s %s has no body here' % (qual, ctype))
            if c is None and not self.tiny(d):
                raise Unsupported('no contract for constructor %s %s (line %s)' % (qual, ctype, n.get('_line')))
            bound = self.bind_args(ex, d, args, n)
            self.inline(ex, d, c, obj, bound, n)
        return ex.read(obj)

    def sig_equiv(self, ex, t1, t2):
        from .values import split_targs
        def ps(t):
            m = re.match(r'^void \((.*)\)', t)
            if not m:
                return None
            out = []
            for a in split_targs(m.group(1)):
                try:
                    out.append(ex.shapes.of(a))
                except Unsupported:
                    out.append(('?', a))
            return out
        a, b = ps(t1), ps(t2)
        return a is not None and a == b

    def tiny(self, d):
        """constructors whose body is empty and that only have member initialisers are inlined"""
        b = body_of(d)
        return b is not None and not b.get('inner')

    def _is_copy_ctor(self, ex, sh, ctype):
        m = re.match(r'^void \((.*)\)', ctype)
        if not m or ',' in m.group(1):
            return False
        try:
            a = ex.shapes.of(m.group(1).strip())
        except Unsupported:
            return False
        if a[0] == 'ref':
            a = a[1]
        return a == sh

    def _val(self, ex, a):
        v = ex.ev(a)
        if isinstance(v, RefVal):
            v = ex.read(v.path)
        return v

    def materialise_ptr_members(self, ex, path, depth=0):
        obj = ex.read(path)
        if not isinstance(obj, SVal) or depth > 3:
            return
        try:
            sh = ex.shapes.of(obj.cls)
        except Unsupported:
            return
        if sh[0] != 'struct':
            return
        for fn_, fs in sh[2]:
            cur = obj.f.get(fn_)
            if fs[0] == 'ptr' and fs[1][0] == 'struct' and (isinstance(cur, Opaque) or (isinstance(cur, PtrVal) and cur.path is None)):
                root = ex.new_root('heap_' + fs[1][1].split('::')[-1], fresh(fs[1], ex.fresh_name('obj_' + fn_)))
                self.type_inv(ex, ex.read(root), fs[1])
                ex.write(path.field(fn_), PtrVal(root, None))
                ex.assumed.add('pointer members of a constructed object are non-null and point to objects of their static type')
                self.materialise_ptr_members(ex, root, depth + 1)
            elif fs[0] == 'struct':
                self.materialise_ptr_members(ex, path.field(fn_), depth + 1)

    def raw_object(self, ex, sh):
        f = {}
        for fn_, fs in sh[2]:
            if fs[0] in ('int', 'real', 'bool'):
                f[fn_] = fresh(fs, ex.fresh_name('uninit_' + fn_))
            elif fs[0] == 'ref':
                f[fn_] = Opaque('unbound-ref')
            elif fs[0] == 'struct':
                f[fn_] = self.default_construct(ex, fs, None)
            else:
                f[fn_] = default_value(fs)
        return SVal(sh[1], f)

    def default_construct(self, ex, sh, n):
        if sh[0] == 'struct':
            rec = ex.tu.records.get(sh[1])
            f = {}
            inits = {}
            if rec is not None:
                for c in rec.get('inner', ()):
                    if c.get('kind') == 'FieldDecl':
                        ii = [x for x in c.get('inner', ()) if 'Comment' not in x.get('kind', '')]
                        if ii:
                            inits[c['name']] = ii[0]
            for fn_, fs in sh[2]:
                if fn_ in inits:
                    f[fn_] = ex.coerce(ex.ev(inits[fn_]), fs)
                elif fs[0] == 'struct':
                    f[fn_] = self.default_construct(ex, fs, n)
                elif fs[0] in ('int', 'real', 'bool'):
                    f[fn_] = fresh(fs, ex.fresh_name('uninit_' + fn_))
                else:
                    f[fn_] = default_value(fs)
            return SVal(sh[1], f)
        return default_value(sh)

    def run_ctor_inits(self, ex, decl):
        this = ex.this_path
        sh = None
        for c in decl.get('inner', ()):
            if c.get('kind') != 'CXXCtorInitializer':
                continue
            e = c['inner'][0] if c.get('inner') else None
            if e is not None and e.get('kind') == 'CXXDefaultInitExpr' and not e.get('inner') and 'anyInit' in c:
                fd = ex.tu.decls.get(c['anyInit']['id'])
                ii = [x for x in (fd or {}).get('inner', ()) if 'Comment' not in x.get('kind', '')]
                if not ii:
                    raise Unsupported('default member initialiser of %s not found' % c['anyInit'].get('name'))
                e = ii[0]
            if 'anyInit' in c:
                fname = c['anyInit']['name']
                ft = c['anyInit']['type']
                fsh = ex.shapes.of(ft.get('desugaredQualType') or ft['qualType'])
                if fsh[0] == 'ref':
                    ee = e
                    while ee.get('kind') in ('InitListExpr', 'ParenListExpr') or ee.get('kind') in ('ExprWithCleanups',):
                        ee = ee['inner'][0]
                    v = RefVal(ex.lv(ee))
                else:
                    v = ex.ev(e)
                    if isinstance(v, RefVal):
                        v = ex.read(v.path)
                    v = ex.coerce(v, fsh)
                ex.write(this.field(fname), v)
            elif 'baseInit' in c:
                v = ex.ev(e)
                if isinstance(v, SVal):
                    for k, x in v.f.items():
                        ex.write(this.field(k), x)
            elif c.get('delegatingInit') is not None or 'delegatingInit' in c:
                v = ex.ev(e)
                ex.write(this, v)
            else:
                raise Unsupported('ctor initializer form %s' % list(c.keys()))
