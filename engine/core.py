"""Forward symbolic executor over clang's typed JSON AST, generating proof obligations (VCs) that are
discharged by z3.  Modular: calls to functions under contract are replaced by their contracts; loops are
cut by inductive invariants.  Integers are mathematical (explicit machine-range obligations), doubles are
reals (assumption A1), libm functions are uninterpreted with axioms (assumption A2)."""
import time
from fractions import Fraction
import z3

from .values import (LambdaVal, TupleVal, SVal, VecVal, PtrVal, RefVal, Opaque, FuncRef, Path, Shapes, Unsupported, fresh,
                     default_value, const_lifted, select, store, ite, tree_eq, vec_eq, tmap, leaves)
from . import spec as S


class ThrowSignal(Exception):
    pass


class ReturnSignal(Exception):
    def __init__(self, val):
        self.val = val


class BreakSignal(Exception):
    pass


class ContinueSignal(Exception):
    pass


class PathEnd(Exception):
    """path cut (after a loop-body iteration was checked against the invariant, or infeasible)"""


class SpecError(Exception):
    pass


TRANSPARENT = {'ParenExpr', 'ExprWithCleanups', 'CXXBindTemporaryExpr', 'ConstantExpr',
               'SubstNonTypeTemplateParmExpr', 'FullExpr'}

SIZEOF = {'double': 8, 'float': 4, 'int': 4, 'dsplib::cmplx_t': 16, 'cmplx_t': 16, 'dsplib::real_t': 8,
          'real_t': 8, 'char': 1, 'unsigned int': 4, 'long': 8, 'unsigned long': 8, 'short': 2,
          'unsigned short': 2, 'uint16_t': 2, 'uint32_t': 4, 'const double': 8, 'const dsplib::cmplx_t': 16,
          'const int': 4}


class Obligation:
    __slots__ = ('name', 'kind', 'label', 'props', 'status', 'model', 'secs', 'line', 'func', 'detail', 'nvars', 'vc')

    def __init__(self, name, kind, label, props, status, model, secs, line, func, detail=''):
        self.name, self.kind, self.label, self.props = name, kind, label, props
        self.status, self.model, self.secs, self.line, self.func, self.detail = status, model, secs, line, func, detail
        self.vc = 0

    def as_dict(self):
        return {'name': self.name, 'kind': self.kind, 'props': list(self.props), 'status': self.status,
                'model': self.model, 'secs': round(self.secs, 4), 'line': self.line, 'func': self.func,
                'detail': self.detail, 'vc': self.vc}


_hq_cache = {}


def _has_quant(e):
    k = e.get_id()
    if k in _hq_cache:
        return _hq_cache[k]
    r = False
    stack = [e]
    seen = set()
    while stack:
        x = stack.pop()
        i = x.get_id()
        if i in seen:
            continue
        seen.add(i)
        if z3.is_quantifier(x):
            r = True
            break
        stack.extend(x.children())
    _hq_cache[k] = r
    return r


def _has_call(n):
    if not isinstance(n, dict):
        return False
    if n.get('kind') in ('CallExpr', 'CXXMemberCallExpr', 'CXXOperatorCallExpr', 'CXXConstructExpr',
                         'CXXTemporaryObjectExpr', 'InitListExpr'):
        return True
    return any(_has_call(c) for c in n.get('inner', ()))


def as_int(v):
    """integer expression equal to the real expression v when v is integral by construction
    (ToReal of an integer, closed under +, -, unary -, * and if-then-else); None otherwise"""
    if not z3.is_expr(v):
        return None
    if z3.is_int(v):
        return v
    if z3.is_rational_value(v):
        if v.denominator_as_long() == 1:
            return z3.IntVal(v.numerator_as_long())
        return None
    k = v.decl().kind()
    ch = v.children()
    if k == z3.Z3_OP_TO_REAL:
        return ch[0]
    if k in (z3.Z3_OP_ADD, z3.Z3_OP_SUB, z3.Z3_OP_MUL):
        xs = [as_int(c) for c in ch]
        if any(x is None for x in xs):
            return None
        r = xs[0]
        for x in xs[1:]:
            r = {z3.Z3_OP_ADD: lambda a, b: a + b, z3.Z3_OP_SUB: lambda a, b: a - b, z3.Z3_OP_MUL: lambda a, b: a * b}[k](r, x)
        return r
    if k == z3.Z3_OP_UMINUS:
        x = as_int(ch[0])
        return None if x is None else -x
    if k == z3.Z3_OP_ITE:
        a, b = as_int(ch[1]), as_int(ch[2])
        if a is None or b is None:
            return None
        c = ch[0]
        # conditions comparing ToReal(x) with ToReal(y) are rewritten over the integers
        return z3.If(int_cond(c), a, b)
    return None


def int_cond(c):
    k = c.decl().kind()
    ch = c.children()
    if k in (z3.Z3_OP_LE, z3.Z3_OP_GE, z3.Z3_OP_LT, z3.Z3_OP_GT, z3.Z3_OP_EQ) and len(ch) == 2:
        a, b = as_int(ch[0]), as_int(ch[1])
        if a is not None and b is not None and (z3.is_real(ch[0]) or z3.is_real(ch[1])):
            return {z3.Z3_OP_LE: a <= b, z3.Z3_OP_GE: a >= b, z3.Z3_OP_LT: a < b, z3.Z3_OP_GT: a > b,
                    z3.Z3_OP_EQ: a == b}[k]
    return c


def int_range(bits, signed):
    if signed:
        return -(1 << (bits - 1)), (1 << (bits - 1)) - 1
    return 0, (1 << bits) - 1


def is_true(e):
    return z3.is_true(e) or e is True


def is_false(e):
    return z3.is_false(e) or e is False


class Exec:
    def __init__(self, tu, fnode, contract, scenario=None, timeout_ms=20000, seed=0, builtins=None,
                 only_labels=None):
        self.tu = tu
        self.shapes = Shapes(tu)
        self.fnode = fnode
        self.contract = contract
        self.scenario = scenario or {}
        self.timeout_ms = timeout_ms
        self.seed = seed
        self.builtins = builtins
        self.obligations = []
        self.fname = contract.key if contract else fnode.get('_qual', '?')
        self.cnt = 0
        self.npaths = 0
        self.exits = {'return': 0, 'throw': 0}
        self.feas_cache = {}
        self.solver_secs = 0.0
        self.nqueries = 0
        self.only_labels = only_labels
        self.covers = {}
        self.known = []
        self.assumed = set()   # descriptions of assumptions used (trusted contracts, axioms)

    # ------------------------------------------------------------------ infrastructure
    def fresh_name(self, base):
        self.cnt += 1
        return '%s!%d' % (base, self.cnt)

    def mk_solver(self, timeout=None, seed=None, rlimit=None):
        s = z3.Solver()
        s.set('timeout', timeout or self.timeout_ms)
        s.set('random_seed', self.seed if seed is None else seed)
        if rlimit:
            # deterministic resource limit (wall-clock limits made path pruning / simplification timing dependent)
            s.set('rlimit', rlimit)
        return s

    def feasible(self, cond):
        """False only when hyps /\\ cond is certainly unsatisfiable"""
        # pruning uses the quantifier-free hypotheses only (fewer hypotheses: never prunes a feasible path)
        s = self.mk_solver(120000, seed=0, rlimit=300000)     # deterministic: independent of VERIF_SEED and machine load
        for h in self.hyps:
            if not _has_quant(h):
                s.add(h)
        s.add(cond)
        t = time.time()
        r = s.check()
        self.solver_secs += time.time() - t
        return r != z3.unsat

    def decide(self, cond):
        if isinstance(cond, bool):
            return cond
        self.flush_div()
        cond = z3.simplify(cond)
        if z3.is_true(cond):
            return True
        if z3.is_false(cond):
            return False
        i = len(self.decisions)
        if i < len(self.forced):
            choice = self.forced[i]
        else:
            ft = self.feasible(cond)
            ff = self.feasible(z3.Not(cond))
            if ft and ff:
                self.work.append(self.decisions + [False])
                choice = True
            elif ft:
                choice = True
            elif ff:
                choice = False
            else:
                # neither branch is satisfiable: the hypotheses of this path are inconsistent. After a failed obligation
                # (whose goal is assumed) that is expected; otherwise it is a contradictory contract / model: vacuity
                if not any(o.status != 'discharged' for o in self.obligations):
                    # a branch condition taken earlier on this path may simply have been infeasible (dead branch): only
                    # hypotheses that are inconsistent without the branch conditions count
                    dec = getattr(self, 'decision_hyps', set())
                    sv = self.mk_solver(20000, seed=0)
                    for h in self.hyps:
                        if h.get_id() not in dec and not _has_quant(h):
                            sv.add(h)
                    if sv.check() == z3.unsat:
                        self.inconsistent = getattr(self, 'inconsistent', 0) + 1
                        import os as _os
                        if _os.environ.get('VERIF_DEBUG_VACUITY'):
                            sc = z3.Solver()
                            sc.set('unsat_core', True)
                            hs = [h for h in self.hyps if h.get_id() not in dec and not _has_quant(h)]
                            for i_, h in enumerate(hs):
                                sc.assert_and_track(h, 'h%d' % i_)
                            sc.check()
                            for c_ in sc.unsat_core():
                                print('VACUITY CORE', hs[int(str(c_)[1:])].sexpr()[:500])
                raise PathEnd()
        self.decisions.append(choice)
        hc = cond if choice else z3.Not(cond)
        self.hyps.append(hc)
        if not hasattr(self, 'decision_hyps'):
            self.decision_hyps = set()
        self.decision_hyps.add(hc.get_id())
        return choice

    def assume(self, cond):
        if isinstance(cond, bool):
            if not cond:
                raise PathEnd()
            return
        # conjunctions are split so that quantifier-free conjuncts stay usable in the quantifier-free stage
        if z3.is_and(cond):
            for ch in cond.children():
                self.assume(ch)
            return
        self.hyps.append(cond)
        if getattr(self, '_deriving', False):
            # the goal of an obligation, kept as a hypothesis: a consequence, not an assumption (vacuity guard)
            if not hasattr(self, 'decision_hyps'):
                self.decision_hyps = set()
            self.decision_hyps.add(cond.get_id())

    @property
    def recording(self):
        return len(self.decisions) >= len(self.forced)

    def flush_div(self):
        if S.DIV_INSTANCES:
            inst, S.DIV_INSTANCES[:] = list(S.DIV_INSTANCES), []
            for a, b in inst:
                key = (a.get_id(), b.get_id())
                if key in self.div_seen:
                    continue
                self.div_seen.add(key)
                self.hyps.append(S.div_facts(a, b))

    def oblige(self, kind, label, goal, node=None, props=None, detail=''):
        """record and immediately check a proof obligation: hyps |- goal; afterwards goal is assumed"""
        self.flush_div()
        if isinstance(goal, bool):
            goal = z3.BoolVal(goal)
        line = node.get('_line') if isinstance(node, dict) else node
        if self.guards:
            goal = z3.Implies(z3.And(*self.guards), goal)
        if self.recording and not self.dry and (self.only_labels is None or label in self.only_labels):
            loc = ''
            if line and kind not in ('ensures', 'ensures_exc', 'throws', 'frame'):
                fn_ = self.cur_fnode if getattr(self, 'cur_fnode', None) is not None else self.fnode
                base = fn_.get('_line') or 0
                loc = '@' + ('' if fn_ is self.fnode else (fn_.get('name', '?') + ':')) + '+%d' % (line - base)
            name = '%s/%s:%s' % (self.fname, kind, label) + loc
            g = z3.simplify(goal)
            if z3.is_true(g):
                st, model, secs = 'discharged', None, 0.0
            else:
                t = time.time()
                # the obligation of a recorded finding with when=True: only 'proved' vs 'not proved' matters (a proof means the
                # finding is gone); the long search for a model of the quantified hypotheses is not needed
                r, s = self.prove(goal, budget=(self.timeout_ms // 4 if self.recorded_always(name) else None))
                secs = time.time() - t
                self.solver_secs += secs
                self.nqueries += 1
                import os as _os
                dump = _os.environ.get('VERIF_DUMP')
                if dump and dump in name and r != z3.unsat:
                    fn_ = '/tmp/vc_%d.smt2' % self.nqueries
                    with open(fn_, 'w') as fh:
                        fh.write(s.to_smt2())
                    print('dumped', name, fn_, 'hyps', len(self.hyps))
                model = None
                if r == z3.unsat:
                    st = 'discharged'
                elif r == z3.sat:
                    st = 'failed'
                    zm = s.model()
                    model = self.model_of(zm)
                    kst = self.match_known(name, s, zm)
                    if kst is None or kst[0] != 'known':
                        # (a recorded finding needs no small counterexample: its replay is the committed demonstration)
                        small = self.minimise(s)
                        if small is not None:
                            model = small
                    if kst is not None:
                        st, model2, note = kst
                        model = model2 or model
                        detail = (detail + ' ' + note).strip()
                else:
                    st = 'unknown'
                    detail = (detail + ' ' + s.reason_unknown()).strip()
                    # candidate counterexample: satisfiable without the quantified hypotheses? (not a proof of
                    # violation; handed to the native replay, which decides)
                    try:
                        s2 = self.mk_solver(3000)
                        for h in self.hyps:
                            if not _has_quant(h):
                                s2.add(h)
                        s2.add(z3.Not(goal))
                        if not _has_quant(goal) and s2.check() == z3.sat:
                            model = self.minimise(s2) or self.model_of(s2.model())
                            detail += ' candidate-model-without-quantified-hypotheses'
                    except Exception:
                        pass
                    kst = self.match_known(name, None, model)
                    if kst is not None:
                        st, _m, note = kst
                        detail = (detail + ' ' + note).strip()
            if props is None:
                props = self.contract.serves if self.contract else ()
            ob = Obligation(name, kind, label, tuple(props), st, model, secs, line, self.fname, detail)
            # fingerprint of the verification condition (structural hashes of goal and hypotheses): equal fingerprints on
            # two runs mean the solver was asked the very same question
            h = goal.hash()
            for hy in self.hyps:
                h = (h * 1000003 + hy.hash()) & 0xFFFFFFFFFFFF
            ob.vc = h
            self.obligations.append(ob)
        self._deriving = True
        try:
            self.assume(goal)
        finally:
            self._deriving = False

    def match_known(self, name, s, zm):
        """Is the failure of obligation `name` the one recorded in known_findings.txt?  The record says: the obligation does
        not hold for the inputs satisfying `when`.  Returns None (no record for this obligation) or (status, model, note).
        s: the solver holding hypotheses and negated goal after a 'sat' answer (None when the solver gave no answer);
        zm: the z3 model of that answer.
        The verdict must not depend on how long the solver takes: with when=True every failing input of the obligation is
        the recorded one, so neither a counterexample nor an undecided attempt can be anything else -- no solver call."""
        for kf in self.known:
            if kf['obligation'] != name:
                continue
            phi = S.spec_eval(kf['when'], self.entry_env, self.spec_lets)
            if isinstance(phi, bool):
                phi = z3.BoolVal(phi)
            nphi = z3.simplify(z3.Not(phi))
            if z3.is_false(nphi):
                return ('known', None, 'recorded finding (when=True covers every failing input of this obligation)')
            if s is None:
                # undecided attempt, record restricted to some inputs: nothing distinguishes this from the record unless a
                # candidate outside `when` exists; that is decided by the ordinary path (native replay of the candidate)
                return None
            inside = zm is not None and z3.is_true(zm.eval(phi, model_completion=True))
            s.push()
            s.add(nphi)
            r2 = s.check()
            if r2 == z3.unsat:
                s.pop()
                return ('known', None, 'recorded finding (no counterexample outside the recorded predicate)')
            if r2 == z3.sat:
                m2 = self.model_of(s.model())
                s.pop()
                return ('failed', m2, 'counterexample outside the predicate of the recorded finding')
            s.pop()
            if inside:
                return ('known', None, 'recorded finding (the counterexample found satisfies the recorded predicate; '
                                       'the search for one outside it did not finish)')
            return ('failed', None, 'counterexample does not satisfy the predicate of the recorded finding')
        return None

    def recorded_always(self, name):
        for kf in self.known:
            if kf['obligation'] == name and (kf['when'] or '').strip() == 'True':
                return True
        return False

    def prove(self, goal, budget=None):
        """portfolio: z3's outcome on these VCs depends on how the problem is presented (batch vs. incremental
        assertion, seed, preprocessing); every variant is the same query, any 'unsat' is a proof, any 'sat' a
        counterexample. Returns (result, solver)."""
        neg = z3.Not(goal)
        qf = [h for h in self.hyps if not _has_quant(h)]
        T = budget or self.timeout_ms
        plans = []
        if not _has_quant(goal):
            plans.append(('qf-batch', qf, 'batch', 0, min(3000, T)))
        plans += [('batch', self.hyps, 'batch', 0, T // 4), ('incremental', self.hyps, 'inc', 0, T // 4),
                  ('batch-seed', self.hyps, 'batch', 7, T // 2), ('tactic', self.hyps, 'tactic', 0, T // 2),
                  ('incremental-seed', self.hyps, 'inc', 13, T)]
        last = None
        for name, hyps, mode, sd, tmo in plans:
            if mode == 'tactic':
                sv = z3.Then('simplify', 'propagate-values', 'solve-eqs', 'smt').solver()
                sv.set('timeout', tmo)
            else:
                sv = self.mk_solver(tmo, seed=self.seed + sd)
            if mode == 'inc':
                for h in hyps:
                    sv.add(h)
                sv.add(neg)
            else:
                sv.add(*(list(hyps) + [neg]))
            r = sv.check()
            last = sv
            if r == z3.unknown and name == 'batch':
                # the same query in a fresh z3 process, early: the in-process context carries every term built so far,
                # which changes the solver's term ordering; a fresh process regularly closes goals the loaded one does not
                if self.prove_external(sv, T // 2) == z3.unsat:
                    return z3.unsat, sv
            if r == z3.unsat:
                return r, sv
            if r == z3.sat and hyps is self.hyps:
                return r, sv
            if r == z3.sat and len(qf) == len(self.hyps):
                return r, sv
        return z3.unknown, last

    def prove_external(self, sv, tmo_ms):
        import os as _os
        import subprocess as _sp
        import tempfile as _tf
        try:
            text = sv.to_smt2()
        except Exception:
            return z3.unknown
        fd, fn_ = _tf.mkstemp(suffix='.smt2', prefix='vc_', dir=_os.environ.get('TMPDIR', '/tmp'))
        try:
            with _os.fdopen(fd, 'w') as fh:
                fh.write(text)
            secs = max(5, tmo_ms // 1000)
            r = _sp.run(['z3-new', '-T:%d' % secs, fn_], capture_output=True, text=True, timeout=secs + 10)
            first = (r.stdout.strip().splitlines() or [''])[0].strip()
            return z3.unsat if first == 'unsat' else z3.unknown
        except Exception:
            return z3.unknown
        finally:
            try:
                _os.remove(fn_)
            except OSError:
                pass

    def minimise(self, s):
        """prefer counterexamples with small magnitudes (replays allocate arrays of a few elements)"""
        ints = [e for e in self.inputs.values() if z3.is_int(e)]
        if not ints:
            return None
        s.set('timeout', 2000)
        s.push()
        best = None
        for e in ints:
            for cap in (8, 1024):
                s.push()
                s.add(e >= -cap, e <= cap)
                if s.check() == z3.sat:
                    best = self.model_of(s.model())
                    # keep this cap
                    break
                s.pop()
        # pop everything that was kept
        while s.num_scopes() > 0:
            s.pop()
        s.set('timeout', self.timeout_ms)
        return best

    def model_of(self, m):
        out = {}
        for nm, v in getattr(self, 'input_vecs', {}).items():
            try:
                ln = m.eval(v.len, model_completion=True).as_long()
                if 0 <= ln <= 12:
                    from .values import select as _sel, leaves as _lv
                    els = []
                    for i in range(ln):
                        els.append([str(m.eval(x, model_completion=True)) for x in _lv(_sel(v.data, z3.IntVal(i)))])
                    out[nm + '[]'] = els
            except Exception:
                pass
        for nm, e in self.inputs.items():
            try:
                v = m.eval(e, model_completion=True)
                out[nm] = str(v)
            except Exception:
                pass
        return out

    def ensure_global(self, name):
        """namespace-scope mutable state named by a contract (created before the pre-state snapshot)"""
        root = 'glob_' + name
        if root not in self.store:
            self.store[root] = z3.Int('global.' + name)
            self.global_roots[root] = self.store[root]
        self.names[name] = Path(root)
        return Path(root)

    # ------------------------------------------------------------------ ghost state
    def ghost_trigger(self, method, path, args):
        c = self.cur_contract
        if c is None or self.cur_fnode is not self.fnode:
            return
        # lemma instances at a program point (just before / after a named call), over the function's own variables
        for meth, facts in getattr(c, 'facts_on', ()):
            if meth != method or self.dry:
                continue
            env = S.Env(self, self.store, dict(self.names), self.this_path, {})
            extra = dict(self.spec_lets)
            if self.entry_env is not None:
                from .calls import OldNS
                extra['old'] = OldNS(self.entry_env)
            for ai, av in enumerate(args):
                extra['arg%d' % ai] = env.wrap(av)
            for e in facts:
                self.assume(S.spec_eval(e, env, extra))
                self.assumed.add('lemma instance: ' + e)
        # intermediate assertions at a program point: proved there (an obligation of their own), then available
        for meth, items in getattr(c, 'asserts_on', ()):
            if meth != method or self.dry:
                continue
            env = S.Env(self, self.store, dict(self.names), self.this_path, {})
            extra = dict(self.spec_lets)
            if self.entry_env is not None:
                from .calls import OldNS
                extra['old'] = OldNS(self.entry_env)
            for ai, av in enumerate(args):
                extra['arg%d' % ai] = env.wrap(av)
            for lab, e in items:
                S.MODE[0] = 'prove'
                try:
                    goal = S.spec_eval(e, env, extra)
                finally:
                    S.MODE[0] = 'assume'
                self.oblige('assert', lab, goal, None, props=c.props_for(lab))
        if not c.ghost_on:
            return
        for meth, var, updates in c.ghost_on:
            if meth != method:
                continue
            if var is not None:
                if var not in self.names or path is None:
                    continue
                tgt = self.resolve(self.names[var])
                if not (tgt.root == path.root):
                    continue
            env = S.Env(self, self.store, dict(self.names), self.this_path, {})
            extra = dict(self.spec_lets)
            a0 = args[0] if args else None
            extra['arg'] = env.wrap(a0) if a0 is not None else None
            for ai, av in enumerate(args):
                extra['arg%d' % ai] = env.wrap(av)
            new = {}
            for g, e in updates.items():
                v = S.spec_eval_term(e, env, extra)
                new[g] = v.tree if isinstance(v, S.W) else v
            for g, v in new.items():
                self.write(Path('ghost_' + g), v)

    # ------------------------------------------------------------------ store
    def read(self, path, st=None):
        st = self.store if st is None else st
        if path.root not in st:
            raise Unsupported('read of unbound root %r' % (path.root,))
        v = st[path.root]
        for a in path.acc:
            if isinstance(v, RefVal):
                v = self.read(v.path, st)
            if a[0] == 'f':
                if not isinstance(v, SVal) or a[1] not in v.f:
                    raise Unsupported('no field %s in %r' % (a[1], v))
                v = v.f[a[1]]
            else:
                if isinstance(v, SVal) and set(v.f) == {'_vec'}:
                    v = v.f['_vec']
                if not isinstance(v, VecVal):
                    raise Unsupported('index into non-vector %r' % (v,))
                v = select(v.data, a[1])
        if isinstance(v, RefVal):
            v = self.read(v.path, st)
        return v

    def write(self, path, val):
        self.version += 1
        root = self.store.get(path.root)
        # resolve references on the way
        self.store[path.root] = self._upd(root, path.acc, val, path)

    def _upd(self, cur, acc, val, full):
        if isinstance(cur, RefVal):
            p = Path(cur.path.root, cur.path.acc + tuple(acc))
            self.write(p, val)
            return cur
        if not acc:
            return val
        a = acc[0]
        if a[0] == 'f':
            if not isinstance(cur, SVal):
                raise Unsupported('field write into %r' % (cur,))
            nf = dict(cur.f)
            nf[a[1]] = self._upd(cur.f[a[1]], acc[1:], val, full)
            return SVal(cur.cls, nf)
        if isinstance(cur, SVal) and set(cur.f) == {'_vec'}:
            return SVal(cur.cls, {'_vec': self._upd(cur.f['_vec'], acc, val, full)})
        if not isinstance(cur, VecVal):
            raise Unsupported('index write into %r' % (cur,))
        old = select(cur.data, a[1])
        new = self._upd(old, acc[1:], val, full)
        return VecVal(cur.len, store(cur.data, a[1], new), cur.el)

    def resolve(self, path):
        """follow reference values so that the path's root is an owning root"""
        v = self.store.get(path.root)
        if isinstance(v, RefVal) and True:
            return self.resolve(Path(v.path.root, v.path.acc + path.acc))
        # references nested inside struct fields
        cur = v
        for i, a in enumerate(path.acc):
            if isinstance(cur, RefVal):
                return self.resolve(Path(cur.path.root, cur.path.acc + path.acc[i:]))
            if a[0] == 'f' and isinstance(cur, SVal):
                cur = cur.f.get(a[1])
            else:
                return path
        if isinstance(cur, RefVal):
            return self.resolve(cur.path)
        return path

    def new_root(self, name, val):
        r = self.fresh_name(name)
        self.store[r] = val
        return Path(r)

    # ------------------------------------------------------------------ types
    def tshape(self, node):
        return self.shapes.of_node(node)

    def ctype(self, node):
        sh = self.tshape(node)
        if sh[0] == 'ref':
            sh = sh[1]
        return sh

    def wrap_int(self, val, sh, node, what):
        """value of an integer operation of C type sh whose mathematical result is val"""
        if sh[0] != 'int':
            return val
        bits, signed = sh[1], sh[2]
        lo, hi = int_range(bits, signed)
        if signed:
            if bits >= 32:
                self.oblige('overflow', what, z3.And(val >= lo, val <= hi), node)
            else:
                val = self.wrap_to(val, sh)
            return val
        v = z3.simplify(val)
        if z3.is_int_value(v):
            return z3.IntVal(v.as_long() % (1 << bits))
        if self.fits(val, 0, hi):
            return val
        c = self.cur_contract
        if c is not None and c.nowrap and what in ('add', 'sub', 'mul', 'incdec'):
            # the contract demands the mathematical value: prove that the unsigned operation does not wrap
            self.oblige('wrap', what, z3.And(val >= 0, val <= hi), node)
            return val
        return val % (1 << bits)

    def fits(self, val, lo, hi):
        """True only if the quantifier-free path hypotheses entail lo <= val <= hi (then the modular
        reduction of a conversion / unsigned operation is the identity and is omitted from the VC)"""
        v = z3.simplify(val)
        if z3.is_int_value(v):
            return lo <= v.as_long() <= hi
        self.flush_div()
        s = self.mk_solver(120000, seed=0, rlimit=100000)
        for h in self.hyps:
            if not _has_quant(h):
                s.add(h)
        for g in self.guards:
            s.add(g)
        s.add(z3.Or(val < lo, val > hi))
        t = time.time()
        r = s.check()
        self.solver_secs += time.time() - t
        return r == z3.unsat

    def wrap_to(self, val, sh):
        bits, signed = sh[1], sh[2]
        lo, hi = int_range(bits, signed)
        if self.fits(val, lo, hi):
            return val
        v = z3.simplify(val)
        if z3.is_int_value(v):
            x = v.as_long() % (1 << bits)
            if signed and x >= (1 << (bits - 1)):
                x -= (1 << bits)
            return z3.IntVal(x)
        if signed:
            return ((val + (1 << (bits - 1))) % (1 << bits)) - (1 << (bits - 1))
        return val % (1 << bits)

    def convert_int(self, val, src, dst):
        if dst[0] != 'int' or src[0] != 'int':
            return val
        slo, shi = int_range(src[1], src[2])
        dlo, dhi = int_range(dst[1], dst[2])
        if slo >= dlo and shi <= dhi:
            return val
        return self.wrap_to(val, dst)

    # ------------------------------------------------------------------ expressions
    def child(self, node, i=0):
        return node['inner'][i]

    def strip(self, node):
        while node.get('kind') in TRANSPARENT or (
                node.get('kind') in ('ImplicitCastExpr', 'MaterializeTemporaryExpr')
                and node.get('castKind', 'NoOp') in ('NoOp',)):
            node = node['inner'][0]
        return node

    def ev(self, node):
        """rvalue of an expression"""
        k = node.get('kind')
        if k == 'ConstantExpr' and 'value' in node:
            v = node['value']
            if v in ('true', 'false'):
                return z3.BoolVal(v == 'true')
            try:
                return z3.IntVal(int(v))
            except ValueError:
                pass
        m = getattr(self, 'ev_' + k, None)
        if m is None:
            if k == 'SubstNonTypeTemplateParmExpr':
                # [parameter declaration, substituted value]: the value is the last child
                return self.ev(node['inner'][-1])
            if k in TRANSPARENT:
                return self.ev(node['inner'][0])
            raise Unsupported('expression kind %s at line %s' % (k, node.get('_line')))
        return m(node)

    def lv(self, node):
        """lvalue (Path) of an expression"""
        k = node.get('kind')
        if k in TRANSPARENT:
            return self.lv(node['inner'][0])
        m = getattr(self, 'lv_' + k, None)
        if m is None:
            # materialise an rvalue
            v = self.ev(node)
            if isinstance(v, RefVal):
                return v.path
            return self.new_root('tmp', v)
        return m(node)

    def rv_of_path(self, p):
        return self.read(p)

    # literals
    def ev_IntegerLiteral(self, n):
        return z3.IntVal(int(n['value']))

    def ev_FloatingLiteral(self, n):
        return z3.RealVal(Fraction(float(n['value'])))

    def ev_CXXBoolLiteralExpr(self, n):
        return z3.BoolVal(bool(n['value']))

    def ev_CharacterLiteral(self, n):
        return z3.IntVal(int(n['value']))

    def ev_CXXNullPtrLiteralExpr(self, n):
        return PtrVal(None, z3.IntVal(0))

    def ev_GNUNullExpr(self, n):
        return PtrVal(None, z3.IntVal(0))

    def ev_StringLiteral(self, n):
        return Opaque('str')

    def ev_ImplicitValueInitExpr(self, n):
        return default_value(self.ctype(n))

    def ev_CXXScalarValueInitExpr(self, n):
        return default_value(self.ctype(n))

    def ev_UnaryExprOrTypeTraitExpr(self, n):
        if n.get('name') != 'sizeof':
            raise Unsupported('trait ' + str(n.get('name')))
        if 'argType' in n:
            t = n['argType'].get('desugaredQualType') or n['argType']['qualType']
        else:
            c = n['inner'][0]
            t = c['type'].get('desugaredQualType') or c['type']['qualType']
        t = t.replace('const ', '').strip()
        if t not in SIZEOF:
            raise Unsupported('sizeof(%s)' % t)
        return z3.IntVal(SIZEOF[t])

    # references to declarations
    def lv_DeclRefExpr(self, n):
        r = n['referencedDecl']
        rid = r['id']
        if r['kind'] in ('VarDecl', 'ParmVarDecl', 'DecompositionDecl'):
            if rid in self.store:
                return self.resolve(Path(rid))
            return self.global_var(r)
        if r['kind'] == 'BindingDecl':
            if rid in self.bindings:
                return self.resolve(self.bindings[rid])
        raise Unsupported('lvalue ref to %s %s' % (r['kind'], r.get('name')))

    def global_var(self, r):
        rid = r['id']
        d = self.tu.decls.get(rid)
        name = r.get('name')
        if name == 'pi':
            self.store[rid] = PI
            return Path(rid)
        if d is not None and d.get('kind') == 'VarDecl' and d.get('inner'):
            init = [c for c in d['inner'] if 'Expr' in c.get('kind', '') or 'Literal' in c.get('kind', '')]
            if init and (d.get('constexpr') or 'const' in d['type']['qualType']):
                v = self.ev(init[-1])
                self.store[rid] = v
                return Path(rid)
        if name in self.globals_model:
            self.store[rid] = self.globals_model[name](self)
            return Path(rid)
        t = (d or {}).get('type', {}).get('qualType', '') if d is not None else r.get('type', {}).get('qualType', '')
        if 'mt19937' in t or 'mersenne_twister' in t:
            # random engine: an abstract state (the library's only mutable namespace-scope variable, thread_local)
            gp = self.ensure_global(name)
            self.store[rid] = RefVal(gp)
            return gp
        raise Unsupported('global variable %s' % name)

    def ev_DeclRefExpr(self, n):
        r = n['referencedDecl']
        if r['kind'] == 'EnumConstantDecl':
            return self.enum_value(r)
        if r['kind'] in ('FunctionDecl', 'CXXMethodDecl'):
            return FuncRef(r)
        return self.read(self.lv_DeclRefExpr(n))

    def enum_value(self, r):
        d = self.tu.decls.get(r['id'])
        if d is None:
            raise Unsupported('enum constant ' + r.get('name', '?'))
        # position in its EnumDecl
        for did, e in self.tu.decls.items():
            if e.get('kind') == 'EnumDecl':
                consts = [c for c in e.get('inner', ()) if c.get('kind') == 'EnumConstantDecl']
                for i, c in enumerate(consts):
                    if c.get('id') == r['id']:
                        val = i
                        # explicit initialisers
                        cur = -1
                        for cc in consts[:i + 1]:
                            lit = self._find_lit(cc)
                            cur = lit if lit is not None else cur + 1
                        return z3.IntVal(cur)
        raise Unsupported('enum constant ' + r.get('name', '?'))

    def _find_lit(self, n):
        for c in n.get('inner', ()):
            if c.get('kind') == 'IntegerLiteral':
                return int(c['value'])
            if c.get('kind') == 'CXXBoolLiteralExpr':
                return 1 if c.get('value') in (True, 'true') else 0
            if c.get('kind') in ('ConstantExpr', 'ImplicitCastExpr'):
                if 'value' in c and c.get('kind') == 'ConstantExpr':
                    try:
                        return int(c['value'])
                    except Exception:
                        pass
                r = self._find_lit(c)
                if r is not None:
                    return r
        return None

    def lv_CXXThisExpr(self, n):
        raise Unsupported('this as lvalue')

    def ev_CXXThisExpr(self, n):
        return PtrVal(self.this_path, None)

    def lv_MemberExpr(self, n):
        base = n['inner'][0]
        if n.get('isArrow'):
            pv = self.ev(base)
            if not isinstance(pv, PtrVal) or pv.path is None:
                raise Unsupported('arrow on %r' % (pv,))
            if pv.off is None:
                bp = pv.path
            else:
                bp = pv.path.index(pv.off) if self._is_vec_path(pv.path) else pv.path
        else:
            bp = self.lv(base)
        return self.resolve(bp.field(n['name']))

    def _is_vec_path(self, p):
        v = self.read(p)
        return isinstance(v, VecVal) or (isinstance(v, SVal) and set(v.f) == {'_vec'})

    def ev_MemberExpr(self, n):
        base = n['inner'][0]
        if not n.get('isArrow'):
            bk = self.strip(base)
            # member of an rvalue (e.g. f().re)
            if bk.get('valueCategory') == 'prvalue' and bk.get('kind') not in ('CXXThisExpr',):
                v = self.ev(base)
                if isinstance(v, SVal) and n['name'] in v.f:
                    r = v.f[n['name']]
                    return self.read(r.path) if isinstance(r, RefVal) else r
        return self.read(self.lv_MemberExpr(n))

    def lv_ArraySubscriptExpr(self, n):
        p = self.ev(n['inner'][0])
        i = self.ev(n['inner'][1])
        return self.ptr_elem(p, i, n)

    def ev_ArraySubscriptExpr(self, n):
        return self.read(self.lv_ArraySubscriptExpr(n))

    def ptr_elem(self, p, i, node, what='ptr'):
        if not isinstance(p, PtrVal) or p.path is None:
            raise Unsupported('subscript of %r' % (p,))
        v = self.read(p.path)
        if isinstance(v, SVal) and set(v.f) == {'_vec'}:
            v = v.f['_vec']
        if not isinstance(v, VecVal):
            # pointer to a single object
            self.oblige('bounds', 'deref', i == 0, node)
            return p.path
        idx = p.off + i
        self.oblige('bounds', what, z3.And(idx >= 0, idx < v.len), node)
        return p.path.index(idx)

    def lv_UnaryOperator(self, n):
        op = n['opcode']
        if op == '*':
            p = self.ev(n['inner'][0])
            if isinstance(p, PtrVal) and p.off is None:
                return p.path
            return self.ptr_elem(p, z3.IntVal(0), n, 'deref')
        if op in ('++', '--') and not n.get('isPostfix'):
            self.ev_UnaryOperator(n)
            return self.lv(n['inner'][0])
        if op in ('__real', '__imag'):
            raise Unsupported('__real/__imag')
        raise Unsupported('lvalue unary ' + op)

    def ev_UnaryOperator(self, n):
        op = n['opcode']
        sub = n['inner'][0]
        sh = self.ctype(n)
        if op == '-':
            v = self.ev(sub)
            return self.wrap_int(-v, sh, n, 'neg')
        if op == '+':
            return self.ev(sub)
        if op == '!':
            return z3.Not(self.tobool(self.ev(sub), self.ctype(sub)))
        if op == '*':
            return self.read(self.lv_UnaryOperator(n))
        if op == '&':
            p = self.lv(sub)
            if p.acc and p.acc[-1][0] == 'i':
                return PtrVal(Path(p.root, p.acc[:-1]), p.acc[-1][1])
            return PtrVal(p, None)
        if op in ('++', '--'):
            p = self.lv(sub)
            old = self.read(p)
            d = 1 if op == '++' else -1
            if isinstance(old, PtrVal):
                new = PtrVal(old.path, old.off + d, old.el)
            else:
                new = self.wrap_int(old + d, self.ctype(sub), n, 'incdec')
            self.write(p, new)
            return old if n.get('isPostfix') else new
        if op == '~':
            v = self.ev(sub)
            return self.wrap_int(-v - 1, sh, n, 'not')
        raise Unsupported('unary ' + op)

    def tobool(self, v, sh):
        if isinstance(v, RefVal):
            v = self.read(v.path)
        if z3.is_expr(v):
            if z3.is_bool(v):
                return v
            return v != 0
        if isinstance(v, PtrVal):
            return z3.BoolVal(v.path is not None)
        raise Unsupported('tobool of %r' % (v,))

    def ev_cast(self, n):
        ck = n.get('castKind')
        sub = n['inner'][0]
        if ck == 'LValueToRValue':
            return self.read(self.lv(sub))
        if ck in ('NoOp', 'FunctionToPointerDecay', 'BitCast', 'ConstructorConversion', 'UserDefinedConversion',
                  'FloatingCast', 'DerivedToBase', 'UncheckedDerivedToBase', 'BuiltinFnToFnPtr'):
            if ck in ('DerivedToBase', 'UncheckedDerivedToBase') and sub.get('valueCategory') == 'prvalue':
                return self.ev(sub)
            if ck in ('DerivedToBase', 'UncheckedDerivedToBase') or (
                    ck == 'NoOp' and sub.get('valueCategory') in ('lvalue', 'xvalue')
                    and n.get('valueCategory') in ('lvalue', 'xvalue')):
                return self.read(self.lv(sub))
            return self.ev(sub)
        if ck == 'ArrayToPointerDecay':
            p = self.lv(sub)
            return PtrVal(p, z3.IntVal(0))
        if ck == 'IntegralCast':
            v = self.ev(sub)
            ssh, dsh = self.ctype(sub), self.ctype(n)
            if ssh[0] == 'bool' or z3.is_bool(v):
                return z3.If(v, 1, 0)
            return self.convert_int(v, ssh, dsh)
        if ck == 'IntegralToFloating':
            v = self.ev(sub)
            if z3.is_bool(v):
                v = z3.If(v, 1, 0)
            return z3.ToReal(v)
        if ck == 'FloatingToIntegral':
            v = self.ev(sub)
            iv = as_int(v)
            t = iv if iv is not None else z3.If(v >= 0, z3.ToInt(v), -z3.ToInt(-v))
            dsh = self.ctype(n)
            lo, hi = int_range(dsh[1], dsh[2])
            self.oblige('overflow', 'float2int', z3.And(t >= lo, t <= hi), n)
            return t
        if ck == 'IntegralToBoolean':
            return self.ev(sub) != 0
        if ck == 'FloatingToBoolean':
            return self.ev(sub) != 0
        if ck == 'PointerToBoolean':
            return self.tobool(self.ev(sub), None)
        if ck == 'NullToPointer':
            return PtrVal(None, z3.IntVal(0))
        if ck == 'ToVoid':
            self.ev(sub)
            return None
        raise Unsupported('cast kind %s at line %s' % (ck, n.get('_line')))

    ev_ImplicitCastExpr = ev_cast
    ev_CStyleCastExpr = ev_cast
    ev_CXXStaticCastExpr = ev_cast
    ev_CXXFunctionalCastExpr = ev_cast
    ev_CXXConstCastExpr = ev_cast
    def ev_CXXReinterpretCastExpr(self, n):
        """reinterpret_cast<const cmplx_t*>(real pointer): a read-only view of consecutive (re, im) pairs; every other
        reinterpret_cast passes the pointer through (the memset/memcpy models look at the pointee's real element type)"""
        v = self.ev_cast(n)
        try:
            dsh = self.ctype(n)
        except Unsupported:
            return v
        if (isinstance(v, PtrVal) and v.path is not None and dsh[0] == 'ptr' and dsh[1][0] == 'struct'
                and dsh[1][1] == 'dsplib::cmplx_t' and 'const' in (n.get('type', {}).get('qualType', ''))):
            src = self.read(v.path)
            if isinstance(src, VecVal) and src.el == ('real',):
                j = z3.Int('j!rc')
                off = v.off if v.off is not None else z3.IntVal(0)
                self.oblige('bounds', 'reinterpret.alignment', z3.BoolVal(True), n)
                cnt = z3.Int(self.fresh_name('pairs'))
                self.assume(z3.And(2 * cnt <= src.len - off, src.len - off < 2 * cnt + 2))
                view = VecVal(cnt, SVal('dsplib::cmplx_t', {'re': z3.Lambda([j], z3.Select(src.data, off + 2 * j)),
                                                          'im': z3.Lambda([j], z3.Select(src.data, off + 2 * j + 1))}), dsh[1])
                root = self.new_root('cmplx_view', view)
                return PtrVal(root, z3.IntVal(0), dsh[1])
        return v

    def lv_cast(self, n):
        ck = n.get('castKind')
        if ck in ('NoOp', 'DerivedToBase', 'UncheckedDerivedToBase'):
            return self.lv(n['inner'][0])
        v = self.ev(n)
        if isinstance(v, RefVal):
            return v.path
        return self.new_root('tmp', v)

    lv_ImplicitCastExpr = lv_cast
    lv_CXXStaticCastExpr = lv_cast
    lv_CXXConstCastExpr = lv_cast

    def lv_MaterializeTemporaryExpr(self, n):
        sub = n['inner'][0]
        if sub.get('valueCategory') in ('lvalue', 'xvalue'):
            return self.lv(sub)
        v = self.ev(sub)
        if isinstance(v, RefVal):
            return v.path
        return self.new_root('tmp', v)

    def ev_MaterializeTemporaryExpr(self, n):
        return self.ev(n['inner'][0])

    def ev_CXXDefaultArgExpr(self, n):
        raise Unsupported('default argument outside a call')

    def ev_CXXDefaultInitExpr(self, n):
        if n.get('inner'):
            return self.ev(n['inner'][0])
        raise Unsupported('default member init without expr')

    # binary operators
    def ev_BinaryOperator(self, n):
        op = n['opcode']
        a, b = n['inner']
        if op == '=':
            p = self.lv(a)
            v = self.ev(b)
            self.write(p, v)
            return v
        if op == ',':
            self.ev(a)
            return self.ev(b)
        if op in ('&&', '||'):
            x = self.tobool(self.ev(a), None)
            if _has_call(b) and not self.dry:
                # the right operand runs code (an inlined accessor, a bounds check): evaluated only on the paths where C++
                # evaluates it
                if self.decide(x if op == '&&' else z3.Not(x)):
                    return self.tobool(self.ev(b), None)
                return z3.BoolVal(op == '||')
            ver = self.version
            self.guards.append(x if op == '&&' else z3.Not(x))
            try:
                y = self.tobool(self.ev(b), None)
            finally:
                self.guards.pop()
            if self.version != ver:
                raise Unsupported('side effect in short-circuit operand at line %s' % n.get('_line'))
            return z3.And(x, y) if op == '&&' else z3.Or(x, y)
        x = self.ev(a)
        y = self.ev(b)
        return self.binop(op, x, y, self.ctype(a), self.ctype(b), self.ctype(n), n)

    def binop(self, op, x, y, sa, sb, sr, n):
        if isinstance(x, PtrVal) or isinstance(y, PtrVal):
            return self.ptr_binop(op, x, y, n)
        if op in ('<', '<=', '>', '>=', '==', '!='):
            if z3.is_bool(x) and not z3.is_bool(y):
                x = z3.If(x, 1, 0)
            if z3.is_bool(y) and not z3.is_bool(x):
                y = z3.If(y, 1, 0)
            if z3.is_expr(x) and z3.is_expr(y) and z3.is_real(x) and z3.is_real(y):
                xi, yi = as_int(x), as_int(y)
                if xi is not None and yi is not None:
                    x, y = xi, yi      # both sides integral by construction: compare over the integers
            return {'<': x < y, '<=': x <= y, '>': x > y, '>=': x >= y, '==': x == y, '!=': x != y}[op]
        if z3.is_bool(x):
            x = z3.If(x, 1, 0)
        if z3.is_bool(y):
            y = z3.If(y, 1, 0)
        isint = sr[0] == 'int'
        if op == '+':
            return self.wrap_int(x + y, sr, n, 'add')
        if op == '-':
            return self.wrap_int(x - y, sr, n, 'sub')
        if op == '*':
            return self.wrap_int(x * y, sr, n, 'mul')
        if op == '/':
            if isint:
                self.oblige('divzero', 'div', y != 0, n)
                return self.wrap_int(self.tdiv(x, y, sr), sr, n, 'div')
            return x / y
        if op == '%':
            self.oblige('divzero', 'mod', y != 0, n)
            if sr[0] == 'int' and sr[2]:
                # INT_MIN % -1 is UB
                lo, hi = int_range(sr[1], True)
                self.oblige('overflow', 'mod', z3.Not(z3.And(x == lo, y == -1)), n)
            return x - y * self.tdiv(x, y, sr)
        if op in ('<<', '>>'):
            bits = sr[1]
            self.oblige('shift', 'amount', z3.And(y >= 0, y < bits), n)
            ys = z3.simplify(y)
            if z3.is_int_value(ys):
                p = z3.IntVal(1 << ys.as_long())
            else:
                p = pow2_ite(y, bits)
            if op == '<<':
                if sr[2]:
                    self.oblige('shift', 'lhs-nonneg', x >= 0, n)
                    # C++17: signed left shift must be representable in the unsigned type
                    lo, hi = int_range(bits, False)
                    r = x * p
                    self.oblige('overflow', 'shl', r <= hi, n)
                    return self.wrap_to(r, sr)
                return (x * p) % (1 << bits)
            return z3.If(x >= 0, x / p, -((-x + p - 1) / p))
        if op in ('&', '|', '^'):
            xs, ys = z3.simplify(x), z3.simplify(y)
            if op == '&' and z3.is_int_value(ys) and ys.as_long() >= 0 and ((ys.as_long() + 1) & ys.as_long()) == 0:
                # x & (2^k-1) for non-negative x
                self.assume_nonneg_note = True
                return z3.If(x >= 0, x % (ys.as_long() + 1), BITAND(x, y))
            fn = {'&': BITAND, '|': BITOR, '^': BITXOR}[op]
            return fn(x, y)
        raise Unsupported('binary op ' + op)

    def tdiv(self, x, y, sr):
        return S.tdiv(x, y)

    def ptr_binop(self, op, x, y, n):
        if op == '+':
            if isinstance(x, PtrVal):
                return PtrVal(x.path, x.off + y, x.el)
            return PtrVal(y.path, y.off + x, y.el)
        if op == '-':
            if isinstance(y, PtrVal):
                if x.path is None or y.path is None or not x.path.same(y.path):
                    raise Unsupported('difference of unrelated pointers')
                return x.off - y.off
            return PtrVal(x.path, x.off - y, x.el)
        if op in ('==', '!='):
            if x.path is None or y.path is None:
                r = z3.BoolVal((x.path is None) == (y.path is None))
            elif x.path.same(y.path):
                if x.off is None or y.off is None:
                    r = z3.BoolVal(True)
                else:
                    r = (x.off == y.off)
            else:
                r = z3.BoolVal(False)
            return r if op == '==' else z3.Not(r)
        if op in ('<', '<=', '>', '>='):
            if x.path is not None and y.path is not None and x.path.same(y.path):
                return {'<': x.off < y.off, '<=': x.off <= y.off, '>': x.off > y.off, '>=': x.off >= y.off}[op]
        raise Unsupported('pointer op ' + op)

    def ev_CompoundAssignOperator(self, n):
        op = n['opcode'][:-1]
        a, b = n['inner']
        p = self.lv(a)
        old = self.read(p)
        y = self.ev(b)
        if isinstance(old, PtrVal):
            new = self.ptr_binop(op, old, y, n)
        else:
            lsh = self.ctype(a)
            csh = self.shapes.of(n['computeResultType']['qualType']) if 'computeResultType' in n else lsh
            clh = self.shapes.of(n['computeLHSType']['qualType']) if 'computeLHSType' in n else lsh
            x = old
            if lsh[0] == 'int' and clh[0] == 'real':
                x = z3.ToReal(x)
            elif lsh[0] == 'int' and clh[0] == 'int':
                x = self.convert_int(x, lsh, clh)
            r = self.binop(op, x, y, clh, self.ctype(b), csh, n)
            if lsh[0] == 'int' and csh[0] == 'real':
                t = z3.If(r >= 0, z3.ToInt(r), -z3.ToInt(-r))
                lo, hi = int_range(lsh[1], lsh[2])
                self.oblige('overflow', 'float2int', z3.And(t >= lo, t <= hi), n)
                r = t
            elif lsh[0] == 'int' and csh[0] == 'int':
                r = self.convert_int(r, csh, lsh)
            new = r
        self.write(p, new)
        return new

    def lv_CompoundAssignOperator(self, n):
        self.ev_CompoundAssignOperator(n)
        return self.lv(n['inner'][0])

    def lv_BinaryOperator(self, n):
        if n['opcode'] == '=':
            self.ev_BinaryOperator(n)
            return self.lv(n['inner'][0])
        if n['opcode'] == ',':
            self.ev(n['inner'][0])
            return self.lv(n['inner'][1])
        raise Unsupported('lvalue binary ' + n['opcode'])

    def ev_ConditionalOperator(self, n):
        c, a, b = n['inner']
        cv = self.tobool(self.ev(c), None)
        cs = z3.simplify(cv)
        if z3.is_true(cs):
            return self.ev(a)
        if z3.is_false(cs):
            return self.ev(b)
        if (_has_call(a) or _has_call(b)) and not self.dry:
            # arms with calls / constructions are explored as separate paths
            if self.decide(cv):
                return self.ev(a)
            return self.ev(b)
        ver = self.version
        self.guards.append(cv)
        try:
            x = self.ev(a)
        finally:
            self.guards.pop()
        self.guards.append(z3.Not(cv))
        try:
            y = self.ev(b)
        finally:
            self.guards.pop()
        if self.version != ver and not self.dry:
            raise Unsupported('side effect in conditional operator at line %s' % n.get('_line'))
        if isinstance(x, (PtrVal, RefVal)) or isinstance(y, (PtrVal, RefVal)):
            if self.decide(cv):
                return x
            return y
        if z3.is_expr(x) and z3.is_expr(y) and x.sort() != y.sort():
            if z3.is_int(x) and z3.is_real(y):
                x = z3.ToReal(x)
            elif z3.is_real(x) and z3.is_int(y):
                y = z3.ToReal(y)
        return ite(cv, x, y)

    def lv_ConditionalOperator(self, n):
        c, a, b = n['inner']
        cv = self.tobool(self.ev(c), None)
        if self.decide(cv):
            return self.lv(a)
        return self.lv(b)

    def ev_InitListExpr(self, n):
        sh = self.ctype(n)
        elems = [self.ev(c) for c in n.get('inner', ()) if c.get('kind') != 'ImplicitValueInitExpr' or True]
        t0 = n['type'].get('desugaredQualType') or n['type']['qualType']
        if elems and all(isinstance(e, PtrVal) for e in elems) and (sh[0] == 'vec' or t0.endswith(']')):
            return TupleVal(elems)
        if t0.endswith(']') and sh[0] == 'opaque':
            return self.vec_of(elems, self.shapes.of(t0[:t0.rindex('[')]))
        if sh[0] == 'vec' and len(elems) == 1 and isinstance(elems[0], (VecVal, TupleVal)):
            return elems[0]
        if sh[0] == 'struct':
            f = {}
            for (fn_, fs), v in zip(sh[2], elems):
                f[fn_] = v
            for fn_, fs in sh[2][len(elems):]:
                f[fn_] = default_value(fs)
            return SVal(sh[1], f)
        if sh[0] == 'vec':
            return self.vec_of(elems, sh[1])
        if len(elems) == 1:
            return elems[0]
        # raw array type "T[N]"
        t = n['type']['qualType']
        if t.endswith(']'):
            el = self.shapes.of(t[:t.rindex('[')])
            return self.vec_of(elems, el)
        raise Unsupported('init list of ' + str(sh))

    def vec_of(self, elems, el):
        data = const_lifted(el, default_value(el), 1)
        for i, v in enumerate(elems):
            if z3.is_expr(v) and el[0] == 'real' and z3.is_int(v):
                v = z3.ToReal(v)
            data = store(data, z3.IntVal(i), v)
        return VecVal(z3.IntVal(len(elems)), data, el)

    def ev_CXXStdInitializerListExpr(self, n):
        return self.ev(n['inner'][0])

    def ev_CXXThrowExpr(self, n):
        raise ThrowSignal()

    def ev_LambdaExpr(self, n):
        return LambdaVal(n)

    def apply_lambda(self, lam, args):
        """value of lam(args...) for a side-effect free lambda; evaluated without generating obligations (used
        under quantifiers by the std:: algorithm models)"""
        meths = []

        def find(n):
            if n.get('kind') == 'CXXMethodDecl' and n.get('name') == 'operator()' and any(
                    c.get('kind') == 'CompoundStmt' for c in n.get('inner', ())):
                meths.append(n)
            for c in n.get('inner', ()):
                if c.get('kind') in ('CXXRecordDecl', 'FunctionTemplateDecl', 'CXXMethodDecl'):
                    find(c)
        find(lam.node)
        meths = [m for m in meths if 'auto' not in m['type']['qualType'] and 'type-parameter' not in m['type']['qualType']]
        if not meths:
            raise Unsupported('lambda without a concrete operator()')
        m = meths[-1]
        ps = [c for c in m['inner'] if c.get('kind') == 'ParmVarDecl']
        body = [c for c in m['inner'] if c.get('kind') == 'CompoundStmt'][0]
        saved = (dict(self.store), self.dry, self.version)
        self.dry = True
        try:
            for p_, a in zip(ps, args):
                self.store[p_['id']] = a
            self.ret_is_ref.append(False)
            try:
                self.ex(body)
                rv = None
            except ReturnSignal as r:
                rv = r.val
            finally:
                self.ret_is_ref.pop()
        finally:
            self.store, self.dry, self.version = saved
        return rv

    def call_lambda(self, lam, args):
        """lam(args...) executed for real (obligations on): a closure stored in a std::function and invoked by the code"""
        meths = []

        def find(n):
            if n.get('kind') == 'CXXMethodDecl' and n.get('name') == 'operator()' and any(
                    c.get('kind') == 'CompoundStmt' for c in n.get('inner', ())):
                meths.append(n)
            for c in n.get('inner', ()):
                if c.get('kind') in ('CXXRecordDecl', 'FunctionTemplateDecl', 'CXXMethodDecl'):
                    find(c)
        find(lam.node)
        meths = [m for m in meths if 'auto' not in m['type']['qualType'] and 'type-parameter' not in m['type']['qualType']]
        if not meths:
            raise Unsupported('lambda without a concrete operator()')
        m = meths[-1]
        ps = [c for c in m['inner'] if c.get('kind') == 'ParmVarDecl']
        body = [c for c in m['inner'] if c.get('kind') == 'CompoundStmt'][0]
        saved_names = dict(self.names)
        for p_, a in zip(ps, args):
            self.store[p_['id']] = a
            self.names[p_.get('name', '?')] = Path(p_['id'])
        self.ret_is_ref.append(False)
        try:
            self.ex(body)
            rv = None
        except ReturnSignal as r:
            rv = r.val
        finally:
            self.ret_is_ref.pop()
            self.names = saved_names
        return rv

    # ------------------------------------------------------------------ calls (delegated)
    def ev_CallExpr(self, n):
        return self.calls.call_expr(self, n)

    def ev_CXXMemberCallExpr(self, n):
        return self.calls.member_call(self, n)

    def ev_CXXOperatorCallExpr(self, n):
        return self.calls.operator_call(self, n)

    def ev_CXXConstructExpr(self, n):
        return self.calls.construct(self, n)

    ev_CXXTemporaryObjectExpr = ev_CXXConstructExpr

    def lv_CallExpr(self, n):
        return self._lv_call(self.ev_CallExpr(n))

    def lv_CXXMemberCallExpr(self, n):
        return self._lv_call(self.ev_CXXMemberCallExpr(n))

    def lv_CXXOperatorCallExpr(self, n):
        return self._lv_call(self.ev_CXXOperatorCallExpr(n))

    def _lv_call(self, v):
        if isinstance(v, RefVal):
            return v.path
        return self.new_root('tmp', v)

    # ------------------------------------------------------------------ statements
    def ex(self, n):
        k = n.get('kind')
        m = getattr(self, 'st_' + k, None)
        if m is None:
            if k.endswith('Expr') or k.endswith('Operator') or k.endswith('Literal') or k in TRANSPARENT:
                v = self.ev(n)
                return
            raise Unsupported('statement kind %s at line %s' % (k, n.get('_line')))
        m(n)

    def st_CompoundStmt(self, n):
        for c in n.get('inner', ()):
            self.ex(c)

    def st_NullStmt(self, n):
        pass

    def st_DeclStmt(self, n):
        for d in n.get('inner', ()):
            k = d.get('kind')
            if k == 'VarDecl':
                self.declare(d)
            elif k == 'DecompositionDecl':
                self.declare_decomp(d)
            elif k in ('TypedefDecl', 'TypeAliasDecl', 'StaticAssertDecl', 'UsingDecl', 'UsingDirectiveDecl', 'CXXRecordDecl'):
                pass
            else:
                raise Unsupported('decl kind %s at line %s' % (k, d.get('_line')))

    def declare(self, d):
        sh = self.tshape(d)
        inits = [c for c in d.get('inner', ()) if c.get('kind') not in ('TemplateArgument',) and 'Attr' not in c.get('kind', '') and 'Comment' not in c.get('kind', '')]
        if d.get('storageClass') == 'static' or d.get('tls'):
            qt = d.get('type', {}).get('qualType', '')
            c0 = self.cur_contract
            if c0 is not None and self.cur_fnode is self.fnode and d.get('name') in c0.static_alias:
                # a reviewed piece of per-thread state that the contract names: an abstract value (ghost global) whose
                # operations are the contracts of its methods; its one-time initialisation is part of its invariant
                gp = self.ensure_global(c0.static_alias[d['name']])
                self.store[d['id']] = RefVal(gp)
                self.var_shapes[d['id']] = sh
                return
            if not (qt.startswith('const ') or d.get('constexpr')):
                # mutable static / thread_local local: hidden state that outlives the call. The contracts describe
                # results as functions of the arguments and the object only, so this is a frame violation.
                self.oblige('frame', 'no-hidden-static-state:' + d.get('name', '?'), z3.BoolVal(False), d,
                            detail='mutable static/thread_local local variable')
                if sh[0] in ('int', 'real', 'bool'):
                    self.store[d['id']] = fresh(sh, self.fresh_name('static_' + d.get('name', '')))
                else:
                    self.store[d['id']] = fresh(sh, self.fresh_name('static_' + d.get('name', '')))
                    self.calls.type_inv(self, self.store[d['id']], sh)
                self.names[d['name']] = Path(d['id'])
                self.var_shapes[d['id']] = sh
                return
        if sh[0] == 'ref':
            if not inits:
                raise Unsupported('reference without init')
            p = self.lv(inits[0])
            self.store[d['id']] = RefVal(p)
            self.names[d['name']] = Path(d['id'])
            self.version += 1
            return
        if inits:
            v = self.ev(inits[0])
            if isinstance(v, RefVal):
                v = self.read(v.path)
            v = self.coerce(v, sh)
            if sh[0] == 'vec' and len(sh) == 3 and isinstance(v, VecVal):
                ln = z3.simplify(v.len)
                if z3.is_int_value(ln) and ln.as_long() < sh[2]:
                    # array filler: the remaining elements are value-/default-initialised
                    data = v.data
                    for k in range(ln.as_long(), sh[2]):
                        data = store(data, z3.IntVal(k), default_value(sh[1]))
                    v = VecVal(z3.IntVal(sh[2]), data, sh[1])
        else:
            if sh[0] in ('int', 'real', 'bool'):
                v = fresh(sh, self.fresh_name('uninit_' + d.get('name', '')))
            elif sh[0] == 'ptr':
                v = PtrVal(None, z3.IntVal(0))
            elif sh[0] == 'vec' and len(sh) == 3:
                # local array T x[N]: N uninitialised elements
                v = VecVal(z3.IntVal(sh[2]), fresh(sh[1], self.fresh_name('uninit_' + d.get('name', '')), 1), sh[1])
            else:
                v = self.calls.default_construct(self, sh, d)
        self.store[d['id']] = v
        self.names[d['name']] = Path(d['id'])
        self.var_shapes[d['id']] = sh
        self.version += 1

    def coerce(self, v, sh):
        if z3.is_expr(v) and sh[0] == 'struct' and sh[1] == 'dsplib::cmplx_t':
            # implicit cmplx_t(const T& v): re = v, im = 0 (verified as cmplx_t::cmplx_t<T>)
            if z3.is_bool(v):
                v = z3.If(v, 1, 0)
            return SVal('dsplib::cmplx_t', {'re': z3.ToReal(v) if z3.is_int(v) else v, 'im': z3.RealVal(0)})
        if z3.is_expr(v):
            if sh[0] == 'real' and z3.is_int(v):
                return z3.ToReal(v)
            if sh[0] == 'int' and z3.is_bool(v):
                return z3.If(v, 1, 0)
        return v

    def declare_decomp(self, d):
        init = None
        binds = []
        for c in d.get('inner', ()):
            if c.get('kind') == 'BindingDecl':
                binds.append(c)
            elif init is None:
                init = c
        sh = self.tshape(d)
        if sh[0] == 'ref':
            p = self.lv(init)
        else:
            v = self.ev(init)
            if isinstance(v, RefVal):
                v = self.read(v.path)
            self.store[d['id']] = v
            p = Path(d['id'])
        v = self.read(p)
        if not isinstance(v, SVal):
            raise Unsupported('structured binding of %r' % (v,))
        names = list(v.f.keys())
        for b, fn_ in zip(binds, names):
            self.bindings[b['id']] = p.field(fn_)
            self.names[b['name']] = p.field(fn_)

    def st_ReturnStmt(self, n):
        if not n.get('inner'):
            raise ReturnSignal(None)
        e = n['inner'][0]
        if self.ret_is_ref[-1]:
            raise ReturnSignal(RefVal(self.lv(e)))
        v = self.ev(e)
        if isinstance(v, RefVal):
            v = self.read(v.path)
        raise ReturnSignal(v)

    def st_IfStmt(self, n):
        inner = n['inner']
        if n.get('isConstexpr') or n.get('constexpr'):
            pass
        if n.get('hasInit') or n.get('hasVar'):
            raise Unsupported('if with init')
        c = inner[0]
        cv = self.tobool(self.ev(c), None)
        if self.decide(cv):
            self.ex(inner[1])
        elif len(inner) > 2:
            self.ex(inner[2])

    def st_BreakStmt(self, n):
        raise BreakSignal()

    def st_ContinueStmt(self, n):
        raise ContinueSignal()

    def st_ForStmt(self, n):
        init, condvar, cond, inc, body = n['inner']
        if init and init.get('kind'):
            self.ex(init)
        self.loop(n, cond if cond.get('kind') else None, inc if inc.get('kind') else None, body, init)

    def st_WhileStmt(self, n):
        inner = [c for c in n['inner']]
        cond, body = inner[-2], inner[-1]
        self.loop(n, cond, None, body, None)

    def st_DoStmt(self, n):
        raise Unsupported('do-while')

    def st_CXXForRangeStmt(self, n):
        self.loops.range_for(self, n)

    def loop(self, n, cond, inc, body, init):
        self.loops.loop(self, n, cond, inc, body, init)

    def st_SwitchStmt(self, n):
        inner = [c for c in n['inner'] if c.get('kind')]
        cond, body = inner[-2], inner[-1]
        v = self.ev(cond)
        if z3.is_bool(v):
            v = z3.If(v, 1, 0)
        if body.get('kind') != 'CompoundStmt':
            raise Unsupported('switch body form')
        flat = []      # (labels, stmt): labels = list of case values / 'default'
        for ch in body.get('inner', ()):
            labels = []
            st = ch
            while st.get('kind') in ('CaseStmt', 'DefaultStmt'):
                if st['kind'] == 'CaseStmt':
                    lv = self.ev(st['inner'][0])
                    if z3.is_bool(lv):
                        lv = z3.If(lv, 1, 0)
                    labels.append(lv)
                    st = st['inner'][-1]
                else:
                    labels.append('default')
                    st = st['inner'][-1]
            flat.append((labels, st))
        entry = None
        for idx, (labels, st) in enumerate(flat):
            hit = False
            for lv in labels:
                if not isinstance(lv, str) and self.decide(v == lv):
                    hit = True
                    break
            if hit:
                entry = idx
                break
        if entry is None:
            for idx, (labels, st) in enumerate(flat):
                if any(isinstance(lv, str) for lv in labels):
                    entry = idx
                    break
        if entry is None:
            return
        try:
            for labels, st in flat[entry:]:
                self.ex(st)
        except BreakSignal:
            return


POW2 = z3.Function('pow2', z3.IntSort(), z3.IntSort())


def pow2_ite(y, bits=64):
    """2**y for 0 <= y < bits as an explicit case split (exact; shift amounts are range-checked first)"""
    r = z3.IntVal(1 << (bits - 1))
    for k in range(bits - 2, -1, -1):
        r = z3.If(y == k, z3.IntVal(1 << k), r)
    return r

BITAND = z3.Function('bitand', z3.IntSort(), z3.IntSort(), z3.IntSort())
BITOR = z3.Function('bitor', z3.IntSort(), z3.IntSort(), z3.IntSort())
BITXOR = z3.Function('bitxor', z3.IntSort(), z3.IntSort(), z3.IntSort())
PI = z3.Real('PI')
