"""Trusted models of std::list and std::unordered_map (integer keys) and their iterators.

std::list<T>            struct { nodes : vec<T>   -- node id -> element; nodes.len = number of node ids handed out so far
                                 order : vec<int> -- position -> node id; order.len = size()
                                 pos   : vec<int> -- node id -> position, -1 when the node is not (or no longer) linked }
  model invariant (assumed for every list value, kept by every operation below):
      0 <= order.len <= nodes.len;  for j < order.len: 0 <= order[j] < nodes.len and pos[order[j]] == j;
      for every node id m: 0 <= pos[m] < order.len  =>  order[pos[m]] == m;   pos[m] >= -1
  iterator               pointer into `nodes` (offset = node id); end() has offset -1.  Node ids are never reused, which is
                         what "iterators stay valid until their element is erased" means.
std::unordered_map<int,V> struct { has : key -> bool, val : key -> V (node id when V is a list iterator), size }
  iterator               struct { end : bool, key : int, map : handle of the map's path }

Every operation checks what the standard requires of its arguments (valid, dereferenceable iterator; non-empty list)
as an obligation of kind 'bounds'."""
import re
import z3

from .values import SVal, VecVal, PtrVal, RefVal, Path, Unsupported, select, store, default_value, const_lifted
from . import spec as S

I64 = ('int', 64, True)
LIST_RE = re.compile(r'^(?:std::)?(?:__cxx11::)?list<(.*)>$')
UMAP_RE = re.compile(r'^(?:std::)?unordered_map<(.*)>$')
LIT_RE = re.compile(r'^(?:std::)?_List_(?:const_)?iterator<(.*)>$')
MIT_RE = re.compile(r'^(?:std::)?(?:__detail::)?_Node_(?:const_)?iterator<(.*)>$')
MITB_RE = re.compile(r'^(?:std::)?(?:__detail::)?_Node_iterator_base<(.*)>$')
OPT_RE = re.compile(r'^(?:std::)?optional<(.*)>$')


def shape_of(shapes, s):
    from .values import split_targs
    m = LIST_RE.match(s)
    if m:
        el = shapes.of(split_targs(m.group(1))[0])
        return ('struct', 'std::list', (('nodes', ('vec', el)), ('order', ('vec', I64)), ('pos', ('vec', I64))))
    m = UMAP_RE.match(s)
    if m:
        a = split_targs(m.group(1))
        k = shapes.of(a[0])
        if k[0] != 'int':
            raise Unsupported('unordered_map with non-integer key')
        v = shapes.of(a[1])
        if v[0] == 'ptr':
            v = I64          # list iterator: node id
        return ('struct', 'std::unordered_map', (('has', ('vec', ('bool',))), ('val', ('vec', v)), ('size', ('int', 64, False))))
    m = OPT_RE.match(s)
    if m:
        # std::optional<T>: has + val (val is meaningless when has is false)
        return ('struct', 'std::optional', (('has', ('bool',)), ('val', shapes.of(m.group(1)))))
    if s in ('std::nullopt_t', 'nullopt_t'):
        return ('struct', 'std::nullopt_t', ())
    m = LIT_RE.match(s)
    if m:
        return ('ptr', shapes.of(split_targs(m.group(1))[0]))
    if MIT_RE.match(s) or MITB_RE.match(s):
        return ('struct', 'std::map_iter', (('end', ('bool',)), ('key', I64), ('map', I64)))
    return None


def empty_list(sh):
    el = sh[2][0][1][1]
    return SVal('std::list', {'nodes': VecVal(z3.IntVal(0), const_lifted(el, default_value(el), 1), el),
                              'order': VecVal(z3.IntVal(0), z3.K(z3.IntSort(), z3.IntVal(0)), I64),
                              'pos': VecVal(z3.IntVal(0), z3.K(z3.IntSort(), z3.IntVal(-1)), I64)})


def empty_map(sh):
    v = sh[2][1][1][1]
    return SVal('std::unordered_map', {'has': VecVal(z3.IntVal(0), z3.K(z3.IntSort(), z3.BoolVal(False)), ('bool',)),
                                       'val': VecVal(z3.IntVal(0), const_lifted(v, default_value(v), 1), v),
                                       'size': z3.IntVal(0)})


def ctor_model(ex, t, sh, ctype):
    if sh[0] == 'struct' and sh[1] == 'std::list':
        return lambda ex, t, sh, ctype, args, n: _only_default(args, empty_list(sh), 'std::list')
    if sh[0] == 'struct' and sh[1] == 'std::unordered_map':
        return lambda ex, t, sh, ctype, args, n: _only_default(args, empty_map(sh), 'std::unordered_map')
    if sh[0] == 'struct' and sh[1] == 'std::map_iter':
        return lambda ex, t, sh, ctype, args, n: ex.calls._val(ex, args[0])
    if sh[0] == 'struct' and sh[1] == 'std::nullopt_t':
        return lambda ex, t, sh, ctype, args, n: SVal('std::nullopt_t', {})
    if sh[0] == 'struct' and sh[1] == 'std::optional':
        return optional_ctor
    return None


def optional_ctor(ex, t, sh, ctype, args, n):
    vsh = sh[2][1][1]
    args = [a for a in args if a.get('kind') != 'CXXDefaultArgExpr']
    if not args:
        return SVal('std::optional', {'has': z3.BoolVal(False), 'val': default_value(vsh)})
    v = ex.calls._val(ex, args[0])
    if isinstance(v, SVal) and v.cls == 'std::nullopt_t':
        return SVal('std::optional', {'has': z3.BoolVal(False), 'val': default_value(vsh)})
    if isinstance(v, SVal) and v.cls == 'std::optional':
        return v
    return SVal('std::optional', {'has': z3.BoolVal(True), 'val': ex.coerce(v, vsh)})


def _only_default(args, v, what):
    if [a for a in args if a.get('kind') != 'CXXDefaultArgExpr']:
        raise Unsupported(what + ' constructor with arguments')
    return v


def type_inv(ex, v, sh):
    """model invariant of a symbolic std::list / std::unordered_map value"""
    if sh[1] == 'std::list':
        nodes, order, pos = v.f['nodes'], v.f['order'], v.f['pos']
        j = z3.Int(ex.fresh_name('j!li'))
        m = z3.Int(ex.fresh_name('m!li'))
        ex.assume(z3.And(order.len >= 0, order.len <= nodes.len, nodes.len <= S.INT_MAX))
        ex.assume(z3.ForAll([j], z3.Implies(z3.And(0 <= j, j < order.len),
                                            z3.And(0 <= order.data[j], order.data[j] < nodes.len, pos.data[order.data[j]] == j))))
        ex.assume(z3.ForAll([m], z3.And(pos.data[m] >= -1,
                                        z3.Implies(z3.And(0 <= pos.data[m], pos.data[m] < order.len), order.data[pos.data[m]] == m))))
        ex.assumed.add('std::list model invariant (order/pos are mutually inverse on the linked nodes) for symbolic list values')
    elif sh[1] == 'std::unordered_map':
        ex.assume(z3.And(v.f['size'] >= 0, v.f['size'] <= S.INT_MAX))


# ------------------------------------------------------------------------------------------------- helpers
def _list_at(ex, objn, arrow):
    if arrow:
        pv = ex.ev(objn)
        p = pv.path
    else:
        p = ex.lv(objn)
    p = ex.resolve(p)
    v = ex.read(p)
    if not (isinstance(v, SVal) and v.cls in ('std::list', 'std::unordered_map')):
        raise Unsupported('container method on %r' % (v,))
    return p, v


def _iter_val(ex, a):
    v = ex.ev(a)
    if isinstance(v, RefVal):
        v = ex.read(v.path)
    return v


def _el_shape(v):
    return v.f['nodes'].el


def _check_list_iter(ex, lp, lv, it, n, what, allow_end=False):
    if not isinstance(it, PtrVal) or it.path is None or not it.path.same(lp.field('nodes')):
        raise Unsupported('list iterator of another list')
    ok = z3.And(0 <= it.off, it.off < lv.f['nodes'].len, 0 <= select(lv.f['pos'].data, it.off),
                select(lv.f['pos'].data, it.off) < lv.f['order'].len)
    if allow_end:
        ok = z3.Or(it.off == -1, ok)
    ex.oblige('bounds', what + '.valid-iterator', ok, n)


def _remove(lv, node):
    """unlink node (valid): (order', pos')"""
    order, pos = lv.f['order'], lv.f['pos']
    p = select(pos.data, node)
    j = z3.Int('j!lr')
    m = z3.Int('m!lr')
    od = z3.Lambda([j], z3.If(j < p, order.data[j], order.data[j + 1]))
    pd = z3.Lambda([m], z3.If(m == node, z3.IntVal(-1), z3.If(pos.data[m] > p, pos.data[m] - 1, pos.data[m])))
    return VecVal(order.len - 1, od, I64), VecVal(pos.len, pd, I64)


def _insert_front(order, pos, node):
    j = z3.Int('j!lf')
    m = z3.Int('m!lf')
    od = z3.Lambda([j], z3.If(j == 0, node, order.data[j - 1]))
    pd = z3.Lambda([m], z3.If(m == node, z3.IntVal(0), z3.If(pos.data[m] >= 0, pos.data[m] + 1, pos.data[m])))
    return VecVal(order.len + 1, od, I64), VecVal(pos.len, pd, I64)


def _insert_back(order, pos, node):
    od = z3.Store(order.data, order.len, node)
    pd = z3.Store(pos.data, node, order.len)
    return VecVal(order.len + 1, od, I64), VecVal(pos.len, pd, I64)


# ------------------------------------------------------------------------------------------------- std::list
def list_method(ex, t, name, objn, arrow, args, n):
    lp, lv = _list_at(ex, objn, arrow)
    nodes, order, pos = lv.f['nodes'], lv.f['order'], lv.f['pos']
    el = nodes.el
    npath = lp.field('nodes')
    if name == 'size':
        return order.len
    if name == 'empty':
        return order.len == 0
    if name in ('begin', 'cbegin'):
        return PtrVal(npath, z3.If(order.len > 0, order.data[0], z3.IntVal(-1)), el)
    if name in ('end', 'cend'):
        return PtrVal(npath, z3.IntVal(-1), el)
    if name in ('front', 'back'):
        ex.oblige('bounds', 'list.' + name, order.len > 0, n)
        return RefVal(npath.index(order.data[0] if name == 'front' else order.data[order.len - 1]))
    if name in ('push_front', 'push_back', 'emplace_front', 'emplace_back'):
        x = ex.calls._val(ex, args[0])
        x = ex.coerce(x, el)
        nid = nodes.len
        nn = VecVal(nodes.len + 1, store(nodes.data, nid, x), el)
        ex.assume(nodes.len + 1 <= S.INT_MAX)
        no, npos = (_insert_front if 'front' in name else _insert_back)(order, pos, nid)
        ex.write(lp, SVal('std::list', {'nodes': nn, 'order': no, 'pos': npos}))
        return None
    if name in ('pop_back', 'pop_front'):
        ex.oblige('bounds', 'list.' + name, order.len > 0, n)
        node = order.data[order.len - 1] if name == 'pop_back' else order.data[0]
        no, npos = _remove(lv, node)
        ex.write(lp, SVal('std::list', {'nodes': nodes, 'order': no, 'pos': npos}))
        return None
    if name == 'erase':
        it = _iter_val(ex, args[0])
        _check_list_iter(ex, lp, lv, it, n, 'list.erase')
        p = select(pos.data, it.off)
        nxt = z3.If(p + 1 < order.len, order.data[p + 1], z3.IntVal(-1))
        no, npos = _remove(lv, it.off)
        ex.write(lp, SVal('std::list', {'nodes': nodes, 'order': no, 'pos': npos}))
        return PtrVal(npath, nxt, el)
    if name == 'splice':
        # splice(position, other, it): only within one list, position == begin() or end()
        where = _iter_val(ex, args[0])
        op = ex.resolve(ex.lv(args[1]))
        it = _iter_val(ex, args[2])
        if len(args) != 3 or not op.same(lp):
            raise Unsupported('list.splice across lists / ranges')
        _check_list_iter(ex, lp, lv, it, n, 'list.splice')
        _check_list_iter(ex, lp, lv, where, n, 'list.splice.position', allow_end=True)
        first = z3.If(order.len > 0, order.data[0], z3.IntVal(-1))
        at_begin = where.off == first
        at_end = where.off == -1
        if ex.decide(z3.Or(where.off == it.off, z3.And(z3.Not(at_end), select(pos.data, where.off) == select(pos.data, it.off) + 1))):
            return None      # splice before itself / before its successor: no effect
        if ex.decide(at_begin):
            o1, p1 = _remove(lv, it.off)
            no, npos = _insert_front(o1, p1, it.off)
        elif ex.decide(at_end):
            o1, p1 = _remove(lv, it.off)
            no, npos = _insert_back(o1, p1, it.off)
        else:
            raise Unsupported('list.splice to an inner position')
        ex.write(lp, SVal('std::list', {'nodes': nodes, 'order': no, 'pos': npos}))
        return None
    if name == 'clear':
        ex.write(lp, SVal('std::list', {'nodes': nodes, 'order': VecVal(z3.IntVal(0), order.data, I64),
                                        'pos': VecVal(pos.len, z3.K(z3.IntSort(), z3.IntVal(-1)), I64)}))
        return None
    raise Unsupported('std::list::%s' % name)


def _owner_list(ex, it):
    """(list path, list value) of a list iterator"""
    if not isinstance(it, PtrVal) or it.path is None or not it.path.acc or it.path.acc[-1] != ('f', 'nodes'):
        raise Unsupported('list iterator without a list: %r' % (it,))
    lp = Path(it.path.root, it.path.acc[:-1])
    return lp, ex.read(lp)


def list_iter_method(ex, name, objn, args, n):
    if name in ('operator++', 'operator--'):
        p = ex.lv(objn)
        it = ex.read(p)
        lp, lv = _owner_list(ex, it)
        order, pos = lv.f['order'], lv.f['pos']
        if name == 'operator--':
            # --end() is the last element; --begin() is undefined
            ok = z3.If(it.off == -1, order.len > 0,
                       z3.And(0 <= it.off, it.off < lv.f['nodes'].len, 1 <= select(pos.data, it.off), select(pos.data, it.off) < order.len))
            ex.oblige('bounds', 'list-iterator.decrement', ok, n)
            new = z3.If(it.off == -1, order.data[order.len - 1], order.data[select(pos.data, it.off) - 1])
        else:
            ok = z3.And(0 <= it.off, it.off < lv.f['nodes'].len, 0 <= select(pos.data, it.off), select(pos.data, it.off) < order.len)
            ex.oblige('bounds', 'list-iterator.increment', ok, n)
            q = select(pos.data, it.off) + 1
            new = z3.If(q < order.len, order.data[q], z3.IntVal(-1))
        ex.write(p, PtrVal(it.path, new, it.el))
        if args:
            return it
        return RefVal(p)
    if name == 'operator=':
        tgt = ex.ev(objn)
        v = _iter_val(ex, args[0])
        if isinstance(tgt, MapSlot):
            assign_slot(ex, tgt, v)
            return tgt
        if not isinstance(tgt, RefVal):
            raise Unsupported('assignment to a list iterator rvalue')
        ex.write(tgt.path, v)
        return tgt
    it = _iter_val(ex, objn)
    if name in ('operator*', 'operator->'):
        lp, lv = _owner_list(ex, it)
        _check_list_iter(ex, lp, lv, it, n, 'list-iterator.dereference')
        ep = it.path.index(it.off)
        return RefVal(ep) if name == 'operator*' else PtrVal(ep, None)
    if name in ('operator==', 'operator!='):
        o = _iter_val(ex, args[0])
        r = it.off == o.off
        return r if name == 'operator==' else z3.Not(r)
    raise Unsupported('list iterator method %s' % name)


# ------------------------------------------------------------------------------------------------- std::unordered_map
def _sibling_list(ex, mp):
    """the std::list member next to a map member (the list its stored iterators point into)"""
    if not mp.acc or mp.acc[-1][0] != 'f':
        raise Unsupported('map of list iterators outside an object')
    parent = Path(mp.root, mp.acc[:-1])
    pv = ex.read(parent)
    c = [k for k, x in pv.f.items() if isinstance(x, SVal) and x.cls == 'std::list']
    if len(c) != 1:
        raise Unsupported('map of list iterators: owner has %d list members' % len(c))
    return parent.field(c[0])


def _map_handle(ex, mp):
    reg = ex.__dict__.setdefault('map_paths', [])
    for i, p in enumerate(reg):
        if p.same(mp):
            return z3.IntVal(i)
    reg.append(mp)
    return z3.IntVal(len(reg) - 1)


def _map_of_iter(ex, it):
    h = z3.simplify(it.f['map'])
    if not z3.is_int_value(h):
        raise Unsupported('map iterator of an unknown map')
    return ex.map_paths[h.as_long()]


def _mit(ex, mp, end, key):
    return SVal('std::map_iter', {'end': end, 'key': key, 'map': _map_handle(ex, mp)})


def map_method(ex, t, name, objn, arrow, args, n):
    mp, mv = _list_at(ex, objn, arrow)
    has, val, size = mv.f['has'], mv.f['val'], mv.f['size']
    stores_iters = bool(re.search(r'_List_(const_)?iterator<', t))
    if name == 'size':
        return size
    if name == 'empty':
        return size == 0
    if name in ('end', 'cend'):
        return _mit(ex, mp, z3.BoolVal(True), z3.IntVal(0))
    if name in ('find', 'count', 'contains'):
        k = ex.calls._val(ex, args[0])
        present = z3.Select(has.data, k)
        if name == 'count':
            return z3.If(present, z3.IntVal(1), z3.IntVal(0))
        if name == 'contains':
            return present
        return _mit(ex, mp, z3.Not(present), k)
    if name == 'erase':
        a = ex.calls._val(ex, args[0])
        if isinstance(a, SVal) and a.cls == 'std::map_iter':
            ex.oblige('bounds', 'unordered_map.erase.valid-iterator', z3.And(z3.Not(a.f['end']), z3.Select(has.data, a.f['key'])), n)
            k = a.f['key']
            ex.write(mp, SVal('std::unordered_map', {'has': VecVal(has.len, z3.Store(has.data, k, z3.BoolVal(False)), has.el),
                                                     'val': val, 'size': size - 1}))
            return _mit(ex, mp, z3.BoolVal(True), z3.IntVal(0))     # successor in hash order: unspecified; not used as a position
        k = a
        present = z3.Select(has.data, k)
        ex.write(mp, SVal('std::unordered_map', {'has': VecVal(has.len, z3.Store(has.data, k, z3.BoolVal(False)), has.el),
                                                 'val': val, 'size': z3.If(present, size - 1, size)}))
        return z3.If(present, z3.IntVal(1), z3.IntVal(0))
    if name == 'operator[]':
        k = ex.calls._val(ex, args[0])
        present = z3.Select(has.data, k)
        dv = default_value(val.el)
        if stores_iters:
            dv = z3.IntVal(-1)
        if not z3.is_expr(val.data):
            raise Unsupported('unordered_map with structured values')
        nv = VecVal(val.len, z3.If(present, val.data, z3.Store(val.data, k, dv)), val.el)
        ex.write(mp, SVal('std::unordered_map', {'has': VecVal(has.len, z3.Store(has.data, k, z3.BoolVal(True)), has.el),
                                                 'val': nv, 'size': z3.If(present, size, size + 1)}))
        ex.assume(size + 1 <= S.INT_MAX)
        if stores_iters:
            return MapSlot(mp, k)
        return RefVal(mp.field('val').index(k))
    if name == 'clear':
        ex.write(mp, SVal('std::unordered_map', {'has': VecVal(has.len, z3.K(z3.IntSort(), z3.BoolVal(False)), has.el),
                                                 'val': val, 'size': z3.IntVal(0)}))
        return None
    raise Unsupported('std::unordered_map::%s' % name)


class MapSlot:
    """lvalue map[k] of a map that stores list iterators (as node ids)"""
    def __init__(self, mp, key):
        self.mp, self.key = mp, key


def assign_slot(ex, slot, v):
    lp = _sibling_list(ex, slot.mp)
    if not isinstance(v, PtrVal) or v.path is None or not v.path.same(lp.field('nodes')):
        raise Unsupported('storing an iterator of another list in the map')
    mv = ex.read(slot.mp)
    val = mv.f['val']
    ex.write(slot.mp, SVal('std::unordered_map', {'has': mv.f['has'], 'val': VecVal(val.len, z3.Store(val.data, slot.key, v.off), val.el),
                                                  'size': mv.f['size']}))


def map_iter_method(ex, t, name, objn, args, n):
    it = _iter_val(ex, objn)
    if name in ('operator->', 'operator*'):
        mp = _map_of_iter(ex, it)
        mv = ex.read(mp)
        ex.oblige('bounds', 'unordered_map-iterator.dereference',
                  z3.And(z3.Not(it.f['end']), z3.Select(mv.f['has'].data, it.f['key'])), n)
        stores_iters = bool(re.search(r'_List_(const_)?iterator<', t))
        if stores_iters:
            lp = _sibling_list(ex, mp)
            lv = ex.read(lp)
            second = PtrVal(lp.field('nodes'), z3.Select(mv.f['val'].data, it.f['key']), lv.f['nodes'].el)
        else:
            second = select(mv.f['val'].data, it.f['key'])
        tmp = ex.new_root('map_entry', SVal('std::pair', {'first': it.f['key'], 'second': second}))
        return RefVal(tmp) if name == 'operator*' else PtrVal(tmp, None)
    if name == 'operator=':
        p = ex.lv(objn)
        ex.write(p, _iter_val(ex, args[0]))
        return RefVal(p)
    raise Unsupported('unordered_map iterator method %s' % name)


def map_iter_compare(ex, name, args, n):
    a, b = _iter_val(ex, args[0]), _iter_val(ex, args[1])
    eq = z3.Or(z3.And(a.f['end'], b.f['end']), z3.And(z3.Not(a.f['end']), z3.Not(b.f['end']), a.f['key'] == b.f['key']))
    return eq if name == 'operator==' else z3.Not(eq)


def method(ex, t, name, objn, arrow, args, n):
    """dispatch for call_method; returns NotImplemented when t is not a modelled container"""
    if LIST_RE.match(t):
        return list_method(ex, t, name, objn, arrow, args, n)
    if UMAP_RE.match(t):
        return map_method(ex, t, name, objn, arrow, args, n)
    if LIT_RE.match(t):
        return list_iter_method(ex, name, objn, args, n)
    if MIT_RE.match(t) or MITB_RE.match(t):
        return map_iter_method(ex, t, name, objn, args, n)
    return NotImplemented
