"""Check driver: selects the contracts serving a property, verifies every function under contract in
parallel, maps failed obligations to VIOLATION lines, handles known findings, writes evidence."""
import importlib
import json
import multiprocessing as mp
import os
import pkgutil
import re
import sys
import time

VERIF = os.path.dirname(os.path.dirname(os.path.abspath(__file__)))
sys.path.insert(0, VERIF)

from engine import spec as S          # noqa: E402
from engine import astdb              # noqa: E402

TRUSTED_BASE = [
    "clang 14 parser/type checker as the reading of /repo's C++ (JSON AST dump of the real translation units)",
    "the AST->VC lowering in /verif/engine (symbolic executor, loop cutting, frame computation)",
    "z3 5.1 as the deciding solver (in-process python3-vt z3-solver; the same query is also given to a fresh z3-new process when the in-process attempt is undecided)",
    "contracts of libstdc++ containers/algorithms and libc memcpy/memmove in /verif/engine/prelude.py",
    "A1: IEEE doubles treated as mathematical reals (no rounding, no NaN/inf)",
    "A2: libm functions as uninterpreted functions with the axioms listed in engine/prelude.py",
    "array lengths fit in int (base_array::size() truncates silently otherwise); allocation never fails",
]


def load_contracts():
    import contracts
    for m in pkgutil.iter_modules(contracts.__path__):
        importlib.import_module('contracts.' + m.name)


def load_known():
    """known_findings.txt: 'finding: property=<id> obligation=<name> when=<python spec expr> :: text'
       'fixed: property=<id> <commit> <text>' entries suppress nothing."""
    out = []
    p = os.path.join(VERIF, 'known_findings.txt')
    if not os.path.exists(p):
        return out
    for line in open(p):
        line = line.strip()
        if not line.startswith('finding:'):
            continue
        mn = re.match(r'^finding:\s+property=(\S+)\s+native=(\S+)\s+::\s+(.*)$', line)
        if mn:
            out.append({'property': mn.group(1), 'native': mn.group(2), 'obligation': None, 'when': None,
                        'text': mn.group(3)})
            continue
        m = re.match(r'^finding:\s+property=(\S+)\s+obligation=(\S+)\s+when=(.*?)\s+::\s+(.*)$', line)
        if not m:
            raise RuntimeError('malformed known_findings line: ' + line)
        out.append({'property': m.group(1), 'obligation': m.group(2), 'when': m.group(3), 'text': m.group(4)})
    return out


def load_baseline():
    p = os.path.join(VERIF, 'contracts', 'baseline_obligations.json')
    if not os.path.exists(p):
        return {}
    return json.load(open(p))


def _work(args):
    key, seed, timeout_ms, known = args
    from engine import verify
    load_contracts()
    c = S.REGISTRY[key]
    verify.KNOWN = known
    r = verify.verify_function(c, seed=seed, timeout_ms=timeout_ms)
    return {
        'key': key, 'status': r.status, 'message': r.message, 'paths': r.paths, 'exits': r.exits,
        'secs': r.secs, 'solver_secs': r.solver_secs, 'assumed': list(r.assumed), 'func': r.func,
        'file': r.file, 'line': r.line, 'vacuity': r.vacuity,
        'obligations': [o.as_dict() for o in r.obligations],
    }


def _selftest():
    load_contracts()
    from engine import selftest
    return selftest.run()


def select(prop):
    keys = []
    for k in S.ORDER:
        c = S.REGISTRY[k]
        if not c.verify:
            continue
        props = set(c.serves)
        for v in c.prop_of.values():
            props.update(v)
        if prop in props or prop == 'ALL':
            keys.append(k)
    return keys


def run_check(prop, tier='quick', seed=0, jobs=None, verbose=False):
    t0 = time.time()
    load_contracts()
    known = load_known()
    keys = select(prop)
    timeout_ms = 20000 if tier == 'quick' else 60000
    jobs = jobs or min(16, max(1, len(keys)))
    # warm the AST cache serially per TU (one clang run per TU), in parallel across TUs
    tus = sorted({S.REGISTRY[k].tu for k in keys})
    with mp.Pool(min(len(tus), 16) or 1) as pool:
        pool.map(astdb.load_tu_quiet, tus)
    # the lemma schemas the contracts instantiate are re-proved on every run, in a process of their own
    stpool = mp.Pool(1)
    st_async = stpool.apply_async(_selftest)
    with mp.Pool(jobs, maxtasksperchild=1) as pool:
        results = pool.map(_work, [(k, seed, timeout_ms, known) for k in keys], chunksize=1)
    # an obligation left undecided is re-tried once with another seed and twice the time before anything is
    # concluded from it (unstable queries must not turn into alarms)
    for rnd, (dseed, mult) in enumerate(((101, 2), (202, 4))):
        retry = [r['key'] for r in results if r['status'] == 'ok' and any(o['status'] == 'unknown' for o in r['obligations'])]
        if not retry:
            break
        with mp.Pool(min(jobs, len(retry)), maxtasksperchild=1) as pool:
            again = pool.map(_work, [(k, seed + dseed, timeout_ms * mult, known) for k in retry], chunksize=1)
        byk = {r['key']: r for r in again}
        for r in results:
            a = byk.get(r['key'])
            if a is None or a['status'] != 'ok':
                continue
            st2 = {}
            for o in a['obligations']:
                st2.setdefault(o['name'], []).append(o['status'])
            for o in r['obligations']:
                if o['status'] == 'unknown' and st2.get(o['name']) and all(x == 'discharged' for x in st2[o['name']]):
                    o['status'] = 'discharged'
                    o['detail'] = (o['detail'] + ' (discharged on retry with seed+%d, %dx time)' % (dseed, mult)).strip()
    try:
        SELFTEST[:] = st_async.get(timeout=600)
    except Exception as e:
        SELFTEST[:] = [('selftest', False, 'did not finish: %s' % e)]
    stpool.terminate()
    return finish(prop, tier, seed, results, known, time.time() - t0, verbose)


SELFTEST = []


def finish(prop, tier, seed, results, known, wall, verbose):
    baseline = load_baseline()
    base_p = baseline.get(prop) or {}
    if isinstance(base_p, list):
        base_p = {n: [] for n in base_p}
    seen_names = set()
    seen_vc = {}
    viol = []
    undecided = []
    known_hits = []
    n_obl = n_dis = 0
    samples = []
    funcs = []
    assumed = set()
    solver_secs = 0.0
    per_kind = {}
    fallback = []
    for r in results:
        c = S.REGISTRY[r['key']]
        if r['status'] != 'ok':
            # the function is outside the verifier's reach on this tree (a construct without model, a callee without contract,
            # a contract that names a local which no longer exists). On the pinned tree every function under contract is within
            # reach, so this only happens after a change: the native demonstrations written for this function's clauses are
            # run against the real code. A failing input found that way is a violation (bounded, with the program as replay);
            # without one the function stays undecided.
            msg = '%s: %s: %s' % (r['key'], r['status'], r['message'])
            if c.custom is None and (prop in c.serves or prop == 'ALL') and os.environ.get('VERIF_WRITE_BASELINE') != '1':
                o_ = {'name': '%s/outside-reach:%s' % (r['key'], r['status']), 'kind': 'outside-reach', 'func': c.name, 'line': 0, 'model': {},
                      'detail': 'not verifiable on this tree (%s); native demonstration of the clauses this function serves' % str(r['message'])[:300],
                      'props': list(c.serves), 'status': 'unknown', 'native_only': True}
                fallback.append((o_, msg))
            else:
                undecided.append(msg)
            continue
        mine = [o for o in r['obligations'] if prop in o['props'] or prop == 'ALL']
        funcs.append({'function': r['func'], 'contract': r['key'], 'file': r['file'], 'line': r['line'],
                      'paths': r['paths'], 'exits': r['exits'], 'obligations': len(mine),
                      'secs': round(r['secs'], 2)})
        assumed.update(r['assumed'])
        solver_secs += r['solver_secs']
        if not mine and not c.trusted and prop not in S.SAFETY_ONLY:
            undecided.append('%s: zero obligations generated for %s (vacuous)' % (r['key'], prop))
        pins = bool(getattr(c, 'pins_algorithm', False))
        for o in mine:
            if pins and o['kind'] in ('ensures', 'assert', 'inv_init', 'inv_step'):
                o = dict(o, path_clause=True)
            seen_names.add(o['name'])
            seen_vc.setdefault(o['name'], set()).add(o.get('vc', 0))
            if o['status'] == 'known':
                # the obligation of a recorded finding: not proved and not counted as an obligation of the proof claim; it is
                # listed under known_findings_hit / obligations_not_holding_known_finding
                known_hits.append(o)
                continue
            n_obl += 1
            per_kind[o['kind']] = per_kind.get(o['kind'], 0) + 1
            if o['status'] == 'discharged':
                n_dis += 1
            elif o['status'] == 'failed':
                viol.append(o)
            elif o.get('model') and _confirmed_natively(prop, o):
                # the solver could not decide the full VC but proposed a candidate input (quantified hypotheses
                # dropped); the candidate reproduces on the real code: a genuine failing input
                o = dict(o)
                o['detail'] = 'candidate counterexample confirmed by native replay (%s)' % o['detail']
                viol.append(o)
            elif o['name'] in base_p and o.get('vc') in base_p[o['name']]:
                # the very same verification condition (equal fingerprint) that is discharged on the pinned tree: the code
                # this obligation depends on has not changed, the solver just did not finish this time
                undecided.append('%s: %s on a verification condition identical to the pinned tree (solver instability) %s'
                                 % (o['name'], o['status'], o['detail']))
            elif o['name'] in base_p:
                # an obligation that is discharged on the pinned tree (contracts/baseline_obligations.json) has a different
                # verification condition now and the solver no longer decides it (no counterexample either): a violation if a
                # native demonstration finds a failing input for it, undecided otherwise (a timeout is never a violation)
                o = dict(o, needs_native=True)
                o['detail'] = 'regressed: discharged on the pinned tree, now %s (%s)' % (o['status'], o['detail'])
                viol.append(o)
            else:
                undecided.append('%s: %s %s' % (o['name'], o['status'], o['detail']))
        for o in mine[:2]:
            samples.append({'obligation': o['name'], 'status': o['status'], 'solver_s': o['secs']})
    ev = {
        'property_id': prop, 'tier': tier, 'seed': seed, 'level': 'proof',
        'coverage': {
            'obligations': n_obl, 'discharged': n_dis,
            'checker_cmd': './check %s --tier %s' % (prop, tier),
            'trusted_base': TRUSTED_BASE,
            'functions_under_contract': funcs,
            'obligations_by_kind': per_kind,
            'back_end': 'z3 %s (in-process), mathematical integers/reals, VCs from /verif/engine' % _z3ver(),
            'solver_s': round(solver_secs, 2),
            'samples': samples[:12],
            'undecided': undecided,
            'known_findings_hit': [o['name'] for o in known_hits],
            'obligations_not_holding_known_finding': len(known_hits),
            'source_hash': astdb.source_hash(),
            'vcs_identical_to_pinned_tree': sum(1 for n, vs in seen_vc.items() for v in vs if v in (base_p.get(n) or ())),
            'vcs_total_distinct': sum(len(vs) for vs in seen_vc.values()),
        },
        'assumptions': sorted(assumed) + trusted_contracts(prop),
        'wall_s': round(wall, 2),
        'violations': len(viol),
    }
    code = 0
    ev['coverage']['lemma_schemas'] = {'checked': len(SELFTEST), 'failed': [n for n, ok, _ in SELFTEST if not ok]}
    for n, ok, how in SELFTEST:
        if not ok:
            undecided.append('lemma schema %s is not proved (%s): the trusted base is broken' % (n, how))
    seenk = set()
    for o in known_hits:
        for kf in known:
            if kf['obligation'] == o['name'] and kf['property'] == prop and o['name'] not in seenk:
                seenk.add(o['name'])
                print('KNOWN-FINDING: property=%s %s [%s]' % (prop, kf['text'], o['name']))
    # known findings demonstrated natively (properties whose violated clause has no decidable obligation): the
    # recorded failing input is re-run against the real code on every check
    for kf in known:
        if kf.get('native') and kf['property'] == prop:
            from engine import replay
            try:
                import contracts.replays as _rp
                src = getattr(_rp, kf['native'])()
                still, out = replay.run_native(src)
            except Exception as e:
                still, out = None, str(e)
            if still:
                print('KNOWN-FINDING: property=%s %s [native %s]' % (prop, kf['text'], kf['native']))
            elif still is None:
                print('NOTE: native demonstration %s could not be run: %s' % (kf['native'], out[:200]))
            else:
                print('NOTE: known finding %s no longer reproduces natively' % kf['native'])
            ev['coverage'].setdefault('known_findings_native', []).append({'name': kf['native'], 'still_fails': bool(still)})
    # bounded stand-ins (thorough tier): clauses no contract within reach decides, checked natively on a stated grid;
    # labelled bounded, never counted as proved; a failure is a real failing input
    standin_viol = []
    if tier == 'thorough':
        from engine import replay
        try:
            from contracts.standins import STANDINS
        except Exception as e:
            STANDINS = {}
            undecided.append('bounded stand-ins could not be loaded: %s' % e)
        for nm_, bound_, src_ in STANDINS.get(prop, ()):
            try:
                bad_, out_ = replay.run_native(src_, timeout=600)
            except Exception as e:
                bad_, out_ = None, str(e)
            ev['coverage'].setdefault('bounded_standins', []).append(
                {'clause': nm_, 'bound': bound_, 'level': 'bounded (not counted as proved)', 'held': (bad_ is False), 'output': (out_ or '')[-400:]})
            if bad_:
                d_ = os.path.join(os.environ.get('VERIF_OUT', VERIF), 'replays', prop)
                os.makedirs(d_, exist_ok=True)
                rp_ = os.path.join(d_, 'bounded_' + re.sub(r'[^A-Za-z0-9]+', '_', nm_)[:80] + '.json')
                with open(rp_, 'w') as fh:
                    json.dump({'property': prop, 'obligation': 'bounded stand-in: ' + nm_, 'bound': bound_,
                               'native': {'program': src_, 'reproduced': True, 'output': out_[-2000:]}}, fh, indent=1)
                standin_viol.append((nm_, rp_, out_))
            elif bad_ is None:
                undecided.append('bounded stand-in %s could not be run: %s' % (nm_, (out_ or '')[:200]))
    if standin_viol:
        code = 1
        for nm_, rp_, out_ in standin_viol:
            print('VIOLATION property=%s replay=%s' % (prop, rp_))
            print('  bounded stand-in failed natively: %s: %s' % (nm_, (out_ or '').strip().splitlines()[-1][:300] if out_ else ''))
    real_viol = []
    if fallback:
        from engine import replay
        for o_, msg in fallback:
            path, reproduced = replay.write_replay(prop, o_)
            if reproduced:
                real_viol.append((o_, path, True))
            else:
                undecided.append(msg)
    if viol:
        from engine import replay
        seen = set()
        for o in viol:
            if o['name'] in seen:
                continue
            seen.add(o['name'])
            path, reproduced = replay.write_replay(prop, o)
            if o.get('needs_native') and not reproduced:
                # discharged on the pinned tree, not discharged now, but the solver gave no counterexample (timeout / unknown) and
                # no failing input was found natively: a solver limit is not a violation
                undecided.append('%s: %s; no failing input found natively; replay %s' % (o['name'], o['detail'], path))
                continue
            if o.get('path_clause') and not reproduced:
                # a clause that pins the algorithm (not the result) no longer holds and no failing input was found: the code
                # computes its result differently now and the proof does not apply to it -- undecided, not a violation
                undecided.append('%s: the contract pins the algorithm and this clause no longer holds; no failing input found natively '
                                 '(a different algorithm needs a new proof); replay %s' % (o['name'], path))
                continue
            real_viol.append((o, path, reproduced))
    ev['violations'] = len(real_viol) + len(standin_viol)
    if real_viol:
        code = 1
        for o, path, reproduced in real_viol:
            print('VIOLATION property=%s replay=%s%s' % (prop, path, '' if reproduced else ' no-failing-input-found'))
            print('  obligation %s failed; model %s' % (o['name'], json.dumps(o['model'])))
    if not real_viol and undecided and not standin_viol:
        code = 2
        for u in undecided:
            print('UNDECIDED: ' + u)
    exp = base_p if prop in baseline else None
    if exp is not None and code == 0:
        # names of safety obligations carry the line offset inside the function ("@+2"); lines inserted above a statement
        # shift it without dropping anything, so names are compared modulo the offset, by count per stem
        def _stem(n_):
            return re.sub(r'@([^+@]*)\+\d+$', r'@\1', n_)
        have = {}
        for n_ in seen_names:
            have[_stem(n_)] = have.get(_stem(n_), 0) + 1
        want = {}
        for n_ in exp:
            want.setdefault(_stem(n_), []).append(n_)
        missing = sorted(n_ for st_, ns_ in want.items() if have.get(st_, 0) < len(ns_) for n_ in ns_ if n_ not in seen_names)
        if len(missing) > 0 and os.environ.get('VERIF_WRITE_BASELINE') != '1':
            # obligations of the pinned tree that were not even generated: a dropped clause / loop contract or an
            # extraction change -- never a silent pass
            code = 2
            for mname in missing[:10]:
                print('UNDECIDED: obligation of the baseline was not generated: ' + mname)
    if os.environ.get('VERIF_WRITE_BASELINE') == '1' and code == 0:
        if os.environ.get('VERIF_BASELINE_MERGE') == '1' and prop in baseline:
            # second pass with another solver seed: whether a path that the contract excludes is pruned as infeasible or kept (and
            # then discharged) can depend on the seed, so only obligations generated under every seed are required to reappear;
            # the VC fingerprints of all passes are kept
            old_ = baseline[prop]
            baseline[prop] = {n: sorted(set(old_[n]) | set(seen_vc[n])) for n in sorted(seen_names) if n in old_}
        else:
            baseline[prop] = {n: sorted(seen_vc[n]) for n in sorted(seen_names)}
        with open(os.path.join(VERIF, 'contracts', 'baseline_obligations.json'), 'w') as f:
            json.dump(baseline, f, indent=0, sort_keys=True)
    OUT = os.environ.get('VERIF_OUT', VERIF)    # evidence/replays of runs against a scratch tree (tools/run_seeded.py) go elsewhere
    os.makedirs(os.path.join(OUT, 'evidence'), exist_ok=True)
    if prop != 'ALL':
        with open(os.path.join(OUT, 'evidence', prop + '.json'), 'w') as f:
            json.dump(ev, f, indent=1)
    if verbose or code != 0:
        for f in funcs:
            print('  %-70s paths=%d obligations=%d %.1fs' % (f['contract'], f['paths'], f['obligations'], f['secs']))
    print('%s: %d obligations, %d discharged, %d violations, %d undecided%s, %.1fs' % (
        prop, n_obl, n_dis, len(real_viol) + len(standin_viol), len(undecided),
        (', %d not holding (known finding)' % len(known_hits)) if known_hits else '', wall))
    return code


_native_cache = {}


def _confirmed_natively(prop, o):
    if o['name'] in _native_cache:
        return _native_cache[o['name']]
    from engine import replay
    try:
        path, rep = replay.write_replay(prop, o)
    except Exception:
        rep = False
    _native_cache[o['name']] = rep
    return rep


def trusted_contracts(prop):
    out = []
    for k in S.ORDER:
        c = S.REGISTRY[k]
        if c.trusted and (prop in c.serves or prop == 'ALL'):
            out.append('assumed (unverified) contract: ' + k + (' -- ' + c.notes if c.notes else ''))
    return out


def _z3ver():
    import z3
    return z3.get_version_string()
