"""Frame facts about objects with static storage duration and mutable members (C09 / C10 / C19).

Every contract's frame ('assigns') speaks about the objects reachable from the arguments; what no per-function frame can
see is an object that lives outside every argument: a namespace-scope variable, a static local, a static data member,
or a `mutable` member written by a const method. This module enumerates them for one translation unit from the same
clang AST the executor runs on and turns each into an obligation:

  * const / constexpr object                    -> immutable, discharged
  * thread_local object                         -> per-thread state, discharged (and must be on the contract's allow list,
                                                   so that a new one is looked at)
  * anything else                               -> 'no-process-wide-mutable-state' fails
  * `mutable` data member                       -> 'no-mutable-member' fails

and cross-checks the AST scan against the symbols of the compiled object file (writable sections .data/.bss and the TLS
sections), so that a variable declared outside namespace dsplib (which the filtered AST dump does not contain) is still
seen."""
import os
import re
import subprocess

from . import astdb

FUNCS = ('FunctionDecl', 'CXXMethodDecl', 'CXXConstructorDecl', 'CXXConversionDecl', 'CXXDestructorDecl', 'LambdaExpr')
RECS = ('CXXRecordDecl', 'ClassTemplateSpecializationDecl')


def _is_const(qt):
    qt = qt.strip()
    if qt.endswith('*const') or qt.endswith('* const'):
        return True
    if '*' in qt or qt.endswith('&'):
        return False            # pointer / reference to (possibly const) data: the pointer itself is writable
    return qt.startswith('const ') or ' const' in qt.split('<')[0]


def scan_ast(tu):
    out = []
    seen = set()

    def walk(n, scope, infunc, inrec):
        k = n.get('kind')
        if k == 'NamespaceDecl':
            sc = scope + (n.get('name') or '(anon)') + '::'
            for c in n.get('inner', ()):
                walk(c, sc, infunc, inrec)
            return
        if k in RECS:
            sc = scope + (n.get('name') or '(anon)') + '::'
            for c in n.get('inner', ()):
                walk(c, sc, infunc, True)
            return
        if k in FUNCS:
            sc = scope + (n.get('name') or '(lambda)') + '()::'
            for c in n.get('inner', ()):
                walk(c, sc, True, False)
            return
        if k == 'VarDecl':
            static = n.get('storageClass') == 'static' or (not infunc and n.get('storageClass') != 'extern') \
                or bool(n.get('tls'))
            if static and not (inrec and n.get('storageClass') != 'static'):
                key = (n.get('_file'), n.get('_line'), n.get('name'))
                if key not in seen:
                    seen.add(key)
                    qt = n.get('type', {}).get('qualType', '')
                    out.append({'name': scope + (n.get('name') or '?'), 'file': n.get('_file'), 'line': n.get('_line'),
                                'what': 'static local' if infunc else ('static member' if inrec else 'namespace-scope variable'),
                                'tls': bool(n.get('tls')), 'const': bool(n.get('constexpr')) or _is_const(qt), 'type': qt})
        if k == 'FieldDecl' and n.get('mutable'):
            key = (n.get('_file'), n.get('_line'), n.get('name'))
            if key not in seen:
                seen.add(key)
                out.append({'name': scope + (n.get('name') or '?'), 'file': n.get('_file'), 'line': n.get('_line'),
                            'what': 'mutable member', 'tls': False, 'const': False,
                            'type': n.get('type', {}).get('qualType', '')})
        for c in n.get('inner', ()):
            if isinstance(c, dict):
                walk(c, scope, infunc, inrec)

    for o in tu.roots:
        walk(o, '', False, False)
    return out


def object_symbols(relpath):
    """writable / TLS data symbols of the compiled translation unit: [(section, demangled name)]"""
    astdb._ensure_gen()
    odir = os.path.join(astdb.WORK, 'objs', astdb.source_hash())
    if not os.path.isdir(odir):
        os.makedirs(odir, exist_ok=True)
        base = os.path.dirname(odir)       # prune objects of older source states
        for fn in os.listdir(base):
            if fn != astdb.source_hash():
                subprocess.call(['rm', '-rf', os.path.join(base, fn)])
    obj = os.path.join(odir, relpath.replace('/', '_') + '.o')
    if not os.path.exists(obj):
        cmd = ['g++', '-std=c++17', '-O1', '-DNDEBUG', '-DDSPLIB_FFT_CACHE_SIZE=4', '-c', '-I' + os.path.join(astdb.REPO, 'include'), '-I' + astdb.GEN,
               '-I' + os.path.join(astdb.REPO, 'lib'), os.path.join(astdb.REPO, relpath), '-o', obj + '.tmp%d' % os.getpid()]
        r = subprocess.run(cmd, capture_output=True, text=True)
        if r.returncode != 0:
            raise RuntimeError('g++ failed on %s: %s' % (relpath, r.stderr[-2000:]))
        os.replace(obj + '.tmp%d' % os.getpid(), obj)
    r = subprocess.run(['objdump', '-t', '-C', obj], capture_output=True, text=True)
    out = []
    for line in r.stdout.splitlines():
        m = re.match(r'^[0-9a-f]+\s+(.{7})\s+(\S+)\s+[0-9a-f]+\s+(.*)$', line)
        if not m:
            continue
        flags, sec, name = m.group(1), m.group(2), m.group(3).strip()
        base = sec.split('.')[1] if sec.startswith('.') and len(sec.split('.')) > 1 else sec
        if base not in ('data', 'bss', 'tdata', 'tbss') or sec.startswith('.data.rel.ro'):
            continue
        if 'd' in flags[5:] or 'f' in flags[5:]:
            continue
        name = re.sub(r'^\.hidden\s+', '', name)
        if name.startswith('.') or not name:
            continue
        out.append((base, name))
    return out


IGNORED_SYMBOLS = (r'^guard variable for ', r'^std::__ioinit$', r'^TLS init function', r'^__dso_handle$',
                   r'^std::piecewise_construct$', r'\[clone ', r'^typeinfo ', r'^vtable ', r'^DW\.ref\.', r'^__tls_guard$')


def scan(relpath):
    """[(label, ok, detail, info)] for one translation unit of /repo/lib"""
    tu = astdb.load_tu(relpath)
    objs = scan_ast(tu)
    res = []
    known_names = set()
    nvars = 0
    for o in objs:
        short = o['name'].replace('dsplib::', '')
        leaf = short.split('::')[-1]
        known_names.add(leaf)
        where = '%s:%s' % (os.path.relpath(o['file'], astdb.REPO) if o['file'] else '?', o['line'])
        info = dict(o, where=where)
        if o['what'] == 'mutable member':
            res.append(('no-mutable-member:' + short, False,
                        'mutable data member %s (%s) at %s: a const method may write it, so const operations of a shared '
                        'object are not read-only' % (short, o['type'], where), info))
            continue
        nvars += 1
        if o['const']:
            res.append(('immutable:' + short, True, 'const object at ' + where, info))
        elif o['tls']:
            res.append(('per-thread:' + short, True, 'thread_local object at ' + where, info))
        else:
            res.append(('no-process-wide-mutable-state:' + short, False,
                        '%s %s (%s) at %s has static storage duration, is writable and is not thread_local: state shared '
                        'by all threads and all calls' % (o['what'], short, o['type'], where), info))
    # object-file cross-check
    by_name = {o['name'].replace('dsplib::', '').split('::')[-1]: o for o in objs if o['what'] != 'mutable member'}
    for sec, name in object_symbols(relpath):
        if any(re.search(p, name) for p in IGNORED_SYMBOLS):
            continue
        leaf = name
        while True:
            l2 = re.sub(r'\([^()]*\)|<[^<>]*>', '', leaf)
            if l2 == leaf:
                break
            leaf = l2
        leaf = leaf.split('::')[-1].strip()
        o = by_name.get(leaf)
        if o is None:
            res.append(('no-unlisted-data-symbol:' + name, False,
                        'object file of %s has the writable data symbol %s in .%s, which the AST scan of namespace dsplib '
                        'does not explain' % (relpath, name, sec), {'symbol': name, 'section': sec}))
        elif sec in ('data', 'bss') and not o['const'] and o['tls']:
            res.append(('tls-symbol-in-shared-section:' + name, False, 'declared thread_local but emitted in .' + sec,
                        {'symbol': name, 'section': sec}))
    return res, nvars
