"""Frame facts about objects with static storage duration and mutable members (C09 / C10 / C19).

Every contract's frame ('assigns') speaks about the objects reachable from the arguments; what no per-function frame can
see is an object that lives outside every argument: a namespace-scope variable, a static local, a static data member,
or a `mutable` member written by a const method. This module enumerates them for one translation unit from the same
clang AST the executor runs on and turns each into an obligation:

  * const / constexpr object                    -> immutable, discharged
  * thread_local object                         -> per-thread state, discharged (and must be on the contract's allow list,
                                                   so that a new one is looked at)
  * anything else                               -> 'no-process-wide-mutable-state' fails
  * `mutable` data member                       -> 'no-mutable-member' fails

and cross-checks the AST scan against the symbols of the compiled object file (writable sections .data/.bss and the TLS
sections), so that a variable declared outside namespace dsplib (which the filtered AST dump does not contain) is still
seen."""
import os
import re
import subprocess

from . import astdb

FUNCS = ('FunctionDecl', 'CXXMethodDecl', 'CXXConstructorDecl', 'CXXConversionDecl', 'CXXDestructorDecl', 'LambdaExpr')
RECS = ('CXXRecordDecl', 'ClassTemplateSpecializationDecl')


def _is_const(qt):
    qt = qt.strip()
    if qt.endswith('*const') or qt.endswith('* const'):
        return True
    if '*' in qt or qt.endswith('&'):
        return False            # pointer / reference to (possibly const) data: the pointer itself is writable
    return qt.startswith('const ') or ' const' in qt.split('<')[0]


def scan_ast(tu):
    out = []
    seen = set()

    def walk(n, scope, infunc, inrec):
        k = n.get('kind')
        if k == 'NamespaceDecl':
            sc = scope + (n.get('name') or '(anon)') + '::'
            for c in n.get('inner', ()):
                walk(c, sc, infunc, inrec)
            return
        if k in RECS:
            sc = scope + (n.get('name') or '(anon)') + '::'
            for c in n.get('inner', ()):
                walk(c, sc, infunc, True)
            return
        if k in FUNCS:
            sc = scope + (n.get('name') or '(lambda)') + '()::'
            for c in n.get('inner', ()):
                walk(c, sc, True, False)
            return
        if k == 'VarDecl':
            static = n.get('storageClass') == 'static' or (not infunc and n.get('storageClass') != 'extern') \
                or bool(n.get('tls'))
            if static and not (inrec and n.get('storageClass') != 'static'):
                key = (n.get('_file'), n.get('_line'), n.get('name'))
                if key not in seen:
                    seen.add(key)
                    qt = n.get('type', {}).get('qualType', '')
                    out.append({'name': scope + (n.get('name') or '?'), 'file': n.get('_file'), 'line': n.get('_line'),
                                'what': 'static local' if infunc else ('static member' if inrec else 'namespace-scope variable'),
                                'tls': bool(n.get('tls')), 'const': bool(n.get('constexpr')) or _is_const(qt), 'type': qt})
        if k == 'FieldDecl' and n.get('mutable'):
            key = (n.get('_file'), n.get('_line'), n.get('name'))
            if key not in seen:
                seen.add(key)
                out.append({'name': scope + (n.get('name') or '?'), 'file': n.get('_file'), 'line': n.get('_line'),
                            'what': 'mutable member', 'tls': False, 'const': False,
                            'type': n.get('type', {}).get('qualType', '')})
        for c in n.get('inner', ()):
            if isinstance(c, dict):
                walk(c, scope, infunc, inrec)

    for o in tu.roots:
        walk(o, '', False, False)
    return out


def object_symbols(relpath):
    """writable / TLS data symbols of the compiled translation unit: [(section, demangled name)]"""
    astdb._ensure_gen()
    odir = os.path.join(astdb.WORK, 'objs', astdb.source_hash())
    if not os.path.isdir(odir):
        os.makedirs(odir, exist_ok=True)
        base = os.path.dirname(odir)       # prune objects of older source states
        for fn in os.listdir(base):
            if fn != astdb.source_hash():
                subprocess.call(['rm', '-rf', os.path.join(base, fn)])
    obj = os.path.join(odir, relpath.replace('/', '_') + '.o')
    if not os.path.exists(obj):
        cmd = ['g++', '-std=c++17', '-O1', '-DNDEBUG', '-DDSPLIB_FFT_CACHE_SIZE=4', '-c', '-I' + os.path.join(astdb.REPO, 'include'), '-I' + astdb.GEN,
               '-I' + os.path.join(astdb.REPO, 'lib'), os.path.join(astdb.REPO, relpath), '-o', obj + '.tmp%d' % os.getpid()]
        r = subprocess.run(cmd, capture_output=True, text=True)
        if r.returncode != 0:
            raise RuntimeError('g++ failed on %s: %s' % (relpath, r.stderr[-2000:]))
        os.replace(obj + '.tmp%d' % os.getpid(), obj)
    r = subprocess.run(['objdump', '-t', '-C', obj], capture_output=True, text=True)
    out = []
    for line in r.stdout.splitlines():
        m = re.match(r'^[0-9a-f]+\s+(.{7})\s+(\S+)\s+[0-9a-f]+\s+(.*)$', line)
        if not m:
            continue
        flags, sec, name = m.group(1), m.group(2), m.group(3).strip()
        base = sec.split('.')[1] if sec.startswith('.') and len(sec.split('.')) > 1 else sec
        if base not in ('data', 'bss', 'tdata', 'tbss') or sec.startswith('.data.rel.ro'):
            continue
        if 'd' in flags[5:] or 'f' in flags[5:]:
            continue
        name = re.sub(r'^\.hidden\s+', '', name)
        if name.startswith('.') or not name:
            continue
        out.append((base, name))
    return out


IGNORED_SYMBOLS = (r'^guard variable for ', r'^std::__ioinit$', r'^TLS init function', r'^__dso_handle$',
                   r'^std::piecewise_construct$', r'\[clone ', r'^typeinfo ', r'^vtable ', r'^DW\.ref\.', r'^__tls_guard$')


def scan(relpath):
    """[(label, ok, detail, info)] for one translation unit of /repo/lib"""
    tu = astdb.load_tu(relpath)
    objs = scan_ast(tu)
    res = []
    known_names = set()
    nvars = 0
    for o in objs:
        short = o['name'].replace('dsplib::', '')
        leaf = short.split('::')[-1]
        known_names.add(leaf)
        where = '%s:%s' % (os.path.relpath(o['file'], astdb.REPO) if o['file'] else '?', o['line'])
        info = dict(o, where=where)
        if o['what'] == 'mutable member':
            res.append(('no-mutable-member:' + short, False,
                        'mutable data member %s (%s) at %s: a const method may write it, so const operations of a shared '
                        'object are not read-only' % (short, o['type'], where), info))
            continue
        nvars += 1
        if o['const']:
            res.append(('immutable:' + short, True, 'const object at ' + where, info))
        elif o['tls']:
            res.append(('per-thread:' + short, True, 'thread_local object at ' + where, info))
        else:
            res.append(('no-process-wide-mutable-state:' + short, False,
                        '%s %s (%s) at %s has static storage duration, is writable and is not thread_local: state shared '
                        'by all threads and all calls' % (o['what'], short, o['type'], where), info))
    # object-file cross-check
    by_name = {o['name'].replace('dsplib::', '').split('::')[-1]: o for o in objs if o['what'] != 'mutable member'}
    for sec, name in object_symbols(relpath):
        if any(re.search(p, name) for p in IGNORED_SYMBOLS):
            continue
        leaf = name
        while True:
            l2 = re.sub(r'\([^()]*\)|<[^<>]*>', '', leaf)
            if l2 == leaf:
                break
            leaf = l2
        leaf = leaf.split('::')[-1].strip()
        o = by_name.get(leaf)
        if o is None:
            res.append(('no-unlisted-data-symbol:' + name, False,
                        'object file of %s has the writable data symbol %s in .%s, which the AST scan of namespace dsplib '
                        'does not explain' % (relpath, name, sec), {'symbol': name, 'section': sec}))
        elif sec in ('data', 'bss') and not o['const'] and o['tls']:
            res.append(('tls-symbol-in-shared-section:' + name, False, 'declared thread_local but emitted in .' + sec,
                        {'symbol': name, 'section': sec}))
    return res, nvars


# -------------------------------------------------------------------------------------------------------------------
# const operations that reach another object through a pointer member (pimpl, shared sub-plans): C++ constness is
# shallow there -- `_d->solve(x)` compiles in a const method even if solve() is not const. Plans are documented as
# shareable between threads through their const interface, so a const method that reaches, through a pointer member,
# a non-const method which writes one of its object's data members writes state that two threads share.
_ASSIGN_OPS = {'operator=', 'operator+=', 'operator-=', 'operator*=', 'operator/=', 'operator|=', 'operator&=', 'operator^=',
               'operator<<=', 'operator>>=', 'operator%=', 'operator++', 'operator--'}


def _strip(n):
    while isinstance(n, dict) and n.get('kind') in ('ImplicitCastExpr', 'ParenExpr', 'ExprWithCleanups', 'CXXBindTemporaryExpr',
                                                     'MaterializeTemporaryExpr', 'CXXFunctionalCastExpr', 'CXXStaticCastExpr') and n.get('inner'):
        n = n['inner'][-1] if n.get('kind') == 'CXXFunctionalCastExpr' else n['inner'][0]
    return n


def _member_root(n):
    """name of the data member of *this that the lvalue expression n designates (through [] . -> on sub-objects), or None"""
    n = _strip(n)
    while isinstance(n, dict):
        k = n.get('kind')
        if k == 'MemberExpr':
            base = _strip(n['inner'][0]) if n.get('inner') else None
            if isinstance(base, dict) and base.get('kind') == 'CXXThisExpr':
                return n.get('name')
            if n.get('isArrow'):
                return None          # through another pointer: a different object
            n = base
        elif k == 'ArraySubscriptExpr':
            n = _strip(n['inner'][0])
        elif k == 'CXXOperatorCallExpr' and len(n.get('inner', ())) >= 2 and _callee_name(n) == 'operator[]':
            n = _strip(n['inner'][1])
        elif k == 'CXXMemberCallExpr':
            me = _strip(n['inner'][0])
            if me.get('kind') == 'MemberExpr' and not me.get('isArrow') and me.get('name') in ('data', 'begin', 'end', 'at', 'front', 'back'):
                n = _strip(me['inner'][0])
            else:
                return None
        elif k == 'UnaryOperator' and n.get('opcode') == '*':
            return None
        else:
            return None
    return None


def _callee_name(n):
    f = _strip(n['inner'][0]) if n.get('inner') else None
    if isinstance(f, dict) and f.get('kind') == 'DeclRefExpr':
        return f.get('referencedDecl', {}).get('name')
    return None


def _is_const_method(d):
    qt = d.get('type', {}).get('qualType', '')
    tail = qt[qt.rfind(')') + 1:]
    return bool(re.search(r'\bconst\b', tail))


def member_writes(fnode):
    """data members of *this written directly by the body of a method: [(member, line)]"""
    out = []

    def walk(n):
        if not isinstance(n, dict):
            return
        k = n.get('kind')
        if k in ('BinaryOperator', 'CompoundAssignOperator') and (n.get('opcode') == '=' or k == 'CompoundAssignOperator'):
            r = _member_root(n['inner'][0])
            if r:
                out.append((r, n.get('_line')))
        elif k == 'UnaryOperator' and n.get('opcode') in ('++', '--'):
            r = _member_root(n['inner'][0])
            if r:
                out.append((r, n.get('_line')))
        elif k == 'CXXOperatorCallExpr' and _callee_name(n) in _ASSIGN_OPS and len(n.get('inner', ())) >= 2:
            r = _member_root(n['inner'][1])
            if r:
                out.append((r, n.get('_line')))
        elif k == 'CXXMemberCallExpr':
            me = _strip(n['inner'][0])
            if me.get('kind') == 'MemberExpr' and not me.get('isArrow') and me.get('inner'):
                objt = _strip(me['inner'][0])
                qt = objt.get('type', {}).get('qualType', '') if isinstance(objt, dict) else ''
                r = _member_root(me['inner'][0])
                # a non-const member function called on a data member of *this (push_back, resize, ...)
                if r and not qt.startswith('const ') and me.get('name') not in ('size', 'data', 'begin', 'end', 'empty'):
                    md = me.get('referencedMemberDecl')
                    out.append((r, n.get('_line'), md))
        for c in n.get('inner', ()):
            walk(c)

    walk(fnode)
    return out


def scan_const_reach(relpath):
    """[(caller, callee, callee_is_const, writes, where)] for every call `ptr_member->method(...)` inside a const method"""
    tu = astdb.load_tu(relpath)
    rows = []
    for q, fs in tu.funcs.items():
        for f in fs:
            if f.get('kind') != 'CXXMethodDecl' or not _is_const_method(f):
                continue
            body = [c for c in f.get('inner', ()) if c.get('kind') == 'CompoundStmt']
            if not body:
                continue

            def walk(n):
                if not isinstance(n, dict):
                    return
                if n.get('kind') == 'CXXMemberCallExpr' and n.get('inner'):
                    me = _strip(n['inner'][0])
                    if me.get('kind') == 'MemberExpr' and me.get('isArrow') and me.get('inner'):
                        base = _strip(me['inner'][0])
                        via = None
                        if base.get('kind') == 'CXXOperatorCallExpr' and _callee_name(base) == 'operator->' and len(base.get('inner', ())) >= 2:
                            via = _member_root(base['inner'][1])
                        elif base.get('kind') == 'MemberExpr':
                            via = _member_root(base)
                        elif base.get('kind') == 'CXXMemberCallExpr':       # ptr.get()->method()
                            m2 = _strip(base['inner'][0])
                            if m2.get('kind') == 'MemberExpr' and m2.get('name') == 'get' and m2.get('inner'):
                                via = _member_root(m2['inner'][0])
                        if via is not None:
                            d = tu.decls.get(me.get('referencedMemberDecl'))
                            if d is not None and d.get('kind') == 'CXXMethodDecl' and d.get('storageClass') != 'static':
                                dd = d
                                if not [c for c in d.get('inner', ()) if c.get('kind') == 'CompoundStmt']:
                                    for g in tu.funcs.get(d.get('_qual'), ()):
                                        if g.get('type') == d.get('type') and [c for c in g.get('inner', ()) if c.get('kind') == 'CompoundStmt']:
                                            dd = g
                                has_body = bool([c for c in dd.get('inner', ()) if c.get('kind') == 'CompoundStmt'])
                                rows.append({'caller': q, 'via': via, 'callee': d.get('_qual'), 'callee_const': _is_const_method(d),
                                             'callee_has_body': has_body, 'writes': [w[:2] for w in member_writes(dd)] if has_body else None,
                                             'where': '%s:%s' % (os.path.relpath(n.get('_file') or f.get('_file') or '?', astdb.REPO), n.get('_line'))})
                for c in n.get('inner', ()):
                    walk(c)

            walk(body[0])
    return rows
