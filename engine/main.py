import argparse
import json
import os
import sys

sys.path.insert(0, os.path.dirname(os.path.dirname(os.path.abspath(__file__))))
sys.setrecursionlimit(100000)


def main():
    ap = argparse.ArgumentParser()
    ap.add_argument('prop')
    ap.add_argument('arg', nargs='?')
    ap.add_argument('--tier', default=os.environ.get('VERIF_TIER', 'quick'))
    ap.add_argument('--seed', type=int, default=int(os.environ.get('VERIF_SEED', '0') or 0))
    ap.add_argument('-v', '--verbose', action='store_true')
    ap.add_argument('-j', '--jobs', type=int, default=None)
    a = ap.parse_args()
    if a.prop == 'replay':
        rec = json.load(open(a.arg))
        print(json.dumps(rec, indent=1))
        nat = rec.get('native') or {}
        sys.exit(1 if nat.get('reproduced') else 0)
    from engine import run
    code = run.run_check(a.prop, a.tier, a.seed, a.jobs, a.verbose)
    sys.exit(code)


if __name__ == '__main__':
    main()
