"""Replay of a verifier counterexample against the real code: a native adapter (C++ program compiled
against /repo's current sources with ASan+UBSan) re-executes the call with the model's inputs and evaluates
the violated clause natively. Where no adapter applies, the replay file names the failed obligation and
carries the solver's model, and the VIOLATION line ends with no-failing-input-found."""
import json
import os
import re
import subprocess
import hashlib

VERIF = os.path.dirname(os.path.dirname(os.path.abspath(__file__)))
from engine import astdb  # noqa: E402

ADAPTERS = {}


def adapter(pattern):
    def deco(f):
        ADAPTERS[pattern] = f
        return f
    return deco


def write_replay(prop, o, run=True):
    d = os.path.join(os.environ.get('VERIF_OUT', VERIF), 'replays', prop)
    os.makedirs(d, exist_ok=True)
    nm = re.sub(r'[^A-Za-z0-9_.-]+', '_', o['name'])[:150]
    path = os.path.join(d, nm + '.json')
    rec = {'property': prop, 'obligation': o['name'], 'kind': o['kind'], 'function': o['func'],
           'line': o['line'], 'model': o['model'], 'detail': o['detail'],
           'verifier_output': ('no verdict of the verifier: ' + str(o.get('detail'))) if o.get('native_only') else
                              ('z3: ' + str(o.get('detail') or 'sat (counterexample to the verification condition); model above')),
           'native': None}
    reproduced = False
    if run:
        try:
            import contracts.replays  # registers adapters (model-specific ones first, then the area demonstrations)
            for extra in ('contracts.replays2', 'contracts.replays3'):
                try:
                    __import__(extra)
                except ImportError:
                    pass
        except Exception as e:
            rec['native'] = {'error': 'adapters not loaded: %s' % e}
        for pat, f in ADAPTERS.items():
            if re.search(pat, o['name']):
                try:
                    src = f(o)
                    if src is None:
                        continue
                    ok, out = run_native(src)
                    rec['native'] = {'adapter': f.__name__, 'program': src, 'reproduced': ok, 'output': out[-2000:]}
                    reproduced = ok
                except Exception as e:
                    rec['native'] = {'error': str(e)}
                if reproduced:
                    break       # otherwise the next matching adapter (a broader demonstration of the same clause) is tried
    with open(path, 'w') as fh:
        json.dump(rec, fh, indent=1)
    return path, reproduced


def lib_objects():
    """static library of /repo's current lib/*.cpp built with sanitizers, cached by source hash"""
    h = astdb.source_hash()
    d = os.path.join(astdb.WORK, 'native', h + 'g')     # 'g': built with float-cast-overflow checking (non-recoverable)
    lib = os.path.join(d, 'libdsplib_san.a')
    if os.path.exists(lib):
        return lib
    os.makedirs(d, exist_ok=True)
    astdb._ensure_gen()
    srcs = []
    for root, _, files in os.walk(os.path.join(astdb.REPO, 'lib')):
        for fn in files:
            if fn.endswith('.cpp'):
                srcs.append(os.path.join(root, fn))
    procs = []
    objs = []
    for s in sorted(srcs):
        o = os.path.join(d, hashlib.md5(s.encode()).hexdigest()[:10] + '.o')
        objs.append(o)
        procs.append(subprocess.Popen(['g++', '-std=c++17', '-O1', '-g', '-DNDEBUG', '-DDSPLIB_FFT_CACHE_SIZE=4',
                                       '-fsanitize=address,undefined,float-cast-overflow', '-fno-sanitize-recover=undefined,float-cast-overflow',
                                       '-I' + os.path.join(astdb.REPO, 'include'), '-I' + astdb.GEN,
                                       '-I' + os.path.join(astdb.REPO, 'lib'), '-c', s, '-o', o],
                                      stdout=subprocess.PIPE, stderr=subprocess.STDOUT))
    for p in procs:
        out, _ = p.communicate()
        if p.returncode != 0:
            raise RuntimeError('native build failed: ' + out.decode()[-2000:])
    subprocess.check_call(['ar', 'rcs', lib] + objs)
    # prune older builds
    nd = os.path.join(astdb.WORK, 'native')
    for fn in os.listdir(nd):
        if fn != h + 'g':
            subprocess.call(['rm', '-rf', os.path.join(nd, fn)])
    return lib


def run_native(src, timeout=60):
    """compile + run; returns (violation reproduced?, output). exit 0 = property held natively."""
    lib = lib_objects()
    d = os.path.dirname(lib)
    cpp = os.path.join(d, 'replay_%d.cpp' % os.getpid())
    exe = cpp[:-4]
    with open(cpp, 'w') as f:
        f.write(src)
    r = subprocess.run(['g++', '-std=c++17', '-O1', '-g', '-DNDEBUG', '-fsanitize=address,undefined,float-cast-overflow',
                        '-fno-sanitize-recover=undefined,float-cast-overflow', '-I' + os.path.join(astdb.REPO, 'include'),
                        '-I' + astdb.GEN, '-I' + os.path.join(astdb.REPO, 'lib'), cpp, lib, '-pthread', '-o', exe],
                       capture_output=True, text=True)
    if r.returncode != 0:
        return False, 'adapter does not compile: ' + r.stderr[-1500:]
    try:
        r = subprocess.run([exe], capture_output=True, text=True, timeout=timeout,
                           env=dict(os.environ, ASAN_OPTIONS='detect_leaks=0'))
        out = r.stdout + r.stderr
        return r.returncode != 0, 'exit=%d\n%s' % (r.returncode, out)
    except subprocess.TimeoutExpired:
        return True, 'timeout after %ds (non-termination reproduced)' % timeout
    finally:
        for p in (cpp, exe):
            try:
                os.remove(p)
            except OSError:
                pass
