"""Verification of one function of /repo against its contract."""
import time
import traceback
import z3

from .values import (SVal, VecVal, PtrVal, RefVal, Opaque, Path, Shapes, Unsupported, fresh, default_value, leaves,
                     tree_eq, select)
from . import spec as S
from . import astdb
from .core import (Exec, ThrowSignal, ReturnSignal, BreakSignal, ContinueSignal, PathEnd, SpecError, int_range,
                   Obligation)
from .calls import Calls, OldNS, params_of, body_of, ret_type, fresh_like
from .loops import Loops


KNOWN = []


class Result:
    def __init__(self, key):
        self.key = key
        self.obligations = []
        self.status = 'ok'       # ok | unsupported | error
        self.message = ''
        self.paths = 0
        self.exits = {}
        self.secs = 0.0
        self.solver_secs = 0.0
        self.assumed = []
        self.func = ''
        self.file = ''
        self.line = 0
        self.vacuity = []


def find_function(tu, c):
    cands = tu.find_funcs(c.name, c.sig, c.targs, c.sig_not)
    if not cands:
        # wildcard class template arguments
        for q, fs in tu.funcs.items():
            if S.name_matches(c.name, q):
                for f in fs:
                    t = f.get('type', {}).get('qualType', '')
                    if not S.sig_ok(c, t):
                        continue
                    if c.targs is not None and list(c.targs) != f.get('_targs'):
                        continue
                    cands.append(f)
    return cands


def sym_input(ex, sh, name):
    v = fresh(sh, name)
    ex.calls.type_inv(ex, v, sh)
    return v


def register_inputs(ex, name, v):
    if z3.is_expr(v):
        if not z3.is_array(v):
            ex.inputs[name] = v
    elif isinstance(v, SVal):
        for k, x in v.f.items():
            register_inputs(ex, name + '.' + k, x)
    elif isinstance(v, VecVal):
        ex.inputs[name + '.len'] = v.len
        ex.input_vecs[name] = v


def verify_function(c, seed=0, timeout_ms=20000, only_labels=None):
    res = Result(c.key)
    t0 = time.time()
    S._qcount[0] = 0
    S.CURRENT_TU[0] = c.tu
    try:
        if c.custom is not None:
            res.func = c.name
            res.file = c.tu
            res.paths = 1
            for label, kind, props, ok, detail, model in c.custom(c):
                res.obligations.append(Obligation('%s/%s:%s' % (c.key, kind, label), kind, label, tuple(props),
                                                  'discharged' if ok else ('unknown' if ok is None else 'failed'), model, 0.0, 0, c.name, detail))
            res.secs = time.time() - t0
            return res
        tu = astdb.load_tu(c.tu)
        cands = find_function(tu, c)
        if not cands:
            res.status = 'unsupported'
            res.message = 'function %s (sig %s) not found in %s' % (c.name, c.sig, c.tu)
            return res
        seen = set()
        uniq = []
        for f in cands:
            k = (f.get('_qual'), f['type']['qualType'], tuple(f.get('_targs') or ()))
            if k not in seen:
                seen.add(k)
                uniq.append(f)
        res.func = ', '.join(sorted({f.get('_qual') for f in uniq}))
        res.file = uniq[0].get('_file')
        res.line = uniq[0].get('_line')
        res.instances = len(uniq)
        for fnode in uniq:
          for si, scen in enumerate(c.scenarios):
            ex = Exec(tu, fnode, c, scen, timeout_ms=timeout_ms, seed=seed, only_labels=only_labels)
            ex.known = KNOWN
            if len(uniq) > 1:
                ex.fname = c.key + '{' + fnode.get('_qual') + ' ' + fnode['type']['qualType'] + '}'
            if len(c.scenarios) > 1:
                ex.fname = ex.fname + '#' + scen.get('name', str(si))
            run_scenario(ex, fnode, c, scen)
            res.obligations.extend(ex.obligations)
            if getattr(ex, 'inconsistent', 0) or (not ex.exits and all(o.status == 'discharged' for o in ex.obligations)):
                # vacuity guard: a path died of inconsistent hypotheses, or no path reached an exit
                res.obligations.append(Obligation('%s/vacuity:paths-reach-an-exit' % ex.fname, 'vacuity', 'paths-reach-an-exit',
                                                  tuple(c.serves), 'unknown', None, 0.0, 0, ex.fname,
                                                  '%d path(s) ended with inconsistent hypotheses, exits %r: a contract or model on the way is '
                                                  'contradictory' % (getattr(ex, 'inconsistent', 0), ex.exits)))
            res.paths += ex.npaths
            for k, v in ex.exits.items():
                res.exits[k] = res.exits.get(k, 0) + v
            res.solver_secs += ex.solver_secs
            res.assumed = sorted(set(res.assumed) | set(ex.assumed))
            res.vacuity.extend(ex.vacuity)
    except Unsupported as e:
        res.status = 'unsupported'
        res.message = str(e)
    except SpecError as e:
        res.status = 'error'
        res.message = 'spec: ' + str(e)
    except NameError as e:
        res.status = 'error'
        res.message = 'spec binding: ' + str(e)
    except Exception as e:
        res.status = 'error'
        res.message = '%s: %s\n%s' % (type(e).__name__, e, traceback.format_exc()[-3500:])
    res.secs = time.time() - t0
    return res


def run_scenario(ex, fnode, c, scen):
    ex.calls = Calls()
    ex.loops = Loops()
    ex.globals_model = {}
    ex.vacuity = []
    ex.work = [[]]
    is_method = fnode.get('kind') in ('CXXMethodDecl', 'CXXConstructorDecl', 'CXXConversionDecl')
    is_ctor = fnode.get('kind') == 'CXXConstructorDecl'
    is_static = fnode.get('storageClass') == 'static'
    first = True
    while ex.work:
        forced = ex.work.pop()
        ex.forced = forced
        ex.decisions = []
        ex.hyps = []
        ex.div_seen = set()
        ex.global_roots = {}
        ex.var_shapes = {}
        S.DIV_INSTANCES[:] = []
        ex.store = {}
        ex.names = {}
        ex.bindings = {}
        ex.guards = []
        ex.version = 0
        ex.dry = False
        ex.cnt = 0
        ex.inputs = {}
        ex.input_vecs = {}
        ex.ret_is_ref = []
        ex.spec_lets = {}
        ex.assumed = set(ex.assumed)
        ex.cur_contract = c
        ex.cur_fnode = fnode
        ex.entry_env = None
        ex.npaths += 1
        if ex.npaths > c.max_paths:
            raise Unsupported('path budget exceeded in %s' % c.key)
        # ---- inputs
        names = {}
        this_path = None
        if is_method and not is_static:
            rec = ex.tu.parent.get(fnode['id'])
            if rec is None and fnode.get('parentDeclContextId'):
                rec = ex.tu.decls.get(fnode['parentDeclContextId'])
            if rec is None:
                raise Unsupported('enclosing record of %s not found' % c.name)
            q = ex.tu.qual.get(rec['id'])
            sh = ex.shapes._record_shape(q, rec)
            sh = shape_override(ex, sh, c)
            if is_ctor:
                obj = ex.calls.raw_object(ex, sh)
            else:
                obj = sym_input(ex, sh, 'this')
                obj = bind_ref_fields(ex, sh, obj, 'this', scen)
                register_inputs(ex, 'this', obj)
            ex.store['this'] = obj
            this_path = Path('this')
        ex.this_path = this_path
        for p in params_of(fnode):
            sh = ex.shapes.of_node(p)
            nm = p.get('name', 'p')
            alias = (scen.get('alias') or {}).get(nm)
            if sh[0] == 'ref':
                if alias:
                    tgt = this_path if alias == 'this' else names[alias]
                    tv = ex.read(tgt)
                    if (isinstance(tv, SVal) and sh[1][0] == 'struct' and tv.cls != sh[1][1]) or \
                            (isinstance(tv, SVal) != (sh[1][0] == 'struct')):
                        ex.npaths -= 1
                        return   # aliasing impossible: different types
                    ex.store[p['id']] = RefVal(tgt)
                else:
                    v = sym_input(ex, sh[1], nm)
                    v = bind_ref_fields(ex, sh[1], v, nm, scen)
                    root = 'in_' + nm
                    ex.store[root] = v
                    ex.store[p['id']] = RefVal(Path(root))
                    register_inputs(ex, nm, v)
            elif sh[0] == 'ptr':
                # pointer parameter: points to the start (offset 0) of a fresh array unless the scenario says otherwise
                root = 'in_' + nm
                tgt = (scen.get('ptr_alias') or {}).get(nm)
                if tgt:
                    ex.store[p['id']] = PtrVal(Path('in_' + tgt), z3.IntVal(0), sh[1])
                else:
                    v = sym_input(ex, ('vec', sh[1]), nm)
                    ex.store[root] = v
                    ex.store[p['id']] = PtrVal(Path(root), z3.IntVal(0), sh[1])
                    register_inputs(ex, nm, v)
            else:
                v = sym_input(ex, sh, nm)
                ex.store[p['id']] = v
                ex.var_shapes[p['id']] = sh
                register_inputs(ex, nm, v)
            names[nm] = Path(p['id'])
            ex.names[nm] = Path(p['id'])
        for g in c.globals:
            names[g] = ex.ensure_global(g)
        # ---- preconditions
        pre_store = dict(ex.store)
        env_pre = S.Env(ex, pre_store, dict(names), this_path if not is_ctor else None, dict(c.extra_env))
        ex.entry_env = env_pre
        extra = dict(c.extra_env)
        ex.ghost_fn_syms = {}
        for g, sorts in c.ghost_fns.items():
            srt = [{'Int': z3.IntSort(), 'Real': z3.RealSort(), 'Bool': z3.BoolSort()}[x] for x in sorts]
            ex.ghost_fn_syms[g] = z3.Function('ghostfn.' + g, *srt)
        extra.update(ex.ghost_fn_syms)
        for k, e in c.lets.items():
            extra[k] = S.spec_eval_term(e, env_pre, extra)
            env_pre.extra[k] = extra[k]
            if z3.is_expr(extra[k]) and z3.is_const(extra[k]) and str(extra[k]).startswith('ghost.'):
                ex.inputs[str(extra[k])] = extra[k]
        ex.spec_lets = extra
        for i, r in enumerate(c.requires):
            lab, e = r if isinstance(r, tuple) else ('req%d' % i, r)
            ex.assume(S.spec_eval(e, env_pre, extra))
        for g, e in c.ghost.items():
            gv = S.spec_eval_term(e, env_pre, extra)
            ex.store['ghost_' + g] = gv.tree if isinstance(gv, S.W) else gv
            ex.names[g] = Path('ghost_' + g)
            names[g] = Path('ghost_' + g)
        for e in c.body_assumes:
            ex.assume(S.spec_eval(e, env_pre, extra))
            ex.assumed.add('definitional axiom: ' + e)
        if first:
            first = False
            # vacuity: the precondition must be satisfiable
            s = ex.mk_solver(1500)
            for h in ex.hyps:
                s.add(h)
            r = s.check()
            ex.vacuity.append(('requires-satisfiable', str(r)))
            if r == z3.unsat:
                raise SpecError('precondition of %s is unsatisfiable (vacuous contract)' % c.key)
        ex.loops.enter_function(ex, fnode)
        rt = ex.shapes.of(ret_type(fnode)) if not is_ctor else ('void',)
        ex.ret_is_ref.append(rt[0] == 'ref')
        kind = None
        rv = None
        try:
            try:
                if is_ctor:
                    ex.calls.run_ctor_inits(ex, fnode)
                ex.ex(body_of(fnode))
                kind = 'return'
            except ReturnSignal as r:
                kind = 'return'
                rv = r.val
            except ThrowSignal:
                kind = 'throw'
            except PathEnd:
                kind = None
            except (BreakSignal, ContinueSignal):
                raise Unsupported('break/continue outside loop')
        finally:
            ex.ret_is_ref.pop()
            ex.loops.leave_function(ex)
        if kind is None:
            continue
        ex.exits[kind] = ex.exits.get(kind, 0) + 1
        # ---- postconditions
        allnames = dict(ex.names)
        allnames.update(names)     # locals are visible to witnesses; parameters keep priority
        # by-value parameters denote their values at entry in postconditions (the callee may have modified its copy)
        for p_ in params_of(fnode):
            psh = ex.shapes.of_node(p_)
            if psh[0] != 'ref' and p_.get('name') in names and p_['id'] in pre_store:
                snap = 'entry_' + p_['id']
                ex.store[snap] = pre_store[p_['id']]
                allnames[p_['name']] = Path(snap)
        env_post = S.Env(ex, ex.store, allnames, this_path, extra)
        ex2 = dict(extra)
        ex2['old'] = OldNS(env_pre)
        ex2['exc'] = z3.BoolVal(kind == 'throw')
        if rv is not None:
            if isinstance(rv, RefVal):
                ex2['result'] = env_post.wrap(ex.read(rv.path))
                ex2['result_path'] = rv.path
            else:
                ex2['result'] = env_post.wrap(rv)
        if c.throws is not None:
            cond = S.spec_eval(c.throws, env_pre, extra)
            if kind == 'throw':
                ex.oblige('throws', 'only_if', cond, None, props=c.props_for('throws'),
                          detail='function threw although the contract says it returns')
            else:
                ex.oblige('throws', 'if', z3.Not(cond), None, props=c.props_for('throws'),
                          detail='function returned although the contract says it throws')
        elif kind == 'throw' and not c.may_throw:
            ex.oblige('throws', 'nothrow', z3.BoolVal(False), None, props=c.props_for('throws'))
        if kind == 'return' and c.post_facts:
            envl = S.Env(ex, ex.store, dict(ex.names), this_path, extra)
            for e in c.post_facts:
                try:
                    ex.assume(S.spec_eval(e, envl, ex2))
                except NameError:
                    continue       # a local the instance mentions does not exist on this path (early return): no help here
                ex.assumed.add('lemma instance: ' + e)
        S.MODE[0] = 'prove'
        if kind == 'return':
            for fld, tgt in c.binds.items():
                cur = ex.store['this'].f.get(fld)
                want = ex.calls.bind_target(ex, tgt, names, this_path)
                ok = isinstance(cur, RefVal) and ex.resolve(cur.path).same(want)
                ex.oblige('ensures', 'binds_' + fld, z3.BoolVal(bool(ok)), None, props=c.props_for('binds'))
            for lab, e in c.ensures:
                try:
                    goal_ = S.spec_eval(e, env_post, ex2)
                except Exception as ne:
                    if lab.startswith('local:') and 'not bound' in str(ne):
                        continue      # a clause about the function's own locals says nothing on a path that does not have them
                    raise
                ex.oblige('ensures', lab, goal_, None, props=c.props_for(lab))
                if lab.startswith('hint:') or getattr(c, 'chain', False):
                    # proof hint: an intermediate assertion over the function's own variables; once it is an obligation
                    # of its own it may be used for the clauses that follow (never exported to callers)
                    S.MODE[0] = 'assume'
                    ex.assume(S.spec_eval(e, env_post, ex2))
                    S.MODE[0] = 'prove'
        else:
            for lab, e in c.ensures_exc:
                ex.oblige('ensures_exc', lab, S.spec_eval(e, env_post, ex2), None, props=c.props_for(lab))
        S.MODE[0] = 'assume'
        # ---- frame: everything reachable by the caller and not in `assigns` is unchanged
        frame_check(ex, c, names, this_path, pre_store, kind, is_ctor)


def shape_override(ex, sh, c):
    return sh


def bind_ref_fields(ex, sh, obj, name, scen):
    """reference members (slice._base) are bound to fresh external roots (or aliased by the scenario)"""
    if sh[0] != 'struct' or not isinstance(obj, SVal):
        return obj
    nf = dict(obj.f)
    changed = False
    for fn_, fs in sh[2]:
        if fs[0] == 'ref':
            alias = (scen.get('ref_alias') or {}).get(name + '.' + fn_)
            if alias:
                nf[fn_] = RefVal(Path(alias))
            else:
                root = 'ext_%s_%s' % (name, fn_)
                if root not in ex.store:
                    v = sym_input(ex, fs[1], name + '.' + fn_)
                    ex.store[root] = v
                    register_inputs(ex, name + '.' + fn_, v)
                nf[fn_] = RefVal(Path(root))
            changed = True
        elif fs[0] == 'ptr' and isinstance(obj.f.get(fn_), Opaque):
            if fs[1][0] == 'struct':
                # owning / shared pointer member of the receiver: assumed non-null, pointing to its own object
                root = 'ext_%s_%s' % (name, fn_)
                if root not in ex.store:
                    v = sym_input(ex, fs[1], name + '.' + fn_)
                    v = bind_ref_fields(ex, fs[1], v, name + '.' + fn_, scen)
                    ex.store[root] = v
                nf[fn_] = PtrVal(Path(root), None)
                ex.assumed.add('pointer members of the receiver are non-null and point to objects of their static type')
            else:
                nf[fn_] = PtrVal(None, z3.IntVal(0))
            changed = True
    return SVal(obj.cls, nf) if changed else obj


def frame_check(ex, c, names, this_path, pre_store, kind, is_ctor):
    assignable = set()
    for a in c.assigns:
        if kind == 'throw' and not a.endswith('!'):
            continue
        assignable.add(a.rstrip('!'))
    roots = [r for r in pre_store if isinstance(r, str) and (r.startswith('in_') or r.startswith('ext_') or r == 'this')]
    # namespace-scope state touched by the function (created lazily at first access)
    for gr, g0 in ex.global_roots.items():
        new = ex.store.get(gr)
        nm = gr[len('glob_'):]
        if new is not g0 and nm not in assignable:
            ex.oblige('frame', 'global.' + nm, tree_eq(g0, new), None, props=c.props_for('frame'),
                      detail='namespace-scope variable modified but not in the assigns clause')
    for r in roots:
        if r == 'this' and is_ctor:
            continue
        old = pre_store[r]
        new = ex.store.get(r)
        if old is new:
            continue
        nm = 'this' if r == 'this' else (r[3:] if r.startswith('in_') else r[4:].replace('_', '.', 1))
        if nm in assignable:
            continue
        if isinstance(old, SVal) and isinstance(new, SVal):
            for k in old.f:
                if ('%s.%s' % (nm, k)) in assignable:
                    continue
                a, b = old.f[k], new.f[k]
                if a is b:
                    continue
                if isinstance(a, (RefVal, PtrVal, Opaque)):
                    continue
                ex.oblige('frame', '%s.%s' % (nm, k), tree_eq(a, b), None, props=c.props_for('frame'),
                          detail='not in assigns clause' + (' (exceptional exit)' if kind == 'throw' else ''))
        elif isinstance(old, (RefVal, PtrVal, Opaque)):
            continue
        else:
            ex.oblige('frame', nm, tree_eq(old, new), None, props=c.props_for('frame'),
                      detail='not in assigns clause' + (' (exceptional exit)' if kind == 'throw' else ''))
