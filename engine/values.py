"""Value model: trees whose leaves are z3 expressions (mathematical Int / Real / Bool, or nested
Array(Int, .) sorts for vector contents, struct-of-arrays layout)."""
import re
import z3

INT_BITS = {'char': 8, 'signed char': 8, 'unsigned char': 8, 'short': 16, 'unsigned short': 16, 'int': 32,
            'unsigned int': 32, 'unsigned': 32, 'long': 64, 'unsigned long': 64, 'long long': 64,
            'unsigned long long': 64, 'size_t': 64, 'std::size_t': 64, 'uint8_t': 8, 'uint16_t': 16,
            'uint32_t': 32, 'uint64_t': 64, 'int8_t': 8, 'int16_t': 16, 'int32_t': 32, 'int64_t': 64,
            'ptrdiff_t': 64, 'std::ptrdiff_t': 64, '__uint8_t': 8, '__uint16_t': 16, '__uint32_t': 32,
            '__int32_t': 32, 'difference_type': 64, 'size_type': 64}
UNSIGNED = {'unsigned char', 'unsigned short', 'unsigned int', 'unsigned', 'unsigned long', 'unsigned long long',
            'size_t', 'std::size_t', 'uint8_t', 'uint16_t', 'uint32_t', 'uint64_t', '__uint8_t', '__uint16_t',
            '__uint32_t', 'size_type'}
REALS = {'double', 'float', 'long double', 'real_t', 'dsplib::real_t'}


class Unsupported(Exception):
    pass


def split_targs(s):
    out, depth, cur = [], 0, ''
    for ch in s:
        if ch in '<(':
            depth += 1
        elif ch in '>)':
            depth -= 1
        if ch == ',' and depth == 0:
            out.append(cur.strip())
            cur = ''
        else:
            cur += ch
    if cur.strip():
        out.append(cur.strip())
    return out


_CV = re.compile(r'\b(const|volatile|struct|class|restrict|__restrict__|__restrict)\b')


def strip_cv_top(s):
    """remove cv-qualifiers / elaborated keywords outside template argument lists"""
    out, depth, cur = [], 0, ''
    for ch in s:
        if ch == '<':
            if depth == 0:
                out.append(_CV.sub(' ', cur))
                cur = ''
            depth += 1
            cur += ch
        elif ch == '>':
            depth -= 1
            cur += ch
            if depth == 0:
                out.append(cur)
                cur = ''
        else:
            cur += ch
    out.append(_CV.sub(' ', cur) if depth == 0 else cur)
    return re.sub(r'\s+', ' ', ''.join(out)).replace(' >', '>').replace('< ', '<').strip()


class Shapes:
    """Maps clang type strings to shapes, using the record definitions of a TU."""

    def __init__(self, tu):
        self.tu = tu
        self.cache = {}

    def of_node(self, n):
        t = n.get('type', {})
        return self.of(t.get('desugaredQualType') or t.get('qualType'))

    def of(self, s):
        if s in self.cache:
            return self.cache[s]
        r = self._of(s)
        self.cache[s] = r
        return r

    def _of(self, s0):
        s = strip_cv_top(s0.strip()).replace('(anonymous namespace)', '(anon)')
        if s.endswith('&&'):
            return ('ref', self.of(s[:-2]))
        if s.endswith('&'):
            return ('ref', self.of(s[:-1]))
        if s.endswith('*'):
            return ('ptr', self.of(s[:-1]))
        ma = re.match(r'^(.*)\[(\d+)\]$', s)
        if ma:
            return ('vec', self.of(ma.group(1)), int(ma.group(2)))
        if s == 'bool':
            return ('bool',)
        if s in INT_BITS:
            return ('int', INT_BITS[s], s not in UNSIGNED)
        if s in REALS:
            return ('real',)
        if s == 'void':
            return ('void',)
        s = re.sub(r'^dsplib::', '', s)
        if s in ('real_t',):
            return ('real',)
        if s in ('cmplx_t',):
            return ('struct', 'dsplib::cmplx_t', (('re', ('real',)), ('im', ('real',))))
        alias = {'arr_real': 'base_array<double>', 'arr_cmplx': 'base_array<dsplib::cmplx_t>',
                 'arr_int': 'base_array<int>'}
        s = alias.get(s, s)
        m = re.match(r'^(?:std::)?(?:__\w+::)?vector<(.*)>$', s)
        if m:
            args = split_targs(m.group(1))
            if args[0].strip() == 'bool':
                return ('vec', ('bool',))
            return ('vec', self.of(args[0]))
        m = re.match(r'^(?:std::)?initializer_list<(.*)>$', s)
        if m:
            return ('vec', self.of(split_targs(m.group(1))[0]))
        m = re.match(r'^(?:std::)?array<(.*)>$', s)
        if m:
            ta = split_targs(m.group(1))
            mn = re.match(r'^(\d+)', ta[1].strip()) if len(ta) > 1 else None
            if mn:
                return ('vec', self.of(ta[0]), int(mn.group(1)))     # fixed extent, like T[N]
            return ('vec', self.of(ta[0]))
        m = re.match(r'^base_array<(.*)>$', s)
        if m:
            el = self.of(m.group(1))
            en = {'real': 'double', 'int': 'int'}.get(el[0], 'dsplib::cmplx_t')
            return ('struct', 'dsplib::base_array<%s>' % en, (('_vec', ('vec', el)),))
        m = re.match(r'^(?:std::)?pair<(.*)>$', s)
        if m:
            a = split_targs(m.group(1))
            return ('struct', 'std::pair', (('first', self.of(a[0])), ('second', self.of(a[1]))))
        m = re.match(r'^(?:std::)?shared_ptr<(.*)>$', s)
        if m:
            return ('ptr', self.of(m.group(1)))
        m = re.match(r'^(?:std::)?(?:__\w+::)?(?:__normal_iterator|_Bit_iterator|_Bit_const_iterator)\b.*$', s)
        if m:
            mm = re.match(r'^.*__normal_iterator<(.*)>$', s)
            if mm:
                a = split_targs(mm.group(1))
                return self.of(a[0])
            return ('ptr', ('bool',))
        m = re.match(r'^(?:std::)?complex<(.*)>$', s)
        if m:
            return ('struct', 'std::complex', (('re', ('real',)), ('im', ('real',))))
        from . import containers
        cs = containers.shape_of(self, s)
        if cs is not None:
            return cs
        # records of the TU (template arguments canonicalised as clang prints specialisations)
        m = re.match(r'^([\w:]+)<(.*)>$', s)
        if m:
            args = []
            for a in split_targs(m.group(2)):
                a = a.strip()
                cst = ''
                if a.startswith('const '):
                    cst, a = 'const ', a[6:].strip()
                a0 = a
                a = re.sub(r'^dsplib::', '', a)
                a = {'real_t': 'double', 'cmplx_t': 'dsplib::cmplx_t'}.get(a, a0)
                args.append(cst + a)
            s = m.group(1) + '<' + ', '.join(args) + '>'
        for q in ('dsplib::' + s, s, 'dsplib::(anon)::' + s):
            rec = self.tu.records.get(q)
            if rec is not None:
                return self._record_shape(q, rec)
        # enum?
        for did, q in self.tu.qual.items():
            if q in ('dsplib::' + s, s) and self.tu.decls[did].get('kind') == 'EnumDecl':
                return ('int', 32, True)
        return ('opaque', s)

    def _record_shape(self, q, rec):
        key = ('rec', q)
        if key in self.cache:
            return self.cache[key]
        self.cache[key] = ('opaque', q)  # recursion guard
        fields = []
        for b in rec.get('bases', ()):
            bs = self.of(b['type'].get('desugaredQualType') or b['type']['qualType'])
            if bs[0] == 'struct':
                fields.extend(bs[2])
        for c in rec.get('inner', ()):
            if c.get('kind') == 'FieldDecl':
                t = c['type']
                fields.append((c['name'], self.of(t.get('desugaredQualType') or t['qualType'])))
        r = ('struct', q, tuple(fields))
        self.cache[key] = r
        return r


# ---------------------------------------------------------------------------------------------
class SVal:
    __slots__ = ('cls', 'f')

    def __init__(self, cls, f):
        self.cls = cls
        self.f = f

    def __repr__(self):
        return 'SVal(%s,%r)' % (self.cls, self.f)


class VecVal:
    """len: Int expr (or Array^d(Int) when lifted); data: element tree lifted one level deeper."""
    __slots__ = ('len', 'data', 'el')

    def __init__(self, ln, data, el):
        self.len = ln
        self.data = data
        self.el = el

    def __repr__(self):
        return 'VecVal(len=%s)' % (self.len,)


class PtrVal:
    """pointer / iterator: path of a vector (or None for null) plus element offset."""
    __slots__ = ('path', 'off', 'el')

    def __init__(self, path, off, el=None):
        self.path = path
        self.off = off
        self.el = el

    def __repr__(self):
        return 'Ptr(%r+%s)' % (self.path, self.off)


class RefVal:
    __slots__ = ('path',)

    def __init__(self, path):
        self.path = path

    def __repr__(self):
        return 'Ref(%r)' % (self.path,)


class TupleVal:
    """fixed-size array of values that cannot live in z3 arrays (pointers): std::array<const T*, N>"""
    __slots__ = ('items', 'el')

    def __init__(self, items, el=None):
        self.items = list(items)
        self.el = el

    def __repr__(self):
        return 'Tuple(%r)' % (self.items,)


class LambdaVal:
    """a lambda expression (its AST node); applied symbolically by prelude models of std:: algorithms"""
    __slots__ = ('node',)

    def __init__(self, node):
        self.node = node

    def __repr__(self):
        return 'Lambda@%s' % self.node.get('_line')


class Opaque:
    __slots__ = ('name',)

    def __init__(self, name):
        self.name = name

    def __repr__(self):
        return 'Opaque(%s)' % self.name


class FuncRef:
    __slots__ = ('decl',)

    def __init__(self, decl):
        self.decl = decl


class Path:
    __slots__ = ('root', 'acc')

    def __init__(self, root, acc=()):
        self.root = root
        self.acc = tuple(acc)

    def field(self, name):
        return Path(self.root, self.acc + (('f', name),))

    def index(self, i):
        return Path(self.root, self.acc + (('i', i),))

    def __repr__(self):
        return 'Path(%s%s)' % (self.root, ''.join('.%s' % a[1] if a[0] == 'f' else '[%s]' % (a[1],) for a in self.acc))

    def same(self, other):
        if self.root != other.root or len(self.acc) != len(other.acc):
            return False
        for a, b in zip(self.acc, other.acc):
            if a[0] != b[0]:
                return False
            if a[0] == 'f':
                if a[1] != b[1]:
                    return False
            else:
                if not z3.eq(z3.simplify(a[1] == b[1]), z3.BoolVal(True)):
                    return False
        return True


_sort_cache = {}


def leaf_sort(shape, depth):
    k = shape[0]
    s = {'int': z3.IntSort(), 'real': z3.RealSort(), 'bool': z3.BoolSort()}[k]
    for _ in range(depth):
        s = z3.ArraySort(z3.IntSort(), s)
    return s


def fresh(shape, name, depth=0):
    k = shape[0]
    if k in ('int', 'real', 'bool'):
        return z3.Const(name, leaf_sort(shape, depth))
    if k == 'struct':
        return SVal(shape[1], {fn: fresh(fs, name + '.' + fn, depth) for fn, fs in shape[2]})
    if k == 'vec':
        return VecVal(z3.Const(name + '.len', leaf_sort(('int',), depth)), fresh(shape[1], name + '[]', depth + 1),
                      shape[1])
    if k == 'ptr':
        if depth:
            raise Unsupported('pointer inside vector: ' + name)
        return Opaque(name)
    if k == 'opaque':
        return Opaque(name + ':' + shape[1])
    if k == 'ref':
        return Opaque('unbound-ref:' + name)
    raise Unsupported('fresh of ' + str(shape))


def default_value(shape):
    k = shape[0]
    if k == 'int':
        return z3.IntVal(0)
    if k == 'real':
        return z3.RealVal(0)
    if k == 'bool':
        return z3.BoolVal(False)
    if k == 'struct':
        if shape[1] == 'std::list':
            from . import containers
            return containers.empty_list(shape)
        if shape[1] == 'std::unordered_map':
            from . import containers
            return containers.empty_map(shape)
        return SVal(shape[1], {fn: default_value(fs) for fn, fs in shape[2]})
    if k == 'vec':
        return VecVal(z3.IntVal(0), const_lifted(shape[1], default_value(shape[1]), 1), shape[1])
    if k == 'ptr':
        return PtrVal(None, z3.IntVal(0))
    if k == 'opaque':
        return Opaque('default:' + shape[1])
    raise Unsupported('default of ' + str(shape))


def const_lifted(shape, val, depth):
    """array^depth whose every entry is val (val is an unlifted tree of `shape`)"""
    if isinstance(val, SVal):
        return SVal(val.cls, {k: const_lifted(None, v, depth) for k, v in val.f.items()})
    if isinstance(val, VecVal):
        return VecVal(const_lifted(None, val.len, depth), const_lifted(None, val.data, depth), val.el)
    if z3.is_expr(val):
        r = val
        for _ in range(depth):
            r = z3.K(z3.IntSort(), r)
        return r
    raise Unsupported('const_lifted of %r' % (val,))


def tmap(f, *trees):
    t = trees[0]
    if isinstance(t, SVal):
        return SVal(t.cls, {k: tmap(f, *[x.f[k] for x in trees]) for k in t.f})
    if isinstance(t, VecVal):
        return VecVal(tmap(f, *[x.len for x in trees]), tmap(f, *[x.data for x in trees]), t.el)
    if z3.is_expr(t):
        return f(*trees)
    if isinstance(t, (PtrVal, RefVal, Opaque)):
        return t
    raise Unsupported('tmap over %r' % (t,))


def leaves(t, out=None):
    if out is None:
        out = []
    if isinstance(t, SVal):
        for k in t.f:
            leaves(t.f[k], out)
    elif isinstance(t, VecVal):
        leaves(t.len, out)
        leaves(t.data, out)
    elif z3.is_expr(t):
        out.append(t)
    return out


def select(tree, idx):
    return tmap(lambda a: z3.Select(a, idx), tree)


def store(tree, idx, val):
    return tmap(lambda a, v: z3.Store(a, idx, v), tree, val)


def ite(c, a, b):
    if a is b:
        return a
    return tmap(lambda x, y: x if x is y or z3.eq(x, y) else z3.If(c, x, y), a, b)


def tree_eq(a, b):
    if a is b:
        return z3.BoolVal(True)
    la, lb = leaves(a), leaves(b)
    if len(la) != len(lb):
        raise Unsupported('tree_eq shape mismatch')
    cs = [x == y for x, y in zip(la, lb) if not (x is y or z3.eq(x, y))]
    return z3.And(*cs) if cs else z3.BoolVal(True)


def vec_eq(a, b, k=None):
    """same length and same elements inside [0,len) (contents beyond len are irrelevant)"""
    if a is b:
        return z3.BoolVal(True)
    kk = z3.Int('k!veq') if k is None else k
    body = tree_eq(select(a.data, kk), select(b.data, kk))
    return z3.And(a.len == b.len, z3.ForAll([kk], z3.Implies(z3.And(0 <= kk, kk < a.len), body)))
