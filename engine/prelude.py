"""Trusted prelude: models (contracts) of the C++ standard library and libm used by dsplib.
Everything here is an ASSUMPTION of the verification (listed in every evidence file):
  * std::vector / std::array as (length, element map); iterators and data() pointers as (vector, offset);
  * memcpy/memmove/std::copy/std::fill as element-wise assignments with bounds (and, for memcpy,
    non-overlap) preconditions;
  * libm functions as uninterpreted functions with the axioms instantiated below (A2);
  * doubles as reals (A1).
"""
import re
import z3

from .values import (SVal, VecVal, PtrVal, RefVal, Opaque, FuncRef, Path, Unsupported, fresh, default_value,
                     const_lifted, select, store, ite, tree_eq, vec_eq, tmap, leaves, split_targs)
from . import spec as S
from .core import ThrowSignal, ReturnSignal, PathEnd, int_range, PI

_LIBM = {}


def uf(name, *sorts):
    if name not in _LIBM:
        _LIBM[name] = z3.Function(name, *sorts)
    return _LIBM[name]


R = z3.RealSort()
I = z3.IntSort()

COS = uf('cos', R, R)
SIN = uf('sin', R, R)
EXP = uf('exp', R, R)
LOG = uf('log', R, R)
LOG10 = uf('log10', R, R)
LOG2 = uf('log2', R, R)
SQRT = uf('sqrt', R, R)
ATAN = uf('atan', R, R)
ATAN2 = uf('atan2', R, R, R)
POW = uf('pow', R, R, R)
TANH = uf('tanh', R, R)
FMOD = uf('fmod', R, R, R)


RNG_NEXT = z3.Function('rng_next', z3.IntSort(), z3.IntSort())
RNG_SEED = z3.Function('rng_seed', z3.IntSort(), z3.IntSort())


def DRAW_ENGINE(kind):
    """engine state after one draw of a distribution of this kind (from distribution state, engine state)"""
    return z3.Function('engine_after_' + kind, z3.IntSort(), z3.IntSort(), z3.IntSort())


def DRAW_DIST(kind):
    """distribution state after one draw"""
    return z3.Function('dist_after_' + kind, z3.IntSort(), z3.IntSort(), z3.IntSort())


def real(v):
    if z3.is_expr(v) and z3.is_int(v):
        return z3.ToReal(v)
    if z3.is_expr(v) and z3.is_bool(v):
        return z3.ToReal(z3.If(v, 1, 0))
    return v


def is_vec_type(t):
    t = re.sub(r'\bconst\b', '', t).strip()
    return bool(re.match(r'^(std::)?(__\w+::)?(vector|array|initializer_list)<', t))


def is_modelled_method(ex, decl, objtype, name):
    return False


def model_for(qual):
    return MODELS.get(qual)


MODELS = {}


# -------------------------------------------------------------------------------------------------
def vec_path_value(ex, objn, arrow=False):
    if arrow:
        pv = ex.ev(objn)
        p = pv.path
    else:
        p = ex.lv(objn)
    v = ex.read(p)
    if isinstance(v, SVal) and set(v.f) == {'_vec'}:
        p = p.field('_vec')
        v = v.f['_vec']
    return p, v


def elval(ex, el, v):
    """coerce an element value to the vector's element shape"""
    if isinstance(v, RefVal):
        v = ex.read(v.path)
    return ex.coerce(v, el)


def lam_copy(dst_data, dst_off, src_data, src_off, cnt, dstep=1, sstep=1):
    """dst' = lambda j. (exists k in [0,cnt): j == dst_off + k*dstep) ? src[src_off + k*sstep] : dst[j]"""
    j = z3.Int('j!cp')

    def mk(d, s):
        if dstep == 1 and sstep == 1:
            body = z3.If(z3.And(j >= dst_off, j < dst_off + cnt), z3.Select(s, j - dst_off + src_off),
                         z3.Select(d, j))
        else:
            raise Unsupported('strided lam_copy')
        return z3.Lambda([j], body)
    return tmap(mk, dst_data, src_data)


def call_method(ex, objtype, name, objn, arrow, args, n, decl):
    t = re.sub(r'\bconst\b', '', objtype).strip()
    t = t.rstrip('&').strip()
    from . import containers
    r = containers.method(ex, t, name, objn, arrow, args, n)
    if r is not NotImplemented:
        return r
    if re.match(r'^(std::)?function<', t) and name == 'operator()':
        fv = ex.calls._val(ex, objn)
        if isinstance(fv, FuncRef):
            decl = ex.tu.decls.get(fv.decl.get('id'))
            if decl is None:
                raise Unsupported('std::function target %s is not in this TU' % fv.decl.get('name'))
            return ex.calls.call_decl(ex, decl, None, args, n)
        from .values import LambdaVal
        if isinstance(fv, LambdaVal):
            return ex.call_lambda(fv, [ex.calls._val(ex, a) for a in args])
        # a function-valued parameter of the function under verification: its contract (fn_params) stands for the call
        from .calls import strip_casts
        on = strip_casts(objn)
        pname = on.get('referencedDecl', {}).get('name') if on.get('kind') == 'DeclRefExpr' else None
        c = ex.cur_contract
        if c is not None and pname in c.fn_params and ex.cur_fnode is ex.fnode:
            spec = c.fn_params[pname]
            avals = [ex.calls._val(ex, a) for a in args]
            env = S.Env(ex, ex.store, {}, None, {})
            ex2 = dict(ex.spec_lets)
            ex2.update(ex.ghost_fn_syms)
            ex2.update(dict(zip(spec['args'], avals)))
            ex.oblige('pre', '%s.requires' % pname, S.spec_eval(spec.get('requires', 'True'), env, ex2), n)
            sh = ex.ctype(n)
            res = fresh(sh, ex.fresh_name('ret_' + pname))
            ex.calls.type_inv(ex, res, sh)
            ex2['result'] = env.wrap(res)
            for lab, e in spec['ensures']:
                ex.assume(S.spec_eval(e, env, ex2))
            return res
        raise Unsupported('call through a std::function whose target is unknown')
    if re.match(r'^(std::)?(__\w+::)?(vector|array|initializer_list)<', t):
        return vector_method(ex, t, name, objn, arrow, args, n)
    if re.match(r'^(std::)?(__)?shared_ptr(_access)?<', t) or re.match(r'^(std::)?unique_ptr<', t):
        if name in ('operator->', 'get'):
            return ex.ev(objn)
        if name == 'operator*':
            pv = ex.ev(objn)
            return RefVal(pv.path)
        if name in ('operator bool',):
            return ex.tobool(ex.ev(objn), None)
        if name == 'operator=':
            pp = ex.lv(objn)
            v = ex.ev(args[0])
            if isinstance(v, RefVal):
                v = ex.read(v.path)
            ex.write(pp, v)
            return RefVal(pp)
    if re.match(r'^(std::)?(__\w+::)?(__normal_iterator<|_Bit_iterator|_Bit_const_iterator)', t) or t.endswith('*'):
        return iterator_method(ex, name, objn, args, n)
    if re.match(r'^(std::)?(__\w+::)?_Bit_reference', t):
        v = ex.ev(objn)
        if name in ('operator bool',):
            return ex.read(v.path) if isinstance(v, RefVal) else v
        if name == 'operator=':
            x = ex.ev(args[0])
            if isinstance(x, RefVal):
                x = ex.read(x.path)
            ex.write(v.path, x)
            return v
        if name == 'flip':
            ex.write(v.path, z3.Not(ex.read(v.path)))
            return None
    if re.search(r'(uniform_int_distribution|uniform_real_distribution|normal_distribution)<', t) and name == 'operator()':
        # one draw: a function of the distribution's own state (libstdc++'s normal_distribution keeps a saved value), the
        # engine state and the parameters; both states move on by (uninterpreted) functions of the pair -- how many engine
        # invocations a draw costs is NOT assumed
        dp = ex.lv(objn)
        dv = ex.read(dp)
        gp = ex.lv(args[0])
        st = ex.read(gp)
        kind = 'int' if 'uniform_int' in t else 'real'
        dk = 'normal' if 'normal' in t else ('uniform_int' if kind == 'int' else 'uniform_real')
        params = [v for k_, v in (dv.f.items() if isinstance(dv, SVal) else []) if k_ != 'st']
        params = [real(p) if kind == 'real' else p for p in params]
        dst = dv.f.get('st', z3.IntVal(0)) if isinstance(dv, SVal) else z3.IntVal(0)
        sorts = [z3.IntSort(), z3.IntSort()] + [p.sort() for p in params]
        F = z3.Function('draw_' + dk, *(sorts + [z3.IntSort() if kind == 'int' else z3.RealSort()]))
        val = F(dst, st, *params)
        if kind == 'int' and len(params) == 2:
            ex.assume(z3.And(val >= params[0], val <= params[1]))   # closed range of uniform_int_distribution (a <= b)
        ex.write(gp, DRAW_ENGINE(dk)(dst, st))
        if isinstance(dv, SVal):
            nf = dict(dv.f)
            nf['st'] = DRAW_DIST(dk)(dst, st)
            ex.write(dp, SVal(dv.cls, nf))
        ex.assumed.add('<random>: a draw is a function of the distribution state, the engine state and the parameters; both '
                       'states advance by functions of that pair; uniform_int_distribution(a,b) returns a value in [a,b]')
        return val
    if re.search(r'(mersenne_twister_engine|mt19937)', t) and name == 'seed':
        gp = ex.lv(objn)
        sd = ex.ev(args[0]) if args else z3.IntVal(5489)
        ex.write(gp, RNG_SEED(sd))
        return None
    if re.match(r'^(std::)?complex<', t):
        v = ex.ev(objn)
        if name == 'real':
            return v.f['re']
        if name == 'imag':
            return v.f['im']
    raise Unsupported('method %s::%s (line %s)' % (t, name, n.get('_line')))


def iterator_method(ex, name, objn, args, n):
    if name in ('operator++', 'operator--', 'operator+=', 'operator-='):
        p = ex.lv(objn)
        it = ex.read(p)
        d = z3.IntVal(1)
        if name in ('operator+=', 'operator-='):
            d = ex.ev(args[0])
        if name in ('operator--', 'operator-='):
            d = -d
        new = PtrVal(it.path, it.off + d, it.el)
        ex.write(p, new)
        if name in ('operator++', 'operator--') and args:
            return it      # postfix
        return RefVal(p)
    it = ex.ev(objn)
    if isinstance(it, RefVal):
        it = ex.read(it.path)
    if not isinstance(it, PtrVal):
        raise Unsupported('iterator method on %r' % (it,))
    if name == 'operator*':
        return RefVal(ex.ptr_elem(it, z3.IntVal(0), n, 'iterator'))
    if name == 'operator->':
        return PtrVal(ex.ptr_elem(it, z3.IntVal(0), n, 'iterator'), None)
    if name == 'operator[]':
        return RefVal(ex.ptr_elem(it, ex.ev(args[0]), n, 'iterator'))
    if name == 'operator+':
        return PtrVal(it.path, it.off + ex.ev(args[0]), it.el)
    if name == 'operator-':
        x = ex.ev(args[0])
        if isinstance(x, PtrVal):
            return ex.ptr_binop('-', it, x, n)
        return PtrVal(it.path, it.off - x, it.el)
    if name == 'base':
        return it
    raise Unsupported('iterator method %s' % name)


def iter_ctor(ex, t, sh, ctype, args, n):
    if not args:
        return PtrVal(None, z3.IntVal(0))
    v = ex.ev(args[0])
    if isinstance(v, RefVal):
        v = ex.read(v.path)
    return v


def vector_method(ex, t, name, objn, arrow, args, n):
    p, v = vec_path_value(ex, objn, arrow)
    if not isinstance(v, VecVal):
        raise Unsupported('vector method on %r' % (v,))
    el = v.el
    if name == 'size':
        return v.len
    if name == 'empty':
        return v.len == 0
    if name in ('data', 'begin', 'cbegin'):
        return PtrVal(p, z3.IntVal(0), el)
    if name in ('end', 'cend'):
        return PtrVal(p, v.len, el)
    if name == 'operator[]':
        i = ex.ev(args[0])
        ex.oblige('bounds', 'vector[]', z3.And(i >= 0, i < v.len), n)
        return RefVal(p.index(i))
    if name == 'at':
        i = ex.ev(args[0])
        if ex.decide(z3.Not(z3.And(i >= 0, i < v.len))):
            raise ThrowSignal()
        return RefVal(p.index(i))
    if name in ('front', 'back'):
        ex.oblige('bounds', 'vector.' + name, v.len > 0, n)
        return RefVal(p.index(z3.IntVal(0) if name == 'front' else v.len - 1))
    if name in ('push_back', 'emplace_back'):
        x = elval(ex, el, ex.ev(args[0]))
        ex.write(p, VecVal(v.len + 1, store(v.data, v.len, x), el))
        ex.assume(v.len + 1 <= S.INT_MAX)   # allocation limits: assumed (trusted base)
        ex.ghost_trigger('push_back', p, [x])
        return None
    if name == 'pop_back':
        ex.oblige('bounds', 'pop_back', v.len > 0, n)
        ex.write(p, VecVal(v.len - 1, v.data, el))
        return None
    if name in ('reserve', 'shrink_to_fit'):
        for a in args:
            ex.ev(a)
        return None
    if name == 'clear':
        ex.write(p, VecVal(z3.IntVal(0), v.data, el))
        return None
    if name == 'resize':
        k = ex.ev(args[0])
        if ex.decide(z3.Or(k < 0, k > S.INT_MAX)):
            raise ThrowSignal()
        j = z3.Int('j!rs')
        fill = default_value(el) if len(args) < 2 else elval(ex, el, ex.ev(args[1]))
        nd = tmap(lambda d, f: z3.Lambda([j], z3.If(j < v.len, z3.Select(d, j), f)), v.data, fill)
        ex.write(p, VecVal(k, nd, el))
        return None
    if name == 'flip':
        ex.write(p, VecVal(v.len, tmap(lambda d: z3.Lambda([z3.Int('j!fl')], z3.Not(z3.Select(d, z3.Int('j!fl')))), v.data), el))
        return None
    if name == 'swap':
        q, w = vec_path_value(ex, args[0])
        ex.write(p, w)
        ex.write(q, v)
        return None
    if name == 'assign':
        if len(args) == 2:
            a, b = ex.ev(args[0]), ex.ev(args[1])
            if isinstance(a, PtrVal) and isinstance(b, PtrVal):
                nv = range_to_vec(ex, a, b, el, n)
                ex.write(p, nv)
                return None
        raise Unsupported('vector::assign form')
    if name == 'insert':
        if len(args) == 3:
            pos, a, b = ex.ev(args[0]), ex.ev(args[1]), ex.ev(args[2])
            if isinstance(pos, PtrVal) and pos.path.same(p) and z3.is_true(z3.simplify(pos.off == v.len)):
                src = range_to_vec(ex, a, b, el, n)
                j = z3.Int('j!ins')
                nd = tmap(lambda d, s: z3.Lambda([j], z3.If(j < v.len, z3.Select(d, j), z3.Select(s, j - v.len))),
                          v.data, src.data)
                if ex.decide(v.len + src.len > S.INT_MAX):
                    raise ThrowSignal()
                ex.write(p, VecVal(v.len + src.len, nd, el))
                return None
        raise Unsupported('vector::insert form')
    if name == 'operator=':
        w = ex.ev(args[0])
        if isinstance(w, RefVal):
            w = ex.read(w.path)
        if isinstance(w, SVal) and set(w.f) == {'_vec'}:
            w = w.f['_vec']
        ex.write(p, w)
        return RefVal(p)
    raise Unsupported('vector method %s (line %s)' % (name, n.get('_line')))


def range_to_vec(ex, a, b, el, n):
    """[a,b) iterator range over one vector -> new vector value (with element conversion)"""
    if a.path is None or b.path is None or not a.path.same(b.path):
        raise Unsupported('iterator range over different containers')
    src = ex.read(a.path)
    if isinstance(src, SVal) and set(src.f) == {'_vec'}:
        src = src.f['_vec']
    cnt = b.off - a.off
    ex.oblige('bounds', 'range', z3.And(a.off >= 0, cnt >= 0, b.off <= src.len), n)
    j = z3.Int('j!rg')
    sel = src.el
    if sel == el:
        nd = tmap(lambda d: z3.Lambda([j], z3.Select(d, j + a.off)), src.data)
    elif sel[0] == 'int' and el[0] == 'int':
        sl, sh_ = int_range(sel[1], sel[2])
        dl, dh = int_range(el[1], el[2])
        if sl >= dl and sh_ <= dh:
            nd = tmap(lambda d: z3.Lambda([j], z3.Select(d, j + a.off)), src.data)
        else:
            nd = tmap(lambda d: z3.Lambda([j], ex.wrap_to(z3.Select(d, j + a.off), el)), src.data)
    elif sel[0] == 'int' and el[0] == 'real':
        nd = tmap(lambda d: z3.Lambda([j], z3.ToReal(z3.Select(d, j + a.off))), src.data)
    elif sel[0] == 'real' and el[0] == 'struct' and el[1] == 'dsplib::cmplx_t':
        # cmplx_t(const T& v): re = v, im = 0 (modelled conversion constructor, verified as cmplx_t::cmplx_t<T>)
        nd = SVal('dsplib::cmplx_t', {'re': z3.Lambda([j], z3.Select(src.data, j + a.off)),
                                     'im': z3.K(z3.IntSort(), z3.RealVal(0))})
    else:
        raise Unsupported('range conversion %s -> %s' % (sel, el))
    return VecVal(cnt, nd, el)


# -------------------------------------------------------------------------------------------------
def ctor_model(ex, t, sh, ctype):
    tt = re.sub(r'\bconst\b', '', t).strip()
    from . import containers
    cm = containers.ctor_model(ex, tt, sh, ctype)
    if cm is not None:
        return cm
    if sh[0] == 'vec':
        return vec_ctor
    if sh[0] == 'struct' and sh[1] == 'std::pair':
        return pair_ctor
    if sh[0] == 'struct' and sh[1] == 'std::complex':
        return complex_ctor
    if sh[0] == 'ptr' and 'shared_ptr' in tt:
        return sptr_ctor
    if sh[0] == 'ptr' and ('iterator' in tt):
        return iter_ctor
    if re.match(r'^(std::)?function<', tt):
        return lambda ex, t, sh, ctype, args, n: ex.calls._val(ex, args[0])
    if re.search(r'(uniform_int_distribution|uniform_real_distribution|normal_distribution)<', tt):
        return dist_ctor
    return None


def dist_ctor(ex, t, sh, ctype, args, n):
    vals = [ex.calls._val(ex, a) for a in args if a.get('kind') != 'CXXDefaultArgExpr']
    f = {'p%d' % i: v for i, v in enumerate(vals)}
    f['st'] = z3.IntVal(0)          # a freshly constructed distribution has no saved value
    return SVal('std::distribution', f)


def sptr_ctor(ex, t, sh, ctype, args, n):
    if not args:
        return PtrVal(None, z3.IntVal(0))
    v = ex.ev(args[0])
    return v


def pair_ctor(ex, t, sh, ctype, args, n):
    if len(args) == 2:
        a, b = [ex.calls._val(ex, x) for x in args]
        return SVal('std::pair', {'first': ex.coerce(a, sh[2][0][1]), 'second': ex.coerce(b, sh[2][1][1])})
    if len(args) == 1:
        return ex.calls._val(ex, args[0])
    return default_value(sh)


def complex_ctor(ex, t, sh, ctype, args, n):
    vals = [real(ex.calls._val(ex, x)) for x in args]
    if len(vals) == 1 and isinstance(vals[0], SVal):
        return vals[0]
    while len(vals) < 2:
        vals.append(z3.RealVal(0))
    return SVal('std::complex', {'re': vals[0], 'im': vals[1]})


def vec_ctor(ex, t, sh, ctype, args, n):
    el = sh[1]
    args = [a for a in args if a.get('kind') != 'CXXDefaultArgExpr']
    if not args:
        if len(sh) == 3:
            # std::array<T, N> / T[N] default-initialised: N elements of indeterminate value
            return VecVal(z3.IntVal(sh[2]), fresh(el, ex.fresh_name('uninit_array'), 1), el)
        return default_value(sh)
    a0 = ex.ev(args[0])
    if isinstance(a0, RefVal):
        a0 = ex.read(a0.path)
    if isinstance(a0, VecVal) and len(args) == 1:
        if a0.el == el:
            return a0
        raise Unsupported('vector conversion ctor')
    if isinstance(a0, PtrVal) and len(args) == 2:
        b = ex.ev(args[1])
        return range_to_vec(ex, a0, b, el, n)
    if z3.is_expr(a0) and z3.is_int(a0):
        # vector(n) / vector(n, value): n is converted to size_t; out-of-range -> length_error/bad_alloc (exception)
        cnt = a0
        if ex.decide(z3.Or(cnt < 0, cnt > S.INT_MAX)):
            raise ThrowSignal()
        if len(args) >= 2:
            fill = elval(ex, el, ex.ev(args[1]))
        else:
            fill = default_value(el)
        return VecVal(cnt, const_lifted(el, fill, 1), el)
    raise Unsupported('vector ctor form %s (line %s)' % (ctype, n.get('_line')))


# -------------------------------------------------------------------------------------------------
def call_free(ex, name, args, n):
    f = FREE.get(name)
    if f is None:
        raise Unsupported('external function %s (line %s)' % (name, n.get('_line')))
    return f(ex, args, n)


FREE = {}


def free(*names):
    def deco(f):
        for nm in names:
            FREE[nm] = f
        return f
    return deco


@free('abs', 'fabs')
def _abs(ex, args, n):
    x = ex.ev(args[0])
    sh = ex.ctype(n)
    if sh[0] == 'int':
        lo, hi = int_range(sh[1], sh[2])
        ex.oblige('overflow', 'abs', x > lo, n)
    return z3.If(x >= 0, x, -x)


@free('max', 'min', 'fmax', 'fmin')
def _maxmin(ex, args, n):
    a, b = ex.calls._val(ex, args[0]), ex.calls._val(ex, args[1])
    nm = callee_name(n)
    if z3.is_int(a) != z3.is_int(b):
        a, b = real(a), real(b)
    if nm in ('max', 'fmax'):
        return z3.If(a < b, b, a)
    return z3.If(b < a, b, a)


def callee_name(n):
    from .calls import callee_ref
    return callee_ref(n).get('name')


@free('move', 'forward', 'addressof')
def _move(ex, args, n):
    return RefVal(ex.lv(args[0]))


@free('memcpy', 'memmove')
def _memcpy(ex, args, n):
    d, s, nb = ex.ev(args[0]), ex.ev(args[1]), ex.ev(args[2])
    nm = callee_name(n)
    if not (isinstance(d, PtrVal) and isinstance(s, PtrVal)):
        raise Unsupported('memcpy of non-vector pointers')
    if d.path is None or s.path is None:
        # zero-length copies from null data() are tolerated by the implementations only; require cnt == 0
        raise Unsupported('memcpy with null pointer')
    dv, sv = ex.read(d.path), ex.read(s.path)
    el = dv.el
    size = {('real',): 8, ('int', 32, True): 4}.get(el)
    if size is None and el[0] == 'struct' and el[1] == 'dsplib::cmplx_t':
        size = 16
    if size is None or sv.el != el:
        raise Unsupported('memcpy element type')
    cnt = z3.Int(ex.fresh_name('cnt'))
    ex.assume(z3.And(cnt * size <= nb, nb < (cnt + 1) * size))
    ex.oblige('bounds', nm + '.size', z3.And(nb == cnt * size, cnt >= 0), n)
    ex.oblige('bounds', nm + '.dst', z3.Or(cnt == 0, z3.And(d.off >= 0, d.off + cnt <= dv.len)), n)
    ex.oblige('bounds', nm + '.src', z3.Or(cnt == 0, z3.And(s.off >= 0, s.off + cnt <= sv.len)), n)
    # both arguments must be valid pointers even when nothing is copied: data() of an empty vector may be null, and a null
    # argument to memcpy / memmove is undefined behaviour whatever the size (the sanitizers report it)
    ex.oblige('bounds', nm + '.nonnull', z3.And(dv.len > 0, sv.len > 0), n)
    if nm == 'memcpy' and d.path.same(s.path):
        ex.oblige('overlap', 'memcpy', z3.Or(cnt == 0, d.off + cnt <= s.off, s.off + cnt <= d.off), n)
    nd = lam_copy(dv.data, d.off, sv.data, s.off, cnt)
    ex.write(d.path, VecVal(dv.len, nd, el))
    return d


@free('memset')
def _memset(ex, args, n):
    """memset(p, 0, nbytes) over real_t / cmplx_t / int32 storage: zero fill of whole elements (all-zero bytes are +0.0 / 0)"""
    d, v, nb = ex.ev(args[0]), ex.ev(args[1]), ex.ev(args[2])
    if not isinstance(d, PtrVal) or d.path is None:
        raise Unsupported('memset of non-vector pointer')
    if not (z3.is_int_value(z3.simplify(v)) and z3.simplify(v).as_long() == 0):
        raise Unsupported('memset with a non-zero byte')
    dv = ex.read(d.path)
    el = dv.el
    size = {('real',): 8, ('int', 32, True): 4}.get(el)
    if size is None and el[0] == 'struct' and el[1] == 'dsplib::cmplx_t':
        size = 16
    if size is None:
        raise Unsupported('memset element type')
    cnt = z3.Int(ex.fresh_name('cnt'))
    ex.assume(z3.And(cnt * size <= nb, nb < (cnt + 1) * size))
    ex.oblige('bounds', 'memset.size', z3.And(nb == cnt * size, cnt >= 0), n)
    ex.oblige('bounds', 'memset.dst', z3.Or(cnt == 0, z3.And(d.off >= 0, d.off + cnt <= dv.len)), n)
    j = z3.Int('j!ms')
    def mk(a):
        zr = z3.RealVal(0) if a.range() == z3.RealSort() else z3.IntVal(0)
        return z3.Lambda([j], z3.If(z3.And(j >= d.off, j < d.off + cnt), zr, z3.Select(a, j)))
    ex.write(d.path, VecVal(dv.len, tmap(mk, dv.data), el))
    return d


@free('epsilon')
def _epsilon(ex, args, n):
    """std::numeric_limits<double>::epsilon(): 2^-52"""
    return z3.RealVal(1) / z3.RealVal(2 ** 52)


INFTY = z3.Real('+inf')          # stands for +infinity where only the direction matters (nextafter)
NEXTUP = uf('nextup', R, R)      # the next representable double above x


@free('infinity')
def _infinity(ex, args, n):
    """std::numeric_limits<T>::infinity(): a symbol above every value the model talks about (only used as a direction)"""
    return INFTY


@free('nextafter')
def _nextafter(ex, args, n):
    """std::nextafter(x, +infinity): the next representable value above x -- strictly greater (A2: floating-point spacing is
    positive; nothing else is assumed about it)"""
    x, to = real(ex.ev(args[0])), ex.ev(args[1])
    if to is not INFTY:
        raise Unsupported('nextafter towards something other than +infinity')
    r = NEXTUP(x)
    ex.assume(r > x)
    ex.assumed.add('libm: nextafter(x, +inf) > x')
    return r


@free('gcd')
def _gcd(ex, args, n):
    a, b = ex.ev(args[0]), ex.ev(args[1])
    g = z3.Int(ex.fresh_name('gcd'))
    # trusted characterisation of std::gcd over non-zero operands: g | a, g | b, g > 0, maximal
    ka, kb = z3.Int(ex.fresh_name('ga')), z3.Int(ex.fresh_name('gb'))
    ex.assume(z3.Implies(z3.Or(a != 0, b != 0), z3.And(g >= 1, a == g * ka, b == g * kb)))
    ex.assume(z3.Implies(z3.And(a == 0, b == 0), g == 0))
    ex.assume(z3.Implies(a == b, g == z3.If(a >= 0, a, -a)))
    ex.assume(z3.Implies(a != 0, g <= z3.If(a >= 0, a, -a)))
    ex.assume(z3.Implies(b != 0, g <= z3.If(b >= 0, b, -b)))
    ex.assume(z3.Implies(z3.Or(a != 0, b != 0), COPRIME(ka, kb)))
    ex.assume(z3.Implies(COPRIME(a, b), g == 1))
    ex.assumed.add('std::gcd characterised by divisibility, bounds, gcd(a,a)=|a| and the uninterpreted predicate coprime '
                   '(coprime(a/g, b/g); coprime(a,b) => gcd(a,b) = 1)')
    ex.gcd_terms = getattr(ex, 'gcd_terms', []) + [(a, b, g, ka, kb)]
    return g


COPRIME = z3.Function('coprime', z3.IntSort(), z3.IntSort(), z3.BoolSort())


@free('make_pair')
def _make_pair(ex, args, n):
    a, b = [ex.calls._val(ex, x) for x in args]
    return SVal('std::pair', {'first': a, 'second': b})


@free('get')
def _get(ex, args, n):
    p = ex.lv(args[0])
    v = ex.read(p)
    # index from the callee's template argument is not in the JSON; use the result type position
    raise Unsupported('std::get')


@free('advance')
def _advance(ex, args, n):
    p = ex.lv(args[0])
    k = ex.ev(args[1])
    it = ex.read(p)
    if isinstance(it, PtrVal):
        ex.write(p, PtrVal(it.path, it.off + k, it.el))
        return None
    if isinstance(it, SVal) and 'ptr_' in it.f:
        # SliceIterator: forward iterator, advance = k increments (k >= 0)
        ex.oblige('pre', 'advance.nonneg', k >= 0, n)
        pt = it.f['ptr_']
        nf = dict(it.f)
        nf['ptr_'] = PtrVal(pt.path, pt.off + k * it.f['step_'], pt.el)
        ex.write(p, SVal(it.cls, nf))
        return None
    raise Unsupported('advance of %r' % (it,))


def _libm1(fn, axioms=None):
    def f(ex, args, n):
        x = real(ex.ev(args[0]))
        r = fn(x)
        ex.assumed.add('libm: %s as uninterpreted function with axioms' % fn.name())
        if axioms:
            for a in axioms(x, r):
                ex.assume(a)
        return r
    return f


FREE['cos'] = _libm1(COS, lambda x, r: [r >= -1, r <= 1])
FREE['sin'] = _libm1(SIN, lambda x, r: [r >= -1, r <= 1])
FREE['exp'] = _libm1(EXP, lambda x, r: [r > 0])
FREE['log'] = _libm1(LOG)
FREE['log10'] = _libm1(LOG10)
FREE['log2'] = _libm1(LOG2)
FREE['tanh'] = _libm1(TANH, lambda x, r: [r > -1, r < 1])
FREE['atan'] = _libm1(ATAN, lambda x, r: [r > -PI / 2, r < PI / 2, z3.Implies(x > 0, r > 0), z3.Implies(x < 0, r < 0),
                                           z3.Implies(x == 0, r == 0)])


@free('sqrt')
def _sqrt(ex, args, n):
    x = real(ex.ev(args[0]))
    r = SQRT(x)
    ex.assume(z3.Implies(x >= 0, z3.And(r >= 0, r * r == x)))
    return r


@free('pow')
def _pow(ex, args, n):
    x, y = real(ex.ev(args[0])), real(ex.ev(args[1]))
    r = POW(x, y)
    ex.assume(z3.Implies(x > 0, r > 0))
    # monotonicity facts of the real power function for bases above 1 (A2)
    ex.assume(z3.Implies(z3.And(x > 1, y <= 0), r <= 1))
    ex.assume(z3.Implies(z3.And(x > 1, y >= 0), r >= 1))
    ex.assume(z3.Implies(y == 0, r == 1))
    ex.assumed.add('libm: pow as uninterpreted function: positive for positive base, <= 1 / >= 1 by the sign of the '
                   'exponent for bases above 1, pow(x, 0) = 1')
    xs = z3.simplify(x)
    if z3.is_rational_value(xs) and xs.as_fraction() == 2:
        # exact powers of two: pow(2, k) = 2^k for integral 0 <= k <= 62 (the result is representable; glibc returns it exactly)
        ex.assume(z3.And([z3.Implies(y == k, r == 2 ** k) for k in range(63)]))
        ex.assumed.add('libm: pow(2, k) = 2^k exactly for integral 0 <= k <= 62')
    return r


@free('fmod')
def _fmod(ex, args, n):
    """std::fmod(x, y) = x - q*y for the integer q = trunc(x / y): same sign as x, smaller in magnitude than y"""
    x, y = real(ex.ev(args[0])), real(ex.ev(args[1]))
    r = FMOD(x, y)
    q = z3.Int(ex.fresh_name('fmod_q'))
    ex.assume(z3.Implies(y != 0, z3.And(x == z3.ToReal(q) * y + r, z3.If(y > 0, z3.And(r < y, r > -y), z3.And(r < -y, r > y)),
                                        z3.Implies(x >= 0, r >= 0), z3.Implies(x <= 0, r <= 0))))
    ex.assumed.add('libm: fmod(x, y) = x - trunc(x / y) * y')
    return r


@free('atan2')
def _atan2(ex, args, n):
    y, x = real(ex.ev(args[0])), real(ex.ev(args[1]))
    return ATAN2(y, x)


@free('floor')
def _floor(ex, args, n):
    return z3.ToReal(z3.ToInt(real(ex.ev(args[0]))))


@free('ceil')
def _ceil(ex, args, n):
    x = real(ex.ev(args[0]))
    return z3.ToReal(-z3.ToInt(-x))


@free('round', 'lround')
def _round(ex, args, n):
    x = real(ex.ev(args[0]))
    # round half away from zero
    r = z3.If(x >= 0, z3.ToInt(x + z3.RealVal('1/2')), -z3.ToInt(-x + z3.RealVal('1/2')))
    return z3.ToReal(r) if callee_name(n) == 'round' else r


@free('isnan', 'isinf')
def _isnan(ex, args, n):
    ex.ev(args[0])
    return z3.BoolVal(False)   # A1: reals have no NaN/inf


@free('assert', '__assert_fail')
def _assert(ex, args, n):
    raise Unsupported('assert call')


@free('__builtin_unreachable')
def _unreachable(ex, args, n):
    ex.oblige('assume', 'unreachable', z3.BoolVal(False), n)
    raise PathEnd()


@free('__builtin_assume')
def _bassume(ex, args, n):
    c = ex.tobool(ex.ev(args[0]), None)
    ex.oblige('assume', 'DSPLIB_ASSUME', c, n)
    return None


@free('__builtin_expect')
def _bexpect(ex, args, n):
    return ex.ev(args[0])


@free('max_element', 'min_element')
def _maxel(ex, args, n):
    a, b = ex.ev(args[0]), ex.ev(args[1])
    if not (isinstance(a, PtrVal) and isinstance(b, PtrVal) and a.path is not None and a.path.same(b.path)):
        raise Unsupported('max_element over non-contiguous range')
    v = ex.read(a.path)
    if isinstance(v, SVal) and set(v.f) == {'_vec'}:
        v = v.f['_vec']
    if len(args) > 2:
        raise Unsupported('max_element with comparator')
    if v.el[0] in ('int', 'real'):
        key = lambda i: z3.Select(v.data, i)
    elif v.el[0] == 'struct' and v.el[1] == 'dsplib::cmplx_t':
        # the algorithm compares with the element type's operator<, which for cmplx_t orders by |z|^2
        # (contracts/types.py proves exactly that about cmplx_t::operator<)
        key = lambda i: z3.Select(v.data.f['re'], i) * z3.Select(v.data.f['re'], i) + z3.Select(v.data.f['im'], i) * z3.Select(v.data.f['im'], i)
        ex.assumed.add('std::max_element / min_element over cmplx_t: ordered by cmplx_t::operator< = comparison of |z|^2 (that operator is under contract)')
    else:
        raise Unsupported('max_element over structs')
    ex.oblige('bounds', 'range', z3.And(a.off >= 0, a.off <= b.off, b.off <= v.len), n)
    j = z3.Int(ex.fresh_name('argext'))
    k = z3.Int(ex.fresh_name('k!me'))
    mx = callee_name(n) == 'max_element'
    ex.assume(z3.If(a.off == b.off, j == b.off, z3.And(
        j >= a.off, j < b.off,
        z3.ForAll([k], z3.Implies(z3.And(k >= a.off, k < b.off), (key(k) <= key(j)) if mx else (key(k) >= key(j)))),
        z3.ForAll([k], z3.Implies(z3.And(k >= a.off, k < j), (key(k) < key(j)) if mx else (key(k) > key(j)))))))
    return PtrVal(a.path, j, a.el)


@free('minmax_element')
def _minmaxel(ex, args, n):
    """std::minmax_element(first, last) over reals / ints: (first smallest, last largest); (first, first) for an empty range"""
    a, b = ex.ev(args[0]), ex.ev(args[1])
    if not (isinstance(a, PtrVal) and isinstance(b, PtrVal) and a.path is not None and a.path.same(b.path)):
        raise Unsupported('minmax_element over non-contiguous range')
    v = ex.read(a.path)
    if isinstance(v, SVal) and set(v.f) == {'_vec'}:
        v = v.f['_vec']
    if len(args) > 2:
        raise Unsupported('minmax_element with comparator')
    if v.el[0] not in ('int', 'real'):
        raise Unsupported('minmax_element over structs')
    ex.oblige('bounds', 'range', z3.And(a.off >= 0, a.off <= b.off, b.off <= v.len), n)
    lo, hi = z3.Int(ex.fresh_name('argmin')), z3.Int(ex.fresh_name('argmax'))
    k = z3.Int(ex.fresh_name('k!mm'))
    at = lambda i: z3.Select(v.data, i)
    rng = lambda i: z3.And(i >= a.off, i < b.off)
    ex.assume(z3.If(a.off == b.off, z3.And(lo == a.off, hi == a.off), z3.And(
        rng(lo), rng(hi),
        z3.ForAll([k], z3.Implies(rng(k), z3.And(at(k) >= at(lo), at(k) <= at(hi)))),
        z3.ForAll([k], z3.Implies(z3.And(k >= a.off, k < lo), at(k) > at(lo))),
        z3.ForAll([k], z3.Implies(z3.And(k > hi, k < b.off), at(k) < at(hi))))))
    return SVal('std::pair', {'first': PtrVal(a.path, lo, a.el), 'second': PtrVal(a.path, hi, a.el)})


def _iter_cmp(op):
    def f(ex, args, n):
        a, b = ex.ev(args[0]), ex.ev(args[1])
        if isinstance(a, RefVal):
            a = ex.read(a.path)
        if isinstance(b, RefVal):
            b = ex.read(b.path)
        if isinstance(a, SVal) and a.cls == 'std::map_iter' and op in ('==', '!='):
            from . import containers
            return containers.map_iter_compare(ex, 'operator' + op, args, n)
        if isinstance(a, PtrVal) and isinstance(b, PtrVal):
            return ex.ptr_binop(op, a, b, n)
        if isinstance(a, PtrVal) or isinstance(b, PtrVal):
            return ex.ptr_binop(op, a, b, n)
        raise Unsupported('external operator%s on %r' % (op, a))
    return f


for _op in ('==', '!=', '<', '<=', '>', '>=', '-', '+'):
    FREE['operator' + _op] = _iter_cmp(_op)


# -------------------------------------------------------------------------------------------------
# iterator algorithms: std::copy, std::fill, std::reverse over contiguous iterators (PtrVal, step 1) and
# dsplib::SliceIterator (pointer + step; the iterator class itself is verified code, its operator++ /
# operator* / operator!= are what the algorithm's loop executes: "while (first != last) { *out++ = *first++; }")
def _as_strided(ex, it):
    if isinstance(it, RefVal):
        it = ex.read(it.path)
    if isinstance(it, PtrVal):
        return it.path, it.off, z3.IntVal(1)
    if isinstance(it, SVal) and 'ptr_' in it.f:
        p = it.f['ptr_']
        return p.path, p.off, it.f['step_']
    raise Unsupported('iterator value %r' % (it,))


def _vec_at(ex, path):
    v = ex.read(path)
    if isinstance(v, SVal) and set(v.f) == {'_vec'}:
        return path.field('_vec'), v.f['_vec']
    return path, v


def _range_count(ex, foff, loff, step, n, what):
    """number of increments after which first == last; the != driven loop terminates iff it exists"""
    st = z3.simplify(step)
    if z3.is_int_value(st) and st.as_long() == 1:
        cnt = loff - foff
        ex.oblige('termination', what + '.range', cnt >= 0, n)
        return cnt
    c = z3.Int(ex.fresh_name('cnt'))
    cq = z3.Int('c!rc')
    ex.oblige('termination', what + '.range', z3.Exists([cq], z3.And(cq >= 0, foff + cq * step == loff)), n)
    ex.assume(z3.And(c >= 0, foff + c * step == loff))
    return c


def _strided_bounds(ex, off, step, cnt, ln, n, what):
    st = z3.simplify(step)
    if z3.is_int_value(st) and st.as_long() == 1:
        ex.oblige('bounds', what, z3.Or(cnt == 0, z3.And(off >= 0, off + cnt <= ln)), n)
        return
    k = z3.Int('k!sb')
    ex.oblige('bounds', what, z3.ForAll([k], z3.Implies(z3.And(0 <= k, k < cnt),
                                                         z3.And(0 <= off + k * step, off + k * step < ln))), n)


@free('copy')
def _copy(ex, args, n):
    fp, foff, fstep = _as_strided(ex, ex.ev(args[0]))
    lp, loff, lstep = _as_strided(ex, ex.ev(args[1]))
    outv = ex.ev(args[2])
    op, ooff, ostep = _as_strided(ex, outv)
    if fp is None or lp is None or op is None or not fp.same(lp):
        raise Unsupported('std::copy over unrelated iterators')
    cnt = _range_count(ex, foff, loff, fstep, n, 'copy')
    sp, sv = _vec_at(ex, fp)
    dp, dv = _vec_at(ex, op)
    _strided_bounds(ex, foff, fstep, cnt, sv.len, n, 'copy.src')
    _strided_bounds(ex, ooff, ostep, cnt, dv.len, n, 'copy.dst')
    unit = all(z3.is_int_value(z3.simplify(s)) and z3.simplify(s).as_long() == 1 for s in (fstep, ostep))
    if sv.el != dv.el:
        raise Unsupported('std::copy with element conversion')
    if unit:
        if sp.same(dp):
            # overlapping forward copy is only defined when the output does not start inside the source
            ex.oblige('overlap', 'copy', z3.Or(cnt == 0, ooff <= foff, ooff >= foff + cnt), n)
        nd = lam_copy(dv.data, ooff, sv.data, foff, cnt)
    else:
        if sp.same(dp):
            # element-by-element forward copy inside one array: equals the 'source copied first' result only if no
            # position written at step k1 is read at a later step k2
            k1, k2 = z3.Int('k1!ov'), z3.Int('k2!ov')
            ex.oblige('overlap', 'copy.forward-aliasing',
                      z3.ForAll([k1, k2], z3.Implies(z3.And(0 <= k1, k1 < k2, k2 < cnt),
                                                     ooff + k1 * ostep != foff + k2 * fstep)), n)
        nd = tmap(lambda d: z3.Const(ex.fresh_name('cp'), d.sort()), dv.data)
        k = z3.Int(ex.fresh_name('k!cp'))
        j = z3.Int(ex.fresh_name('j!cp'))
        from .values import tree_eq
        ex.assume(z3.ForAll([k], z3.Implies(z3.And(0 <= k, k < cnt),
                                            tree_eq(select(nd, ooff + k * ostep), select(sv.data, foff + k * fstep)))))
        ex.assume(z3.ForAll([j], z3.Implies(z3.Not(S.INSLICE(ooff, ostep, cnt, j)),
                                            tree_eq(select(nd, j), select(dv.data, j)))))
    ex.write(dp, VecVal(dv.len, nd, dv.el))
    if isinstance(outv, PtrVal):
        return PtrVal(outv.path, outv.off + cnt, outv.el)
    return outv


@free('fill')
def _fill(ex, args, n):
    fp, foff, fstep = _as_strided(ex, ex.ev(args[0]))
    lp, loff, lstep = _as_strided(ex, ex.ev(args[1]))
    if fp is None or lp is None or not fp.same(lp):
        raise Unsupported('std::fill over unrelated iterators')
    val = ex.calls._val(ex, args[2])
    cnt = _range_count(ex, foff, loff, fstep, n, 'fill')
    dp, dv = _vec_at(ex, fp)
    val = ex.coerce(val, dv.el)
    _strided_bounds(ex, foff, fstep, cnt, dv.len, n, 'fill.dst')
    st = z3.simplify(fstep)
    j = z3.Int('j!fill')
    if z3.is_int_value(st) and st.as_long() == 1:
        nd = tmap(lambda d, x: z3.Lambda([j], z3.If(z3.And(j >= foff, j < foff + cnt), x, z3.Select(d, j))),
                  dv.data, val)
    else:
        nd = tmap(lambda d: z3.Const(ex.fresh_name('fl'), d.sort()), dv.data)
        k = z3.Int(ex.fresh_name('k!fl'))
        jj = z3.Int(ex.fresh_name('j!fl'))
        from .values import tree_eq
        ex.assume(z3.ForAll([k], z3.Implies(z3.And(0 <= k, k < cnt), tree_eq(select(nd, foff + k * fstep), val))))
        ex.assume(z3.ForAll([jj], z3.Implies(z3.Not(S.INSLICE(foff, fstep, cnt, jj)),
                                             tree_eq(select(nd, jj), select(dv.data, jj)))))
    ex.write(dp, VecVal(dv.len, nd, dv.el))
    return None


@free('reverse')
def _reverse(ex, args, n):
    a, b = ex.ev(args[0]), ex.ev(args[1])
    if not (isinstance(a, PtrVal) and isinstance(b, PtrVal) and a.path.same(b.path)):
        raise Unsupported('std::reverse over non-contiguous iterators')
    dp, dv = _vec_at(ex, a.path)
    ex.oblige('bounds', 'reverse', z3.And(a.off >= 0, a.off <= b.off, b.off <= dv.len), n)
    j = z3.Int('j!rev')
    nd = tmap(lambda d: z3.Lambda([j], z3.If(z3.And(j >= a.off, j < b.off), z3.Select(d, a.off + b.off - 1 - j),
                                             z3.Select(d, j))), dv.data)
    ex.write(dp, VecVal(dv.len, nd, dv.el))
    return None


@free('find')
def _find(ex, args, n):
    a, b = ex.ev(args[0]), ex.ev(args[1])
    x = ex.calls._val(ex, args[2])
    if not (isinstance(a, PtrVal) and isinstance(b, PtrVal) and a.path is not None and a.path.same(b.path)):
        raise Unsupported('std::find over non-contiguous range')
    p, v = _vec_at(ex, a.path)
    ex.oblige('bounds', 'range', z3.And(a.off >= 0, a.off <= b.off, b.off <= v.len), n)
    j = z3.Int(ex.fresh_name('found'))
    k = z3.Int(ex.fresh_name('k!fd'))
    ex.assume(z3.And(j >= a.off, j <= b.off,
                     z3.Implies(j < b.off, z3.Select(v.data, j) == x),
                     z3.ForAll([k], z3.Implies(z3.And(k >= a.off, k < j), z3.Select(v.data, k) != x))))
    return PtrVal(a.path, j, a.el)


@free('accumulate')
def _accumulate(ex, args, n):
    """std::accumulate(first, last, init) with operator+ : init + sum of the range, as the spec function SUMR
    (left fold; over the reals the order is irrelevant)"""
    from .specfun import SUMR
    a, b = ex.ev(args[0]), ex.ev(args[1])
    init = ex.calls._val(ex, args[2])
    if len(args) > 3:
        raise Unsupported('accumulate with custom operation')
    if not (isinstance(a, PtrVal) and isinstance(b, PtrVal) and a.path is not None and a.path.same(b.path)):
        raise Unsupported('accumulate over non-contiguous range')
    p, v = _vec_at(ex, a.path)
    ex.oblige('bounds', 'range', z3.And(a.off >= 0, a.off <= b.off, b.off <= v.len), n)
    off0 = z3.is_int_value(z3.simplify(a.off)) and z3.simplify(a.off).as_long() == 0
    j = z3.Int('j!acc')

    def tot(d):
        arr = d if off0 else z3.Lambda([j], z3.Select(d, j + a.off))
        return SUMR(arr, b.off - a.off)
    if v.el[0] == 'real':
        return real(init) + tot(v.data)
    if v.el[0] == 'struct' and v.el[1] == 'dsplib::cmplx_t':
        return SVal('dsplib::cmplx_t', {'re': init.f['re'] + tot(v.data.f['re']), 'im': init.f['im'] + tot(v.data.f['im'])})
    raise Unsupported('accumulate element type')


@free('make_shared')
def _make_shared(ex, args, n):
    """std::make_shared<T>(args...): a fresh object of class T constructed with the matching constructor"""
    t = n['type'].get('desugaredQualType') or n['type']['qualType']
    m = re.match(r'^(?:std::)?shared_ptr<(.*)>$', re.sub(r'\bconst\b', '', t).strip())
    if not m:
        raise Unsupported('make_shared result type ' + t)
    cls = m.group(1).strip()
    sh = ex.shapes.of(cls)
    if sh[0] != 'struct':
        raise Unsupported('make_shared of ' + cls)
    qual = sh[1]
    cname = re.sub(r'<.*>$', '', qual).split('::')[-1]
    vals = []
    cands = []
    for d in ex.tu.decls.values():
        if d.get('kind') == 'CXXConstructorDecl' and d.get('_qual') == qual + '::' + cname and not d.get('_dependent'):
            from .calls import params_of
            ps = params_of(d)
            if len(args) > len(ps) or any(not [c_ for c_ in p_.get('inner', ()) if 'Comment' not in c_.get('kind', '')] for p_ in ps[len(args):]):
                continue      # too many arguments, or a missing argument without a default
            ok = True
            for p_, a in zip(ps, args):
                psh = ex.shapes.of_node(p_)
                ash = ex.ctype(a)
                if (psh[1] if psh[0] == 'ref' else psh) != ash:
                    ok = False
            if ok:
                cands.append(d)
    if not cands:
        if not args:
            obj = ex.new_root('heap_' + cname, ex.calls.default_construct(ex, sh, n))
            return PtrVal(obj, None)
        raise Unsupported('make_shared<%s>: constructor not found' % cls)
    from .calls import body_of
    cands.sort(key=lambda d: body_of(d) is None)
    d = cands[0]
    obj = ex.new_root('heap_' + cname, ex.calls.raw_object(ex, sh))
    c = S.lookup(d['_qual'], d['type']['qualType'], None)
    bound = ex.calls.bind_args(ex, d, args, n)
    if c is not None and not c.inline:
        ex.calls.apply_contract(ex, c, d, obj, bound, n, is_ctor=True)
    else:
        dd = ex.calls.definition_of(ex, d) or d
        if body_of(dd) is None:
            raise Unsupported('make_shared<%s>: no contract and no body for the constructor' % cls)
        ex.calls.inline(ex, dd, c, obj, bound, n)
    return PtrVal(obj, None)


from .specfun import COUNT_TRUE


@free('count')
def _count(ex, args, n):
    """std::count(first, last, true) over a whole vector<bool>: the number of true entries, as the spec function COUNT_TRUE
    (COUNT_TRUE(a, 0) = 0, COUNT_TRUE(a, k+1) = COUNT_TRUE(a, k) + [a[k]]); range and the all-false case are stated here"""
    a, b = ex.ev(args[0]), ex.ev(args[1])
    if not (isinstance(a, PtrVal) and isinstance(b, PtrVal) and a.path is not None and a.path.same(b.path)):
        raise Unsupported('std::count over non-contiguous range')
    p, v = _vec_at(ex, a.path)
    val = ex.ev(args[2])
    if v.el[0] != 'bool' or not (z3.is_true(z3.simplify(val)) if z3.is_expr(val) else val is True):
        raise Unsupported('std::count of this element type / value')
    ex.oblige('bounds', 'range', z3.And(a.off == 0, b.off == v.len), n)
    r = COUNT_TRUE(v.data, v.len)
    k = z3.Int(ex.fresh_name('k!ct'))
    ex.assume(z3.And(r >= 0, r <= v.len))
    ex.assume(z3.Implies(z3.ForAll([k], z3.Implies(z3.And(0 <= k, k < v.len), z3.Not(z3.Select(v.data, k)))), r == 0))
    ex.assume(z3.Implies(r == 0, z3.ForAll([k], z3.Implies(z3.And(0 <= k, k < v.len), z3.Not(z3.Select(v.data, k))))))
    ex.assumed.add('std::count(first, last, true): the number of true entries (between 0 and the length; 0 exactly when there is none)')
    return r


@free('distance')
def _distance(ex, args, n):
    a, b = ex.ev(args[0]), ex.ev(args[1])
    if isinstance(a, PtrVal) and isinstance(b, PtrVal) and a.path is not None and a.path.same(b.path):
        return b.off - a.off
    raise Unsupported('std::distance over unrelated iterators')


PERM = z3.Function('perm', z3.ArraySort(z3.IntSort(), z3.RealSort()), z3.ArraySort(z3.IntSort(), z3.RealSort()),
                   z3.IntSort(), z3.BoolSort())


@free('sort')
def _sort(ex, args, n):
    """std::sort(first, last) without comparator over reals: the range becomes a non-decreasing rearrangement
    (PERM: uninterpreted 'same multiset' relation, trusted)"""
    a, b = ex.ev(args[0]), ex.ev(args[1])
    if not (isinstance(a, PtrVal) and isinstance(b, PtrVal) and a.path is not None and a.path.same(b.path)):
        raise Unsupported('std::sort over non-contiguous range')
    p, v = _vec_at(ex, a.path)
    if len(args) > 2:
        return _sort_cmp(ex, p, v, a, b, ex.ev(args[2]), n)
    if v.el[0] != 'real':
        raise Unsupported('std::sort element type')
    ex.oblige('bounds', 'range', z3.And(a.off == 0, b.off == v.len), n)
    nd = z3.Const(ex.fresh_name('sorted'), v.data.sort())
    i, j = z3.Int(ex.fresh_name('i!so')), z3.Int(ex.fresh_name('j!so'))
    ex.assume(z3.ForAll([i, j], z3.Implies(z3.And(0 <= i, i <= j, j < v.len), z3.Select(nd, i) <= z3.Select(nd, j))))
    ex.assume(PERM(nd, v.data, v.len))
    k = z3.Int(ex.fresh_name('k!so'))
    # every element of the result occurs in the input and vice versa (consequences of PERM used by the contracts)
    w = z3.Int(ex.fresh_name('w!so'))
    ex.assume(z3.ForAll([k], z3.Implies(z3.And(0 <= k, k < v.len),
                                        z3.Exists([w], z3.And(0 <= w, w < v.len, z3.Select(nd, k) == z3.Select(v.data, w))))))
    ex.write(p, VecVal(v.len, nd, v.el))
    ex.assumed.add('std::sort: result is a non-decreasing rearrangement of the range (PERM uninterpreted)')
    return None


@free('lower_bound', 'upper_bound')
def _bound_search(ex, args, n):
    """std::lower_bound / std::upper_bound over a whole-range view of ints or reals: the first position whose element is not
    less than (lower) / greater than (upper) the value -- which is what the algorithms return on a range that is sorted, the
    precondition they state; the sortedness of the range is an obligation here"""
    a, b = ex.ev(args[0]), ex.ev(args[1])
    if len(args) != 3 or not (isinstance(a, PtrVal) and isinstance(b, PtrVal) and a.path is not None and a.path.same(b.path)):
        raise Unsupported('std::lower/upper_bound over this range / with comparator')
    p, v = _vec_at(ex, a.path)
    if v.el[0] not in ('int', 'real'):
        raise Unsupported('std::lower/upper_bound element type')
    val = ex.ev(args[2])
    if isinstance(val, RefVal):
        val = ex.read(val.path)
    val = ex.coerce(val, v.el)
    upper = callee_name(n) == 'upper_bound'
    ex.oblige('bounds', 'range', z3.And(0 <= a.off, a.off <= b.off, b.off <= v.len), n)
    i, j = z3.Int(ex.fresh_name('i!bs')), z3.Int(ex.fresh_name('j!bs'))
    ex.oblige('pre', 'sorted_range', z3.ForAll([i, j], z3.Implies(z3.And(a.off <= i, i <= j, j < b.off), z3.Select(v.data, i) <= z3.Select(v.data, j))), n)
    r = z3.Int(ex.fresh_name('bound'))
    before = (lambda e: e <= val) if upper else (lambda e: e < val)
    ex.assume(z3.And(a.off <= r, r <= b.off,
                     z3.ForAll([i], z3.Implies(z3.And(a.off <= i, i < r), before(z3.Select(v.data, i)))),
                     z3.ForAll([i], z3.Implies(z3.And(r <= i, i < b.off), z3.Not(before(z3.Select(v.data, i)))))))
    return PtrVal(a.path, r, a.el)


@free('nth_element')
def _nth_element(ex, args, n):
    """std::nth_element(first, nth, last) over reals: a rearrangement in which nothing before nth exceeds the element at nth and
    nothing after it is smaller (nothing else is promised about the order on either side)"""
    a, m, b = ex.ev(args[0]), ex.ev(args[1]), ex.ev(args[2])
    if not all(isinstance(t, PtrVal) and t.path is not None and t.path.same(a.path) for t in (a, m, b)) or len(args) > 3:
        raise Unsupported('std::nth_element over this range / with comparator')
    p, v = _vec_at(ex, a.path)
    if v.el[0] != 'real':
        raise Unsupported('std::nth_element element type')
    ex.oblige('bounds', 'range', z3.And(a.off == 0, b.off == v.len, 0 <= m.off, m.off <= v.len), n)
    nd = z3.Const(ex.fresh_name('nth'), v.data.sort())
    i = z3.Int(ex.fresh_name('i!ne'))
    w = z3.Int(ex.fresh_name('w!ne'))
    ex.assume(z3.Implies(m.off < v.len, z3.ForAll([i], z3.Implies(z3.And(0 <= i, i < v.len), z3.If(i < m.off, z3.Select(nd, i) <= z3.Select(nd, m.off), z3.Select(nd, i) >= z3.Select(nd, m.off))))))
    ex.assume(PERM(nd, v.data, v.len))
    ex.assume(z3.ForAll([i], z3.Implies(z3.And(0 <= i, i < v.len), z3.Exists([w], z3.And(0 <= w, w < v.len, z3.Select(nd, i) == z3.Select(v.data, w))))))
    ex.write(p, VecVal(v.len, nd, v.el))
    ex.assumed.add('std::nth_element: a rearrangement partitioned around the element at nth (PERM uninterpreted)')
    return None


def _sort_cmp(ex, p, v, a, b, lam, n):
    """std::sort(first, last, comp) over an int array: the result is a rearrangement without inversions w.r.t. comp
    (trusted: comp is a strict weak order); rearrangements keep elements, injectivity and ranges"""
    from .values import LambdaVal
    if not isinstance(lam, LambdaVal) or v.el[0] != 'int':
        raise Unsupported('std::sort with this comparator / element type')
    ex.oblige('bounds', 'range', z3.And(a.off == 0, b.off == v.len), n)
    nd = z3.Const(ex.fresh_name('sortedidx'), v.data.sort())
    i, j, w = z3.Int(ex.fresh_name('i!sc')), z3.Int(ex.fresh_name('j!sc')), z3.Int(ex.fresh_name('w!sc'))
    inv = ex.apply_lambda(lam, [z3.Select(nd, j), z3.Select(nd, i)])
    ex.assume(z3.ForAll([i, j], z3.Implies(z3.And(0 <= i, i < j, j < v.len), z3.Not(inv))))
    # rearrangement facts in quantifier-alternation-free form: an index vector stays an index vector
    old_rng = z3.ForAll([i], z3.Implies(z3.And(0 <= i, i < v.len), z3.And(0 <= z3.Select(v.data, i), z3.Select(v.data, i) < v.len)))
    new_rng = z3.ForAll([i], z3.Implies(z3.And(0 <= i, i < v.len), z3.And(0 <= z3.Select(nd, i), z3.Select(nd, i) < v.len)))
    ex.assume(z3.Implies(old_rng, new_rng))
    old_inj = z3.ForAll([i, j], z3.Implies(z3.And(0 <= i, i < j, j < v.len), z3.Select(v.data, i) != z3.Select(v.data, j)))
    new_inj = z3.ForAll([i, j], z3.Implies(z3.And(0 <= i, i < j, j < v.len), z3.Select(nd, i) != z3.Select(nd, j)))
    ex.assume(z3.Implies(old_inj, new_inj))
    ex.write(p, VecVal(v.len, nd, v.el))
    ex.assumed.add('std::sort(first,last,comp): result has no inversion w.r.t. comp and is a rearrangement '
                   '(elements kept, injectivity kept); comp assumed a strict weak order')
    return None


@free('is_sorted')
def _is_sorted(ex, args, n):
    a, b = ex.ev(args[0]), ex.ev(args[1])
    if not (isinstance(a, PtrVal) and isinstance(b, PtrVal) and a.path is not None and a.path.same(b.path)):
        raise Unsupported('std::is_sorted over non-contiguous range')
    p, v = _vec_at(ex, a.path)
    ex.oblige('bounds', 'range', z3.And(a.off >= 0, a.off <= b.off, b.off <= v.len), n)
    k = z3.Int(ex.fresh_name('k!is'))
    x0, x1 = select(v.data, k), select(v.data, k + 1)
    if len(args) > 2:
        lam = ex.ev(args[2])
        from .values import LambdaVal
        if not isinstance(lam, LambdaVal):
            raise Unsupported('is_sorted comparator')
        bad = ex.apply_lambda(lam, [x1, x0])
    else:
        bad = x1 < x0
    return z3.ForAll([k], z3.Implies(z3.And(a.off <= k, k + 1 < b.off), z3.Not(bad)))


@free('iota')
def _iota(ex, args, n):
    a, b = ex.ev(args[0]), ex.ev(args[1])
    val = ex.ev(args[2])
    if not (isinstance(a, PtrVal) and isinstance(b, PtrVal) and a.path is not None and a.path.same(b.path)):
        raise Unsupported('std::iota over non-contiguous range')
    p, v = _vec_at(ex, a.path)
    ex.oblige('bounds', 'range', z3.And(a.off >= 0, a.off <= b.off, b.off <= v.len), n)
    j = z3.Int('j!io')
    nd = z3.Lambda([j], z3.If(z3.And(j >= a.off, j < b.off), val + (j - a.off), z3.Select(v.data, j)))
    ex.write(p, VecVal(v.len, nd, v.el))
    return None


@free('is_sorted_until')
def _is_sorted_until(ex, args, n):
    """first position whose element is smaller than its predecessor (or last)"""
    a, b = ex.ev(args[0]), ex.ev(args[1])
    if len(args) > 2:
        raise Unsupported('is_sorted_until with comparator')
    if not (isinstance(a, PtrVal) and isinstance(b, PtrVal) and a.path is not None and a.path.same(b.path)):
        raise Unsupported('std::is_sorted_until over non-contiguous range')
    p, v = _vec_at(ex, a.path)
    ex.oblige('bounds', 'range', z3.And(a.off >= 0, a.off <= b.off, b.off <= v.len), n)
    j = z3.Int(ex.fresh_name('until'))
    k = z3.Int(ex.fresh_name('k!su'))
    ex.assume(z3.And(j >= a.off, j <= b.off, z3.Implies(a.off < b.off, j > a.off),
                     z3.ForAll([k], z3.Implies(z3.And(a.off <= k, k + 1 < j), z3.Select(v.data, k) <= z3.Select(v.data, k + 1))),
                     z3.Implies(j < b.off, z3.Select(v.data, j) < z3.Select(v.data, j - 1))))
    return PtrVal(a.path, j, a.el)
